"""Feature catalogue: each feature adds one OpenAPI construct to a small valid base document.

The catalogue is the concretisation of the abstract feature names that specs/Gen_Features.tla enumerates
(singles, pairs, triples x layouts x naming strategies).  Every function mutates the document in place and is
independent of the others (own schema / path names), so any subset can be combined.
"""

from __future__ import annotations

import copy
from typing import Any, Callable

R = "#/components/schemas/"


def ref(n: str) -> dict:
    return {"$ref": R + n}


def obj(props: dict, required: list[str] | None = None, **kw: Any) -> dict:
    d: dict[str, Any] = {"type": "object", "properties": props}
    if required:
        d["required"] = required
    d.update(kw)
    return d


def jresp(schema: dict, desc: str = "ok") -> dict:
    return {"description": desc, "content": {"application/json": {"schema": schema}}}


def base() -> dict:
    return {
        "openapi": "3.0.3",
        "info": {"title": "Feature API", "version": "1.0.0"},
        "paths": {
            "/pets": {
                "get": {"operationId": "listPets", "tags": ["pets"], "responses": {"200": jresp({"type": "array", "items": ref("Pet")})}},
                "post": {
                    "operationId": "createPet",
                    "tags": ["pets"],
                    "requestBody": {"required": True, "content": {"application/json": {"schema": ref("Pet")}}},
                    "responses": {"201": jresp(ref("Pet"))},
                },
            },
            "/pets/{petId}": {
                "get": {
                    "operationId": "getPet",
                    "tags": ["pets"],
                    "parameters": [{"name": "petId", "in": "path", "required": True, "schema": {"type": "integer"}}],
                    "responses": {"200": jresp(ref("Pet")), "404": {"description": "missing"}},
                }
            },
        },
        "components": {
            "schemas": {
                "Pet": obj({"id": {"type": "integer"}, "name": {"type": "string"}}, ["id", "name"]),
                "Owner": obj({"id": {"type": "integer"}, "pets": {"type": "array", "items": ref("Pet")}}, ["id"]),
            }
        },
    }


def S(d: dict) -> dict:
    return d["components"]["schemas"]


def op(d: dict, path: str, method: str, body: dict, path_level: dict | None = None) -> None:
    item = d["paths"].setdefault(path, {})
    if path_level:
        item.update(path_level)
    item[method] = body


def use(d: dict, name: str, schema_name: str) -> None:
    """Make a schema reachable from an operation (GET returning it)."""
    op(d, f"/f/{name}", "get", {"operationId": f"get_{name}", "tags": ["feat"], "responses": {"200": jresp(ref(schema_name))}})


# ---- schema features ---------------------------------------------------------------------------


def f_self_ref_opt(d):
    S(d)["Node"] = obj({"value": {"type": "string"}, "next": ref("Node")}, ["value"])
    use(d, "node", "Node")


def f_self_ref_req(d):
    S(d)["Link"] = obj({"value": {"type": "string"}, "next": ref("Link")}, ["value", "next"])
    use(d, "link", "Link")


def f_self_ref_arr(d):
    S(d)["Tree"] = obj({"label": {"type": "string"}, "children": {"type": "array", "items": ref("Tree")}}, ["label"])
    use(d, "tree", "Tree")


def f_mutual_ref(d):
    S(d)["Alpha"] = obj({"name": {"type": "string"}, "beta": ref("Beta")})
    S(d)["Beta"] = obj({"name": {"type": "string"}, "alpha": ref("Alpha")})
    use(d, "alpha", "Alpha")


def f_cycle3(d):
    S(d)["Xa"] = obj({"y": ref("Yb")})
    S(d)["Yb"] = obj({"z": {"type": "array", "items": ref("Zc")}})
    S(d)["Zc"] = obj({"x": ref("Xa")})
    use(d, "xa", "Xa")


def f_allof_parent(d):
    S(d)["Dog"] = {"allOf": [ref("Pet"), obj({"breed": {"type": "string"}}, ["breed"])]}
    use(d, "dog", "Dog")


def f_allof_sibling(d):
    S(d)["Cat"] = {"type": "object", "allOf": [ref("Pet")], "properties": {"lives": {"type": "integer"}}}
    use(d, "cat", "Cat")


def f_oneof_plain(d):
    S(d)["Circle"] = obj({"radius": {"type": "number"}}, ["radius"])
    S(d)["Square"] = obj({"side": {"type": "number"}}, ["side"])
    S(d)["Shape"] = {"oneOf": [ref("Circle"), ref("Square")]}
    use(d, "shape", "Shape")


def f_oneof_disc(d):
    S(d)["CardPay"] = obj({"kind": {"type": "string"}, "number": {"type": "string"}}, ["kind", "number"])
    S(d)["BankPay"] = obj({"kind": {"type": "string"}, "iban": {"type": "string"}}, ["kind", "iban"])
    S(d)["Payment"] = {
        "oneOf": [ref("CardPay"), ref("BankPay")],
        "discriminator": {"propertyName": "kind", "mapping": {"card": R + "CardPay", "bank": R + "BankPay"}},
    }
    use(d, "payment", "Payment")


def f_disc_numeric_keys(d):
    # discriminator values that LOOK like numbers: JSON writes the mapping keys as strings, YAML may write them bare
    S(d)["TierOne"] = obj({"level": {"type": "string", "enum": ["1"]}, "one": {"type": "string"}}, ["level"])
    S(d)["TierTwo"] = obj({"level": {"type": "string", "enum": ["2"]}, "two": {"type": "integer"}}, ["level"])
    S(d)["Tier"] = {
        "oneOf": [ref("TierOne"), ref("TierTwo")],
        "discriminator": {"propertyName": "level", "mapping": {"1": R + "TierOne", "2": R + "TierTwo"}},
    }
    use(d, "tier", "Tier")


def f_numeric_prop_keys(d):
    # a property whose name looks like a number (YAML may write the key bare)
    S(d)["Counts"] = obj({"404": {"type": "integer"}, "name": {"type": "string"}})
    use(d, "counts", "Counts")


def f_case_variant_schemas(d):
    # two pairs of schemas whose class names differ only in capitalisation: every case-insensitive ordering ties on them
    S(d)["MetaData"] = obj({"a": {"type": "string"}})
    S(d)["Metadata"] = obj({"b": {"type": "integer"}})
    S(d)["WebHook"] = obj({"url": {"type": "string"}})
    S(d)["Webhook"] = obj({"target": {"type": "string"}})
    S(d)["CaseHolder"] = obj({"m1": ref("MetaData"), "m2": ref("Metadata"), "w1": ref("WebHook"), "w2": ref("Webhook")})
    use(d, "case_holder", "CaseHolder")


def f_oneof_disc_nomap(d):
    S(d)["EvA"] = obj({"type": {"type": "string"}, "a": {"type": "string"}}, ["type"])
    S(d)["EvB"] = obj({"type": {"type": "string"}, "b": {"type": "string"}}, ["type"])
    S(d)["Event"] = {"oneOf": [ref("EvA"), ref("EvB")], "discriminator": {"propertyName": "type"}}
    use(d, "event", "Event")


def f_anyof(d):
    S(d)["Flex"] = obj({"v": {"anyOf": [ref("Pet"), {"type": "string"}]}})
    use(d, "flex", "Flex")


def f_union_prop(d):
    S(d)["Holder"] = obj({"item": {"oneOf": [ref("Pet"), ref("Owner")]}, "items": {"type": "array", "items": {"oneOf": [ref("Pet"), ref("Owner")]}}})
    use(d, "holder", "Holder")


def f_enum_top(d):
    S(d)["Status"] = {"type": "string", "enum": ["active", "in-active", "3rd"]}
    S(d)["WithStatus"] = obj({"status": ref("Status")})
    use(d, "withstatus", "WithStatus")


def f_enum_int(d):
    S(d)["Priority"] = {"type": "integer", "enum": [1, 2, 3]}
    S(d)["Task"] = obj({"priority": ref("Priority")})
    use(d, "task", "Task")


def f_enum_inline(d):
    S(d)["Ticket"] = obj({"state": {"type": "string", "enum": ["open", "closed"]}, "level": {"type": "integer", "enum": [10, 20]}})
    use(d, "ticket", "Ticket")


def f_inline_object(d):
    S(d)["Order"] = obj({"address": obj({"street": {"type": "string"}, "geo": obj({"lat": {"type": "number"}})})})
    use(d, "order", "Order")


def f_arr_inline(d):
    S(d)["Cart"] = obj({"lines": {"type": "array", "items": obj({"sku": {"type": "string"}, "qty": {"type": "integer"}}, ["sku"])}})
    use(d, "cart", "Cart")


def f_map_typed(d):
    S(d)["Registry"] = obj({"byName": {"type": "object", "additionalProperties": ref("Pet")}, "counts": {"type": "object", "additionalProperties": {"type": "integer"}}})
    use(d, "registry", "Registry")


def f_map_untyped(d):
    S(d)["Bag"] = obj({"meta": {"type": "object", "additionalProperties": True}, "free": {"type": "object"}})
    S(d)["AnyMap"] = {"type": "object", "additionalProperties": True}
    use(d, "bag", "Bag")


def f_nullable(d):
    S(d)["MaybeN"] = obj({"note": {"type": "string", "nullable": True}, "pet": {"allOf": [ref("Pet")], "nullable": True}, "n": {"type": "integer", "nullable": True}}, ["note"])
    use(d, "maybe", "MaybeN")


def f_formats(d):
    S(d)["Stamps"] = obj(
        {
            "d": {"type": "string", "format": "date"},
            "dt": {"type": "string", "format": "date-time"},
            "u": {"type": "string", "format": "uuid"},
            "by": {"type": "string", "format": "byte"},
            "bi": {"type": "string", "format": "binary"},
            "t": {"type": "string", "format": "time"},
            "e": {"type": "string", "format": "email"},
            "uri": {"type": "string", "format": "uri"},
            "i64": {"type": "integer", "format": "int64"},
            "fl": {"type": "number", "format": "float"},
        },
        ["d", "u"],
    )
    use(d, "stamps", "Stamps")


def f_prim_alias(d):
    S(d)["PetId"] = {"type": "string"}
    S(d)["Score"] = {"type": "number"}
    S(d)["Tagged"] = obj({"pid": ref("PetId"), "score": ref("Score")})
    use(d, "tagged", "Tagged")
    use(d, "petid", "PetId")


def f_arr_alias(d):
    S(d)["PetList"] = {"type": "array", "items": ref("Pet")}
    S(d)["Names"] = {"type": "array", "items": {"type": "string"}}
    use(d, "petlist", "PetList")
    use(d, "names", "Names")


def f_colliding_names(d):
    S(d)["Foo-Bar"] = obj({"a": {"type": "string"}})
    S(d)["FooBar"] = obj({"b": {"type": "string"}})
    S(d)["foo_bar"] = obj({"c": {"type": "string"}})
    use(d, "foobar1", "Foo-Bar")
    use(d, "foobar2", "FooBar")
    use(d, "foobar3", "foo_bar")


def f_reserved_names(d):
    S(d)["List"] = obj({"head": {"type": "string"}})
    S(d)["date"] = obj({"iso": {"type": "string"}})
    S(d)["Any"] = obj({"x": {"type": "string"}})
    S(d)["UsesReserved"] = obj({"l": ref("List"), "d": ref("date"), "a": ref("Any"), "many": {"type": "array", "items": ref("List")}})
    use(d, "usesreserved", "UsesReserved")


def f_shadow_props(d):
    S(d)["Shadow"] = obj(
        {
            "date": {"type": "string", "format": "date"},
            "other": {"type": "string", "format": "date"},
            "datetime": {"type": "string", "format": "date-time"},
            "later": {"type": "string", "format": "date-time"},
            "field": {"type": "array", "items": {"type": "string"}},
            "items2": {"type": "array", "items": {"type": "string"}},
        }
    )
    use(d, "shadow", "Shadow")


def f_keyword_props(d):
    S(d)["Kw"] = obj({"class": {"type": "string"}, "from": {"type": "string"}, "self": {"type": "string"}, "id": {"type": "string"}, "type": {"type": "string"}, "List": {"type": "string"}, "1st": {"type": "string"}, "kebab-key": {"type": "string"}, "camelCase": {"type": "string"}}, ["class"])
    use(d, "kw", "Kw")


def f_defaults(d):
    S(d)["Defs"] = obj({"s": {"type": "string", "default": "x"}, "n": {"type": "integer", "default": 3}, "b": {"type": "boolean", "default": True}, "l": {"type": "array", "items": {"type": "string"}, "default": []}, "e": {"type": "string", "enum": ["a", "b"], "default": "a"}})
    use(d, "defs", "Defs")


def f_deep_nesting(d):
    S(d)["Matrix"] = obj({"rows": {"type": "array", "items": {"type": "array", "items": {"type": "integer"}}}, "grid": {"type": "object", "additionalProperties": {"type": "array", "items": ref("Pet")}}})
    use(d, "matrix", "Matrix")


def f_no_props_object(d):
    S(d)["Empty"] = {"type": "object"}
    S(d)["DescOnly"] = {"description": "nothing else"}
    use(d, "empty", "Empty")
    use(d, "desconly", "DescOnly")


# ---- operation features ------------------------------------------------------------------------


def f_pathlevel_param(d):
    op(
        d,
        "/stores/{id}",
        "get",
        {"operationId": "getStore", "tags": ["stores"], "parameters": [{"name": "id", "in": "path", "required": True, "schema": {"type": "string"}, "description": "op level"}], "responses": {"200": jresp(ref("Pet"))}},
        path_level={"parameters": [{"name": "id", "in": "path", "required": True, "schema": {"type": "string"}}]},
    )


def f_pathlevel_only(d):
    op(d, "/depots/{depotId}", "get", {"operationId": "getDepot", "tags": ["stores"], "responses": {"200": jresp(ref("Pet"))}}, path_level={"parameters": [{"name": "depotId", "in": "path", "required": True, "schema": {"type": "string"}}]})


def f_params_everywhere(d):
    op(
        d,
        "/search/{scope}",
        "get",
        {
            "operationId": "search",
            "tags": ["search"],
            "parameters": [
                {"name": "scope", "in": "path", "required": True, "schema": {"type": "string"}},
                {"name": "q", "in": "query", "required": True, "schema": {"type": "string"}},
                {"name": "page-size", "in": "query", "schema": {"type": "integer"}},
                {"name": "X-Request-Id", "in": "header", "schema": {"type": "string"}},
                {"name": "session", "in": "cookie", "schema": {"type": "string"}},
            ],
            "responses": {"200": jresp({"type": "array", "items": ref("Pet")})},
        },
    )


def f_param_types(d):
    op(
        d,
        "/filter",
        "get",
        {
            "operationId": "filterPets",
            "tags": ["search"],
            "parameters": [
                {"name": "tags", "in": "query", "schema": {"type": "array", "items": {"type": "string"}}},
                {"name": "sort", "in": "query", "schema": {"type": "string", "enum": ["asc", "desc"]}},
                {"name": "since", "in": "query", "schema": {"type": "string", "format": "date"}},
                {"name": "at", "in": "query", "schema": {"type": "string", "format": "date-time"}},
                {"name": "flag", "in": "query", "schema": {"type": "boolean"}},
                {"name": "ref", "in": "query", "schema": ref("Pet")},
            ],
            "responses": {"200": jresp({"type": "array", "items": ref("Pet")})},
        },
    )


def f_param_names(d):
    op(
        d,
        "/odd",
        "get",
        {
            "operationId": "oddParams",
            "tags": ["search"],
            "parameters": [
                {"name": "class", "in": "query", "schema": {"type": "string"}},
                {"name": "from", "in": "query", "schema": {"type": "string"}},
                {"name": "url", "in": "query", "schema": {"type": "string"}},
                {"name": "params", "in": "query", "schema": {"type": "string"}},
                {"name": "headers", "in": "query", "schema": {"type": "string"}},
                {"name": "response", "in": "query", "schema": {"type": "string"}},
                {"name": "self", "in": "query", "schema": {"type": "string"}},
            ],
            "responses": {"200": jresp(ref("Pet"))},
        },
    )


def f_param_sanitise_clash(d):
    op(d, "/clash", "get", {"operationId": "clashParams", "tags": ["search"], "parameters": [{"name": "user-id", "in": "query", "schema": {"type": "string"}}, {"name": "user_id", "in": "query", "schema": {"type": "string"}}], "responses": {"200": jresp(ref("Pet"))}})


def f_body_form(d):
    op(d, "/login", "post", {"operationId": "login", "tags": ["auth"], "requestBody": {"required": True, "content": {"application/x-www-form-urlencoded": {"schema": obj({"user": {"type": "string"}, "password": {"type": "string"}}, ["user"])}}}, "responses": {"200": jresp(obj({"token": {"type": "string"}}))}})


def f_body_multipart(d):
    op(d, "/upload", "post", {"operationId": "upload", "tags": ["files"], "requestBody": {"required": True, "content": {"multipart/form-data": {"schema": obj({"file": {"type": "string", "format": "binary"}, "note": {"type": "string"}})}}}, "responses": {"201": jresp(ref("Pet"))}})


def f_body_octet(d):
    op(d, "/blob", "put", {"operationId": "putBlob", "tags": ["files"], "requestBody": {"required": True, "content": {"application/octet-stream": {"schema": {"type": "string", "format": "binary"}}}}, "responses": {"204": {"description": "stored"}}})


def f_body_multi_content(d):
    op(
        d,
        "/docs",
        "post",
        {
            "operationId": "createDoc",
            "tags": ["files"],
            "parameters": [{"name": "draft", "in": "query", "schema": {"type": "boolean"}}],
            "requestBody": {"required": True, "content": {"application/json": {"schema": ref("Pet")}, "multipart/form-data": {"schema": obj({"file": {"type": "string", "format": "binary"}})}}},
            "responses": {"201": jresp(ref("Pet"))},
        },
    )


def f_body_optional(d):
    op(d, "/notes", "post", {"operationId": "addNote", "tags": ["pets"], "requestBody": {"required": False, "content": {"application/json": {"schema": obj({"text": {"type": "string"}})}}}, "responses": {"200": jresp(ref("Pet"))}})


def f_body_primitive(d):
    op(d, "/rename", "post", {"operationId": "rename", "tags": ["pets"], "requestBody": {"required": True, "content": {"application/json": {"schema": {"type": "string"}}}}, "responses": {"200": jresp({"type": "string"})}})
    op(d, "/bulk", "post", {"operationId": "bulk", "tags": ["pets"], "requestBody": {"required": True, "content": {"application/json": {"schema": {"type": "array", "items": ref("Pet")}}}}, "responses": {"200": jresp({"type": "integer"})}})


def f_secondary_2xx(d):
    op(d, "/jobs", "post", {"operationId": "startJob", "tags": ["jobs"], "responses": {"200": jresp(ref("Pet")), "202": jresp(ref("Owner")), "204": {"description": "nothing"}}})


def f_text_response(d):
    op(d, "/motd", "get", {"operationId": "motd", "tags": ["misc"], "responses": {"200": {"description": "ok", "content": {"text/plain": {"schema": {"type": "string"}}}}}})


def f_binary_response(d):
    op(d, "/download", "get", {"operationId": "download", "tags": ["files"], "responses": {"200": {"description": "ok", "content": {"application/octet-stream": {"schema": {"type": "string", "format": "binary"}}}}}})


def f_sse_response(d):
    op(d, "/events", "get", {"operationId": "events", "tags": ["misc"], "responses": {"200": {"description": "ok", "content": {"text/event-stream": {"schema": ref("Pet")}}}}})
    op(d, "/lines", "get", {"operationId": "lines", "tags": ["misc"], "responses": {"200": {"description": "ok", "content": {"application/x-ndjson": {"schema": ref("Pet")}}}}})


def f_default_response(d):
    S(d)["Problem"] = obj({"title": {"type": "string"}})
    op(d, "/risky", "get", {"operationId": "risky", "tags": ["misc"], "responses": {"200": jresp(ref("Pet")), "default": jresp(ref("Problem"), "error")}})
    op(d, "/risky2", "get", {"operationId": "risky2", "tags": ["misc"], "responses": {"200": jresp(ref("Pet")), "default": {"description": "error"}}})


def f_declared_3xx(d):
    op(d, "/moved", "get", {"operationId": "moved", "tags": ["misc"], "responses": {"200": jresp(ref("Pet")), "302": {"description": "redirect"}}})


def f_declared_1xx(d):
    op(d, "/cont", "get", {"operationId": "cont", "tags": ["misc"], "responses": {"200": jresp(ref("Pet")), "101": {"description": "switching"}}})


def f_status_ranges(d):
    op(d, "/ranges", "get", {"operationId": "ranges", "tags": ["misc"], "responses": {"2XX": jresp(ref("Pet")), "4XX": {"description": "client"}, "5XX": {"description": "server"}}})


def f_many_errors(d):
    S(d)["Err"] = obj({"code": {"type": "integer"}})
    op(d, "/strict", "get", {"operationId": "strict", "tags": ["misc"], "responses": {"200": jresp(ref("Pet")), "400": jresp(ref("Err")), "401": {"description": "u"}, "403": {"description": "f"}, "409": {"description": "c"}, "418": {"description": "t"}, "422": jresp(ref("Err")), "429": {"description": "r"}, "500": jresp(ref("Err")), "503": {"description": "s"}}})


def f_multi_tag(d):
    op(d, "/shared", "get", {"operationId": "sharedOp", "tags": ["pets", "admin"], "responses": {"200": jresp(ref("Pet"))}})


def f_no_tag(d):
    op(d, "/untagged", "get", {"operationId": "untagged", "responses": {"200": jresp(ref("Pet"))}})


def f_tag_variants(d):
    op(d, "/tv1", "get", {"operationId": "tv1", "tags": ["user-accounts"], "responses": {"200": jresp(ref("Pet"))}})
    op(d, "/tv2", "get", {"operationId": "tv2", "tags": ["User Accounts"], "responses": {"200": jresp(ref("Pet"))}})
    op(d, "/tv3", "get", {"operationId": "tv3", "tags": ["userAccounts"], "responses": {"200": jresp(ref("Pet"))}})


def f_tag_reserved(d):
    op(d, "/tr1", "get", {"operationId": "tr1", "tags": ["request"], "responses": {"200": jresp(ref("Pet"))}})
    op(d, "/tr2", "get", {"operationId": "tr2", "tags": ["class"], "responses": {"200": jresp(ref("Pet"))}})


def f_no_operation_id(d):
    op(d, "/anon/{id}", "get", {"tags": ["pets"], "parameters": [{"name": "id", "in": "path", "required": True, "schema": {"type": "string"}}], "responses": {"200": jresp(ref("Pet"))}})
    op(d, "/anon/{id}", "delete", {"tags": ["pets"], "parameters": [{"name": "id", "in": "path", "required": True, "schema": {"type": "string"}}], "responses": {"204": {"description": "gone"}}})


def f_dup_operation_id(d):
    # ids are unique as the specification requires, but collide after sanitising
    op(d, "/dup1", "get", {"operationId": "getThing", "tags": ["dups"], "responses": {"200": jresp(ref("Pet"))}})
    op(d, "/dup2", "get", {"operationId": "get_thing", "tags": ["dups"], "responses": {"200": jresp(ref("Pet"))}})
    op(d, "/dup3", "get", {"operationId": "get-thing", "tags": ["dups"], "responses": {"200": jresp(ref("Pet"))}})


def f_fastapi_ids(d):
    op(d, "/api/v1/items/{item_id}", "get", {"operationId": "read_item_api_v1_items__item_id__get", "tags": ["items"], "parameters": [{"name": "item_id", "in": "path", "required": True, "schema": {"type": "integer"}}], "responses": {"200": jresp(ref("Pet"))}})
    op(d, "/api/v1/items", "post", {"operationId": "create_item_api_v1_items_post", "tags": ["items"], "requestBody": {"content": {"application/json": {"schema": ref("Pet")}}}, "responses": {"201": jresp(ref("Pet"))}})


def f_all_methods(d):
    for m in ("put", "patch", "delete", "head", "options"):
        op(d, "/res/{rid}", m, {"operationId": f"{m}Res", "tags": ["res"], "parameters": [{"name": "rid", "in": "path", "required": True, "schema": {"type": "string"}}], "responses": {"204": {"description": "done"}}})


def f_inline_response_object(d):
    op(d, "/summary", "get", {"operationId": "summary", "tags": ["misc"], "responses": {"200": jresp(obj({"total": {"type": "integer"}, "items": {"type": "array", "items": obj({"k": {"type": "string"}})}}))}})


def f_component_params_responses(d):
    d["components"].setdefault("parameters", {})["Limit"] = {"name": "limit", "in": "query", "schema": {"type": "integer"}}
    d["components"].setdefault("responses", {})["NotFound"] = {"description": "nf", "content": {"application/json": {"schema": obj({"msg": {"type": "string"}})}}}
    d["components"].setdefault("requestBodies", {})["PetBody"] = {"required": True, "content": {"application/json": {"schema": ref("Pet")}}}
    op(d, "/comp", "post", {"operationId": "compOp", "tags": ["misc"], "parameters": [{"$ref": "#/components/parameters/Limit"}], "requestBody": {"$ref": "#/components/requestBodies/PetBody"}, "responses": {"200": jresp(ref("Pet")), "404": {"$ref": "#/components/responses/NotFound"}}})


def f_servers_security(d):
    d["servers"] = [{"url": "https://api.example.com/v1"}]
    d["components"]["securitySchemes"] = {"bearer": {"type": "http", "scheme": "bearer"}, "key": {"type": "apiKey", "in": "header", "name": "X-Key"}}
    d["security"] = [{"bearer": []}]


def f_collide_then_suffix(d):
    """Names that collide after sanitisation PLUS names that equal the suffixed forms a de-collision loop would produce
    (`item`, `Item`, `Item2`, `item_2`): every one referenced directly from an operation."""
    S(d)["item"] = obj({"a": {"type": "string"}})
    S(d)["Item"] = obj({"b": {"type": "string"}})
    S(d)["Item2"] = obj({"c": {"type": "string"}})
    S(d)["item_2"] = obj({"d": {"type": "string"}})
    for i, n in enumerate(["item", "Item", "Item2", "item_2"]):
        op(d, f"/coll/{i}", "get", {"operationId": f"getColl{i}", "tags": ["coll"], "responses": {"200": jresp(ref(n))}})


def f_undeclared_path_var(d):
    """A path template variable without a parameter object (the generator adds it itself) next to optional parameters."""
    op(d, "/toys/{toyId}/parts/{partId}", "get", {"operationId": "getToyPart", "tags": ["toys"], "parameters": [{"name": "verbose", "in": "query", "schema": {"type": "boolean"}}, {"name": "X-Opt", "in": "header", "schema": {"type": "string"}}], "responses": {"200": jresp(ref("Pet"))}})
    op(d, "/toys/{toyId}", "delete", {"operationId": "dropToy", "tags": ["toys"], "parameters": [{"name": "force", "in": "query", "schema": {"type": "boolean"}}], "responses": {"204": {"description": "gone"}}})


def f_undeclared_var_required_body(d):
    """Two features on ONE operation: an undeclared path-template variable and a required request body (and one more required input)."""
    op(d, "/notes/{noteId}/items", "post", {"operationId": "addNoteItem", "tags": ["notes"], "requestBody": {"required": True, "content": {"application/json": {"schema": ref("Pet")}}}, "responses": {"201": jresp(ref("Pet"))}})
    op(d, "/notes/{noteId}", "put", {"operationId": "putNote", "tags": ["notes"], "parameters": [{"name": "X-Tenant", "in": "header", "required": True, "schema": {"type": "string"}}], "requestBody": {"required": True, "content": {"application/json": {"schema": ref("Pet")}}}, "responses": {"200": jresp(ref("Pet"))}})


def f_required_with_default(d):
    """Required inputs that also declare a default, declared BEFORE required inputs without one (parameter, header, body)."""
    op(d, "/reports", "get", {"operationId": "listReports", "tags": ["reports"], "parameters": [
        {"name": "page", "in": "query", "required": True, "schema": {"type": "integer", "default": 1}},
        {"name": "X-Tenant", "in": "header", "required": True, "schema": {"type": "string"}},
        {"name": "flag", "in": "query", "required": True, "schema": {"type": "boolean", "default": False}},
        {"name": "q", "in": "query", "schema": {"type": "string"}}], "responses": {"200": jresp(ref("Pet"))}})
    op(d, "/reports", "post", {"operationId": "makeReport", "tags": ["reports"], "parameters": [
        {"name": "format", "in": "query", "required": True, "schema": {"type": "string", "default": "html"}}],
        "requestBody": {"required": True, "content": {"application/json": {"schema": ref("Pet")}}}, "responses": {"201": jresp(ref("Pet"))}})
    S(d)["Tuning"] = obj({"mode": {"type": "string", "default": "fast"}, "level": {"type": "integer", "default": 3}, "name": {"type": "string"}}, ["mode", "level", "name"])
    use(d, "tuning", "Tuning")


def _sink(d, n: int) -> None:
    """ONE tag whose endpoints module needs more and more names from its imports: the first n of a fixed list of operation kinds."""
    kinds = [
        ("/sink/items", "get", {"parameters": [{"name": "limit", "in": "query", "schema": {"type": "integer"}}], "responses": {"200": jresp({"type": "array", "items": ref("Pet")})}}),
        ("/sink/upload", "post", {"requestBody": {"required": True, "content": {"application/json": {"schema": ref("Pet")}, "multipart/form-data": {"schema": obj({"file": {"type": "string", "format": "binary"}})}}}, "responses": {"201": jresp(ref("Pet"))}}),
        ("/sink/events", "get", {"responses": {"200": {"description": "ok", "content": {"text/event-stream": {"schema": ref("Pet")}}}}}),
        ("/sink/blob", "get", {"responses": {"200": {"description": "ok", "content": {"application/octet-stream": {"schema": {"type": "string", "format": "binary"}}}}}}),
        ("/sink/either", "get", {"responses": {"200": jresp({"oneOf": [ref("Pet"), {"type": "string"}]})}}),
        ("/sink/map", "get", {"parameters": [{"name": "X-Opt", "in": "header", "schema": {"type": "string"}}], "responses": {"200": jresp({"type": "object", "additionalProperties": {"type": "integer"}}), "404": {"description": "nf"}, "409": {"description": "c"}}}),
        ("/sink/when", "get", {"parameters": [{"name": "since", "in": "query", "schema": {"type": "string", "format": "date-time"}}, {"name": "id", "in": "query", "schema": {"type": "string", "format": "uuid"}}], "responses": {"204": {"description": "none"}, "500": {"description": "e"}}}),
    ]
    for i, (path, method, body) in enumerate(kinds[:n]):
        op(d, path, method, {"operationId": f"sink_{i}", "tags": ["sink"], **body})


def f_sink3(d): _sink(d, 3)
def f_sink4(d): _sink(d, 4)
def f_sink5(d): _sink(d, 5)
def f_sink6(d): _sink(d, 6)
def f_sink7(d): _sink(d, 7)


def f_undeclared_prefix_vars(d):
    """Undeclared path-template variables whose names are PREFIX-related, the longer one first (`{id_type}` before `{id}`)."""
    op(d, "/lookup/{id_type}/{id}", "get", {"operationId": "lookupById", "tags": ["lookup"], "responses": {"200": jresp(ref("Pet"))}})
    op(d, "/shelves/{shelf_id}/{shelf}/{s}", "get", {"operationId": "shelfItem", "tags": ["lookup"], "parameters": [{"name": "verbose", "in": "query", "schema": {"type": "boolean"}}], "responses": {"200": jresp(ref("Pet"))}})


def f_shared_param_inline(d):
    """A component parameter with an INLINE (promoted) schema referenced from operations on different paths, plus
    path-level parameters declared AFTER the methods of their path item."""
    d["components"].setdefault("parameters", {})["Include"] = {"name": "include", "in": "query", "schema": {"type": "array", "items": {"type": "string", "enum": ["owner", "tags"]}}}
    d["components"]["parameters"]["Shape"] = {"name": "shape", "in": "query", "schema": obj({"w": {"type": "integer"}})}
    for res in ("users", "orders"):
        op(d, f"/{res}", "get", {"operationId": f"list_{res}", "tags": [res], "parameters": [{"$ref": "#/components/parameters/Include"}, {"$ref": "#/components/parameters/Shape"}], "responses": {"200": jresp({"type": "array", "items": ref("Pet")})}})
    item = {
        "get": {"operationId": "getGadget", "tags": ["gadgets"], "responses": {"200": jresp(ref("Pet"))}},
        "delete": {"operationId": "dropGadget", "tags": ["gadgets"], "responses": {"204": {"description": "gone"}}},
        "put": {"operationId": "putGadget", "tags": ["gadgets"], "requestBody": {"required": False, "content": {"application/json": {"schema": ref("Pet")}}}, "responses": {"200": jresp(ref("Pet"))}},
        "parameters": [{"name": "gadgetId", "in": "path", "required": True, "schema": {"type": "integer"}}, {"name": "X-Trace", "in": "header", "required": False, "schema": {"type": "string"}}],
    }
    d["paths"]["/gadgets/{gadgetId}"] = item


def f_promoted_collision(d):
    """Declared schemas whose names equal the names the parser derives for inline property schemas of a later schema
    (`Keeper` + `status` -> `KeeperStatus`): exercises the name-conflict fallbacks of _parse_properties."""
    S(d)["KeeperStatus"] = obj({"code": {"type": "integer"}})
    S(d)["KeeperMode"] = {"type": "string", "enum": ["a", "b"]}
    S(d)["KeeperTags"] = obj({"t": {"type": "string"}})
    S(d)["KeeperAddress"] = obj({"zip": {"type": "string"}})
    S(d)["Keeper"] = obj(
        {
            "status": {"type": "array", "items": obj({"since": {"type": "string"}, "level": {"type": "integer"}})},
            "mode": {"type": "string"},
            "tags": {"type": "array", "items": {"type": "string"}},
            "address": obj({"street": {"type": "string"}}),
            "history": {"type": "array", "items": {"type": "array", "items": obj({"at": {"type": "string"}})}},
        }
    )
    use(d, "keeper", "Keeper")


def f_zz_no_operations(d):
    """A document without any operation (valid OpenAPI: `paths: {}`); sorts last, so it also empties other features' paths."""
    d["paths"] = {}


FEATURES: dict[str, Callable[[dict], None]] = {k[2:]: v for k, v in list(globals().items()) if k.startswith("f_") and callable(v)}


def build(features: list[str]) -> dict:
    d = copy.deepcopy(base())
    for f in features:
        FEATURES[f](d)
    return d
