----------------------------- MODULE Gen_Stream -----------------------------
(***************************************************************************)
(* Scenario generator for C18: one SCEN line per stream of the family with *)
(* every chunking the design check explored for it (StreamCore!CutSets,    *)
(* same bounds), the kind of every cut position (StreamCore!CutKind) and   *)
(* the size of the whole-stream meaning, all computed by TLC.              *)
(***************************************************************************)
EXTENDS StreamFamily, Json, TLC

CONSTANTS MaxFullLen, MaxCuts, AltFullLen, AltMaxCuts, CoverDepth
VARIABLES s, done

Chunkings(st) == {SortedSeq(c) : c \in CutsFor(st, MaxFullLen, MaxCuts, CoverDepth)}
\* chunkings replayed (and model checked) under a declared non-UTF-8 charset
AltChunkings(st) == {SortedSeq(c) : c \in CutsFor(st, AltFullLen, AltMaxCuts, AltMaxCuts)}

Init == s \in Family /\ done = FALSE
Emit ==
  /\ ~done
  /\ done' = TRUE
  /\ UNCHANGED s
  /\ PrintT("SCEN " \o ToJson([mode |-> s.mode,
                               bytes |-> s.bytes,
                               kinds |-> CutKinds(s.mode, s.bytes),
                               rule |-> s.rule,
                               classes |-> CutClasses(s.mode, s.bytes),
                               chunkings |-> Chunkings(s),
                               alt |-> AltChunkings(s),
                               nitems |-> Len(Expected(s.mode, s.bytes)),
                               lastopen |-> LastUnterminated(s.mode, s.bytes)]))
Spec == Init /\ [][Emit]_<<s, done>>
=============================================================================
