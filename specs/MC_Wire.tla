------------------------------ MODULE MC_Wire ------------------------------
(***************************************************************************)
(* Design checks of Wire.tla with real invariants over the "mini" slice of *)
(* the family (Gen_Wire!FamMini):                                          *)
(*   Variant = "fixed":  RequestOK, NeverDead, ... - the reference is met  *)
(*                       by a design of the same shape;                    *)
(*   Variant = "as_is":  the statements the code path does satisfy, with   *)
(*                       -coverage (every stage must fire).                *)
(***************************************************************************)
EXTENDS Gen_Wire
MCOps == FamMini
=============================================================================
