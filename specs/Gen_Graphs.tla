---------------------------- MODULE Gen_Graphs ----------------------------
(* Scenario generator: every graph document over Names with <= MaxEdges edges of the given kinds,
   in every declaration order.  One JSON line per document (tag SCEN). *)
EXTENDS Docs, Json
CONSTANTS Names, Kinds, MaxEdges, ReqVals, Orders   \* Orders: "all" or "one"
VARIABLES doc, done

AllOrders == IF Orders = "all" THEN {s \in [1..Cardinality(Names) -> Names] : Range(s) = Names}
             ELSE {SetToSortSeq(Names, LAMBDA a, b : TRUE)}
CandidateEdges == {e \in EdgesOver(Names, Kinds) : e.req \in ReqVals}
Docs0 == {[order |-> o, edges |-> es] : o \in AllOrders, es \in SeqsUpTo(CandidateEdges, MaxEdges)}

\* canonical: edges sorted by owner position is not required -- property order is part of the scenario
Init == doc \in {d \in Docs0 : WellFormed(d)} /\ done = FALSE
Emit == /\ ~done
        /\ done' = TRUE
        /\ UNCHANGED doc
        /\ PrintT("SCEN " \o ToJson([order |-> doc.order, edges |-> doc.edges,
                                     inhcycle |-> AnyInheritanceCycle(doc),
                                     expected |-> [n \in Range(doc.order) |-> ExpectedFields(doc, n)]]))
Spec == Init /\ [][Emit]_<<doc, done>>
=============================================================================
