------------------------------- MODULE Imports -------------------------------
(***************************************************************************)
(* X03 design model: the import bookkeeping of one emitted module as a     *)
(* state machine.                                                          *)
(*   cx     the context: a package tree (data, ImportsCore!MkTree), the    *)
(*          module being rendered, which API drives the collector          *)
(*   pool   the calls this context can make (ImportsCore!Pool, constant)    *)
(*   calls  the add-calls made so far (ghost: what was ASKED for)          *)
(*   st     the collector: absolute / relative / plain / conditional       *)
(*   out    the rendered statements after Render                           *)
(* One action per public method of RenderContext / ImportCollector, then   *)
(* Render.  The named invariants judge the rendered block with PYTHON's    *)
(* import semantics (ImportsCore!Resolve) against what was asked for       *)
(* (ImportsCore!Intent) - ImportsCore!Judge, the operator the monitor uses *)
(* on the statements the real code rendered.                               *)
(* AsIs = FALSE : the collector as it should be - every invariant holds.   *)
(* AsIs = TRUE  : the collector as the code has it - it fails exactly in   *)
(*                the region KnownRegion (the listed findings).            *)
(***************************************************************************)
EXTENDS ImportsCore
CONSTANTS OutPkgs,   \* output packages (sequences of identifiers)
          Mats,      \* SUBSET BOOLEAN: is the tree on disk while the calls are made (only the as-is collector cares)
          MaxCalls, AsIs
VARIABLES cx, pool, calls, st, phase, render, out, fails
vars == <<cx, pool, calls, st, phase, render, out, fails>>

Contexts == UNION {ContextsOf(o, Mats) : o \in OutPkgs}

Init == cx \in Contexts /\ pool = Pool(cx) /\ calls = {} /\ st = Empty /\ phase = "add" /\ render = "" /\ out = {} /\ fails = {}

Do(c) == /\ phase = "add" /\ c \notin calls /\ Cardinality(calls) < MaxCalls
         /\ calls' = calls \cup {c} /\ st' = Apply(cx, st, c, AsIs)
         /\ UNCHANGED <<cx, pool, phase, render, out, fails>>
Method(op) == \E c \in pool : c.op = op /\ Do(c)

CtxAddImport      == Method("ctx_import")      \* RenderContext.add_import(logical_module, name | None)
CtxAddPlainImport == Method("ctx_plain")       \* RenderContext.add_plain_import
CtxTypingForType  == Method("ctx_type")        \* RenderContext.add_typing_imports_for_type
CtxAddConditional == Method("ctx_cond")        \* RenderContext.add_conditional_import
CtxCoreImportPath == Method("ctx_core_path")   \* RenderContext.get_core_import_path + the import of a name from it
ColAddImport      == Method("col_import")      \* ImportCollector.add_import
ColAddRelative    == Method("col_relative")    \* ImportCollector.add_relative_import
ColAddTyping      == Method("col_typing")      \* ImportCollector.add_typing_import
ColAddPlain       == Method("col_plain")       \* ImportCollector.add_plain_import
\* Render also judges the block once (fails): the invariants below read it
RenderBlock == \E r \in Renders(cx) : /\ phase = "add" /\ phase' = "done" /\ render' = r
                                      /\ out' = Render(cx, st, r, AsIs)
                                      /\ fails' = Judge(cx, Reqs(cx, calls), out', r)
                                      /\ UNCHANGED <<cx, pool, calls, st>>

Next == CtxAddImport \/ CtxAddPlainImport \/ CtxTypingForType \/ CtxAddConditional \/ CtxCoreImportPath \/ ColAddImport \/ ColAddRelative
        \/ ColAddTyping \/ ColAddPlain \/ RenderBlock
Spec == Init /\ [][Next]_vars

Failures == fails
Holds(cl) == \A f \in Failures : f.clause # cl

\* ---- the statements (X03.<clause>)
Resolves       == Holds("resolves")         \* every asked (module, name) is provided by a statement that RESOLVES to that module
CoreForm       == Holds("core_form")        \* ... in particular the core package, wherever it lives (embedded / sibling / top-level)
NoLoss         == Holds("no_loss")          \* nothing asked for is dropped (also when one name is asked from two modules: two statements)
TypingComplete == Holds("typing_complete")  \* every typing construct / model / datetime module a type string mentions is provided
NoSpurious     == Holds("no_spurious")      \* no statement on a package module (or on a module that does not exist) that nobody asked for
WithinTop      == Holds("within_top")       \* no relative import climbs above the top-level package
NoSelfImport   == Holds("no_self")          \* the module never imports itself
ExactlyOnce    == Holds("once")             \* a (module, name) is provided by one statement only, whatever forms it was asked in
Grouped        == Holds("grouped")          \* promised order of the kinds of statement; __future__ first

\* the collector is a function of the SET of calls: the order of the calls never matters (determinism of the block)
OrderIndependent == st = ApplyAll(cx, calls, AsIs)

\* the relative-import arithmetic: for every module m of the output package seen from the directory of the current
\* module, dots + tail resolve (Python) back to m and never need more dots than there are packages
RelativeArithmetic ==
  calls = {} =>
  LET dir == PkgOf(cx.cur, cx.curpkg) IN
  \A m \in {x \in cx.tree.mods : Pfx(cx.root, x.path)} :
     LET r == IF m.pkg THEN RelDir(dir, m.path) ELSE RelFile(dir, m.path) IN
     /\ r.level <= Len(dir)
     /\ Resolve(dir, r.level, r.tail) = [ok |-> TRUE, mod |-> m.path]

\* ---- the as-is collector fails exactly here (mirrors findings/X03.jsonl)
KnownRegion(f) ==
  \/ f.locus.delta = "root_prepended"
  \* (6686a9c repaired the completion of complete paths; only the output package itself is still completed again)
  \/ (f.locus.delta = "head_prepended" /\ f.clause = "resolves" /\ f.locus.target = "root")
  \/ (f.locus.delta = "head_prepended" /\ f.clause = "no_spurious" /\ f.locus.cur = "package" /\ f.locus.name = "Root")
  \/ f.clause = "no_loss" /\ f.locus.form = "plain" /\ f.locus.target \in {"internal", "root"}
  \/ f.clause = "grouped" /\ f.locus.got = "future_not_first"
  \/ f.clause = "typing_complete" /\ f.locus.name \in {"IO", "datetime"}
  \/ f.locus.via = "ctx_core_path" /\ f.locus.target = "core:top" /\ f.locus.got = "beyond_top" /\ f.clause \in {"core_form", "within_top"}
  \/ cx.api = "collector" /\ f.clause \in {"no_self", "once"}
  \/ cx.api = "collector" /\ render = "get_import_statements" /\ f.locus.cur = "package" /\ f.locus.form = "relative" /\ f.clause \in {"resolves", "no_spurious"}
AsIsOnlyKnown == \A f \in Failures : KnownRegion(f)
AsIsClean == Failures = {}
=============================================================================
