--------------------------- MODULE MC_StreamPair ---------------------------
(* Design check of StreamPair.tla over the pair family of StreamFamily.tla; the same run prints every schedule.
   cfg:  CONSTANTS PairScenarios <- MCPairs  Tier = 1  PairMaxCuts = 1  AllowAbort = TRUE *)
EXTENDS StreamPair, StreamFamily

MCPairs == PairFamily
=============================================================================
