----------------------------- MODULE Gen_Reply -----------------------------
(* Scenario generator of C05: every well-formed scenario of Reply!Scenarios(MaxDecl) - the operator that spans the design
   check - with every body of Reply!Bodies(cell, Level) the fake server will send, the role the DOCUMENT gives the served
   response and what the signature of the as-is model admits.  One SCEN line per scenario (= one operation). *)
EXTENDS Reply, Json
CONSTANTS MaxDecl, Level
VARIABLES sc, done

Init == sc \in {s \in Scenarios(MaxDecl) : WellFormedScenario(s)} /\ done = FALSE
Emit ==
  /\ ~done /\ done' = TRUE /\ UNCHANGED sc
  /\ LET d == Decl(sc)
         ds == DocSeq(sc) IN
     PrintT("SCEN " \o ToJson([sib |-> sc.sib, ord |-> sc.ord, order |-> ds, share |-> sc.share,
                               co |-> IF HasCompanion(sc.share)
                                      THEN [served |-> CoStatus(sc), status |-> ServedCode(CoStatus(sc)), share |-> MirrorShare(sc.share),
                                            role |-> RoleOf(Decl(CoScenario(sc)), DocSeq(CoScenario(sc)), CoStatus(sc)),
                                            model_ann |-> SetToSeq(Ann("as_is", Decl(CoScenario(sc)), DocSeq(CoScenario(sc))))]
                                      ELSE [served |-> "", status |-> 0, share |-> "", role |-> "", model_ann |-> <<>>], served |-> sc.served, others |-> SetToSeq(sc.others), c |-> sc.cell.c, sh |-> sc.cell.sh,
                               role |-> RoleOf(d, ds, sc.served), status |-> ServedCode(sc.served),
                               decl |-> [st \in DOMAIN d |-> d[st]],
                               model_ann |-> SetToSeq(Ann("as_is", d, ds)),
                               bodies |-> SetToSeq(Bodies(sc.cell.c, sc.cell.sh, Level))]))
Spec == Init /\ [][Emit]_<<sc, done>>
=============================================================================
