------------------------------- MODULE Naming -------------------------------
(***************************************************************************)
(* C20 - name derivation is total, valid and collision-safe.               *)
(*                                                                         *)
(* Names and identifiers are sequences of Unicode code points.             *)
(*   Ident(s)    [A-Za-z_][A-Za-z0-9_]* for ASCII; a non-ASCII code point  *)
(*               is classified by the harness-supplied sets XidStart /     *)
(*               XidContinue (only the code points that occur are listed). *)
(*   Keyword(s)  s is a hard keyword of the interpreter (harness-supplied  *)
(*               set of code-point sequences, from keyword.kwlist).        *)
(* The allocator: ns maps a namespace id (the fields of one dataclass, the *)
(* parameters of one operation, the model classes of one package, the      *)
(* members of one enum, the methods of one client class ...) to the        *)
(* partial function  spec name -> identifier  allocated so far.            *)
(*   Derive(nsid, specName, ident)  is the only legal step.                *)
(* Invariants: ValidIdent, Injective, Total (TotalFor), Stable.            *)
(***************************************************************************)
EXTENDS Naturals, Sequences, FiniteSets, TLC

CONSTANTS XidStart,      \* non-ASCII code points allowed at the start of an identifier
          XidContinue,   \* non-ASCII code points allowed after the start
          Keywords,      \* set of code-point sequences
          PyInvalid,     \* sequences that pass the per-code-point test but that the interpreter itself refuses
                         \* (str.isidentifier() / compile of `<name> = 1`), for the identifiers that occur
          NfkcPairs      \* {<<raw, normalised>>}: the interpreter compares identifiers after NFKC normalisation;
                         \* listed for the identifiers that occur and differ from their normal form

VARIABLE ns

Underscore == 95
IsUpper(c) == c \in 65..90
IsLower(c) == c \in 97..122
IsDigit(c) == c \in 48..57
IsAscii(c) == c < 128
IsAlnum(c) == IsUpper(c) \/ IsLower(c) \/ IsDigit(c)

IdStart(c) == IF IsAscii(c) THEN IsUpper(c) \/ IsLower(c) \/ c = Underscore
              ELSE c \in XidStart
IdCont(c)  == IF IsAscii(c) THEN IsAlnum(c) \/ c = Underscore
              ELSE c \in XidStart \/ c \in XidContinue

Ident(s)     == /\ Len(s) > 0
                /\ IdStart(s[1])
                /\ \A i \in 2..Len(s) : IdCont(s[i])
                /\ s \notin PyInvalid
Keyword(s)   == s \in Keywords
ValidName(s) == Ident(s) /\ ~Keyword(s)

\* the clause of C20 an identifier breaks ("ok" when none)
NameClause(s) == IF Len(s) = 0 THEN "C20.empty"
                 ELSE IF ~Ident(s) THEN "C20.invalid"
                 ELSE IF Keyword(s) THEN "C20.keyword"
                 ELSE "ok"

\* why an identifier is not an identifier (locus of C20.invalid; "" when it is one)
InvalidWhy(s) ==
  CASE Len(s) = 0 -> ""
    [] Len(s) > 0 /\ IsAscii(s[1]) /\ ~IdStart(s[1]) -> "ascii_start"
    [] Len(s) > 0 /\ (\E i \in 1..Len(s) : IsAscii(s[i]) /\ ~IdCont(s[i])) -> "ascii_char"
    [] Len(s) > 0 /\ (\E i \in 1..Len(s) : ~IsAscii(s[i]) /\ ~IdCont(s[i])) -> "non_ascii_not_xid"
    [] Len(s) > 0 /\ ~IsAscii(s[1]) /\ ~IdStart(s[1]) -> "xid_continue_at_start"
    [] Len(s) > 0 /\ s \in PyInvalid -> "interpreter_rejects"
    [] OTHER -> ""

\* the identifier as the interpreter compares it
Norm(id) == IF \E p \in NfkcPairs : p[1] = id THEN (CHOOSE p \in NfkcPairs : p[1] = id)[2] ELSE id

\* ---- classes of INPUT strings (plain predicates on the spec text; the locus of a failing verdict)
CharsOf(s) == {s[i] : i \in 1..Len(s)}
InputClass(s) ==
  LET cs       == CharsOf(s)
      hasAlnum == \E c \in cs : IsAlnum(c)
      hasNonA  == \E c \in cs : ~IsAscii(c)
      hasUnd   == Underscore \in cs
      hasPunct == \E c \in cs : IsAscii(c) /\ ~IsAlnum(c) /\ c # Underscore
  IN CASE Len(s) = 0                       -> "empty"
       [] Len(s) > 0 /\ s \in Keywords     -> "keyword"
       [] hasAlnum /\ IsDigit(s[1])        -> "digit_leading"
       [] hasAlnum /\ hasNonA              -> "alnum_with_non_ascii"
       [] hasAlnum                         -> "alnum"
       [] hasNonA /\ ~hasUnd /\ ~hasPunct  -> "non_ascii_only"
       [] hasNonA                          -> "non_ascii_and_symbols"
       [] ~hasPunct                        -> "underscores_only"
       [] ~hasUnd                          -> "punct_only"
       [] OTHER                            -> "underscore_and_punct"

\* ---- the allocator
RangeOf(f)     == {f[x] : x \in DOMAIN f}
InjectiveMap(f) == \A a, b \in DOMAIN f : a # b => f[a] # f[b]
NsOf(n)        == IF n \in DOMAIN ns THEN ns[n] ELSE <<>>

\* the namespace records identifiers in the form the interpreter compares (Norm)
Put(n, s, id) ==
  ns' = [x \in (DOMAIN ns) \cup {n} |-> IF x = n THEN (s :> Norm(id)) @@ NsOf(n) ELSE ns[x]]

CanDerive(n, s, id) ==
  /\ ValidName(id)                      \* C20.empty / C20.invalid / C20.keyword (on the text as written)
  /\ s \notin DOMAIN NsOf(n)            \* a name is derived once (Stable)
  /\ Norm(id) \notin RangeOf(NsOf(n))   \* C20.collision (after the interpreter's normalisation)

Derive(n, s, id) == CanDerive(n, s, id) /\ Put(n, s, id)

\* what a total monitor applies when the observed step is not a legal Derive (after naming the clause)
Force(n, s, id)  == Put(n, s, id)

NamingInit == ns = <<>>

\* ---- invariants
ValidIdent == \A n \in DOMAIN ns : \A s \in DOMAIN ns[n] : ValidName(ns[n][s])
Injective  == \A n \in DOMAIN ns : InjectiveMap(ns[n])
\* Total: every requested name got an identifier (none dropped, none merged into another name's identifier)
TotalFor(requested) ==
  \A n \in DOMAIN requested : \A s \in requested[n] : n \in DOMAIN ns /\ s \in DOMAIN ns[n]
StableStep == \A n \in DOMAIN ns :
                 /\ n \in DOMAIN ns'
                 /\ \A s \in DOMAIN ns[n] : s \in DOMAIN ns'[n] /\ ns'[n][s] = ns[n][s]
Stable == [][StableStep]_ns

\* ---- a total, valid-by-construction sanitiser and two de-collision policies (the DESIGN checked by MC_Naming)
Lower(c) == IF IsUpper(c) THEN c + 32 ELSE c
MapChars(s) == [i \in 1..Len(s) |-> IF IsAlnum(s[i]) \/ s[i] = Underscore THEN Lower(s[i]) ELSE Underscore]
Sanitize(s) ==
  LET m == MapChars(s)
      p == IF Len(m) = 0 THEN <<Underscore>>
           ELSE IF IsDigit(m[1]) THEN <<Underscore>> \o m ELSE m
  IN IF Keyword(p) THEN p \o <<Underscore>> ELSE p

Suffixed(b, k) == IF k = 1 THEN b ELSE b \o <<Underscore, 48 + k>>     \* k <= 9 in every checked instance

\* "loop": try b, b_2, b_3 ... until the identifier is free in the namespace (dataclass fields, enum members, classes)
AllocLoop(n, s) ==
  LET b    == Sanitize(s)
      used == RangeOf(NsOf(n))
      k    == CHOOSE j \in 1..(Cardinality(used) + 1) :
                 /\ Suffixed(b, j) \notin used
                 /\ \A i \in 1..(j - 1) : Suffixed(b, i) \in used
  IN Suffixed(b, k)
\* "counter": count how often the BASE was seen and suffix with the count, never looking at what was handed out
\* (the shape of EndpointsEmitter._deduplicate_operation_ids_globally)
AllocCounter(n, s) ==
  LET b == Sanitize(s)
  IN Suffixed(b, 1 + Cardinality({t \in DOMAIN NsOf(n) : Sanitize(t) = b}))
=============================================================================
