----------------------------- MODULE TypeResolve -----------------------------
(***************************************************************************)
(* X04 - schema -> Python type resolution.                                 *)
(*                                                                         *)
(* PART 1  (independent of the code)                                       *)
(*   shapes     OpenAPI schema shapes as data                              *)
(*   Admits     the JSON values a conforming document may carry at a shape *)
(*   Denotes    the run-time values a Python annotation (a parsed tree +   *)
(*              the definitions of the class names it mentions) admits     *)
(*   Leq        "every admitted JSON value is admitted by the annotation"  *)
(*   the named statements: Total, NoDoubleOptional, ImportsClosed, Sound,  *)
(*   Tight, and Ideal - a reference resolver that satisfies all of them    *)
(* PART 2  (implementation-shaped, "as-is")                                *)
(*   one operator per method of OpenAPISchemaResolver / UnifiedTypeService *)
(*   / OpenAPIResponseResolver, working on the IR node the real loader     *)
(*   produced; compared with the real answer by Trace_TypeResolve (DRIFT)  *)
(*   and with PART 1 by MC_TypeResolve.                                    *)
(***************************************************************************)
EXTENDS Naturals, Sequences, FiniteSets, TLC

(* ------------------------------------------------------------------ shapes *)
(* k    a                       f            of                             *)
(* prim string|integer|number|boolean  format  <<>>                         *)
(* enum base type               "v1,v2"      <<>>   inline enum            *)
(* any  ""                                          the schema {}          *)
(* object  property names "x" / "" (bare `type: object`)                   *)
(* array                                     <<item>>                       *)
(* map  "true" | "schema"                    <<>> | <<value>>               *)
(* ref  component name (Self = the schema holding the property)            *)
(* oneOf / anyOf / allOf                     <<members>>                    *)
(* nul  "no" | "nullable" (3.0 keyword) | "type31" (type: [T, null]) |     *)
(*      "anyOfNull" | "oneOfNull" (wrapped with {type: null}) |            *)
(*      "member" ({type: null} appended to the members of a union)         *)
Sh(k, a, f, nul, of) == [k |-> k, a |-> a, f |-> f, nul |-> nul, of |-> of]
P(a, f) == Sh("prim", a, f, "no", <<>>)
E(a, f) == Sh("enum", a, f, "no", <<>>)
AnyS == Sh("any", "", "", "no", <<>>)
Obj(sig) == Sh("object", sig, "", "no", <<>>)
Arr(s) == Sh("array", "", "", "no", <<s>>)
MapT == Sh("map", "true", "", "no", <<>>)
MapS(s) == Sh("map", "schema", "", "no", <<s>>)
Ref(n) == Sh("ref", n, "", "no", <<>>)
Comb(k, ms) == Sh(k, "", "", "no", ms)
Nul(s, n) == [s EXCEPT !.nul = n]

CompNames == {"Pet", "Color", "Name", "Stamp", "Tags", "Pets", "Bag", "Either", "Maybe"}
\* the named components every document declares (harness/x04.py COMPONENTS is the same table); h = property names of Self
Comp(n, h) ==
  CASE n = "Pet" -> Obj("id,name")
    [] n = "Color" -> E("string", "red,green")
    [] n = "Name" -> P("string", "")
    [] n = "Stamp" -> P("string", "date-time")
    [] n = "Tags" -> Arr(P("string", ""))
    [] n = "Pets" -> Arr(Ref("Pet"))
    [] n = "Bag" -> MapS(P("integer", ""))
    [] n = "Either" -> Comb("oneOf", <<Ref("Pet"), Ref("Color")>>)
    [] n = "Maybe" -> Nul(Obj("m"), "nullable")
    [] n = "Self" -> Obj(h)

\* `nullable: true` adds null only next to an explicit `type` (OpenAPI 3.0.3); the 3.1 spellings always do
TypedKinds == {"prim", "object", "array", "map"}
NullAdmitted(s) == s.nul \in {"type31", "anyOfNull", "oneOfNull", "member"} \/ (s.nul = "nullable" /\ s.k \in TypedKinds)

(* ------------------------------------------------------------- denotations *)
(* A denotation is a set of atoms <<tag, d1, d2>> plus, when it contains   *)
(* the list / dict atom, the denotation of the elements / values; `any`    *)
(* stands for every value.  JSON side tags: null bool int num str(format)  *)
(* enum(base, values) obj(property names) list dict.  Python side tags:    *)
(* None bool int float str bytes date datetime time UUID enum cls lit list *)
(* dict aiter.                                                             *)
Bot == [any |-> FALSE, atoms |-> {}, elem |-> <<>>, val |-> <<>>]
TopD == [any |-> TRUE, atoms |-> {}, elem |-> <<>>, val |-> <<>>]
Atom(t, d1, d2) == [Bot EXCEPT !.atoms = {<<t, d1, d2>>}]
ListOf(e) == [Bot EXCEPT !.atoms = {<<"list", "", "">>}, !.elem = <<e>>]
DictOf(v) == [Bot EXCEPT !.atoms = {<<"dict", "", "">>}, !.val = <<v>>]
NullD == Atom("null", "", "")
NoneD == Atom("None", "", "")

RECURSIVE Join(_, _)
Join(x, y) ==
  IF x.any \/ y.any THEN TopD
  ELSE [any |-> FALSE, atoms |-> x.atoms \cup y.atoms,
        elem |-> IF x.elem = <<>> THEN y.elem ELSE IF y.elem = <<>> THEN x.elem ELSE <<Join(x.elem[1], y.elem[1])>>,
        val |-> IF x.val = <<>> THEN y.val ELSE IF y.val = <<>> THEN x.val ELSE <<Join(x.val[1], y.val[1])>>]

RECURSIVE JoinSeq(_)
JoinSeq(ds) == IF ds = <<>> THEN Bot ELSE Join(Head(ds), JoinSeq(Tail(ds)))

PrimAdmits(a, f) ==
  CASE a = "string" -> Atom("str", f, "")
    [] a = "integer" -> Atom("int", "", "")
    [] a = "number" -> Join(Atom("int", "", ""), Atom("num", "", ""))
    [] a = "boolean" -> Atom("bool", "", "")

RECURSIVE SigOf(_, _)
SigOf(s, h) == IF s.k = "ref" THEN SigOf(Comp(s.a, h), h) ELSE s.a
RECURSIVE MergeSig(_, _)
MergeSig(ms, h) == IF Len(ms) = 1 THEN SigOf(ms[1], h) ELSE SigOf(ms[1], h) \o "," \o MergeSig(Tail(ms), h)

RECURSIVE Admits(_, _)
Admits(s, h) ==
  LET base ==
        CASE s.k = "prim" -> PrimAdmits(s.a, s.f)
          [] s.k = "enum" -> Atom("enum", s.a, s.f)
          [] s.k = "any" -> TopD
          [] s.k = "object" -> IF s.a = "" THEN DictOf(TopD) ELSE Atom("obj", s.a, "")
          [] s.k = "array" -> ListOf(Admits(s.of[1], h))
          [] s.k = "map" -> IF s.a = "true" THEN DictOf(TopD) ELSE DictOf(Admits(s.of[1], h))
          [] s.k = "ref" -> Admits(Comp(s.a, h), h)
          [] s.k \in {"oneOf", "anyOf"} -> JoinSeq([i \in 1..Len(s.of) |-> Admits(s.of[i], h)])
          [] s.k = "allOf" -> IF Len(s.of) = 1 THEN Admits(s.of[1], h) ELSE Atom("obj", MergeSig(s.of, h), "")
  IN IF NullAdmitted(s) THEN Join(base, NullD) ELSE base

\* what the position promises on top of the schema: an optional property / parameter / body may be absent = None
OptionalPos == {"prop_opt", "param_opt", "body_opt", "opt"}
Required(s, pos, h) == IF pos \in OptionalPos THEN Join(Admits(s, h), NullD) ELSE Admits(s, h)

(* -------------------------------------------------- annotation trees, Denotes *)
(* tree == [k, id, args]: name(id) | none | sub(id, args) = id[args] |      *)
(*   or(args) = a | b | ... | fwd(<<t>>) = a quoted forward reference |     *)
(*   lit(id) = an argument of Literal | bad(id) = anything else             *)
(* env entry == [name, def, base, sig, args]: how the emitted package       *)
(*   defines a class name: alias(<<target>>) | dataclass(sig = wire keys) | *)
(*   wrapper(<<value type>>) | enum(base, sig = values) | class             *)
T(k, id, args) == [k |-> k, id |-> id, args |-> args]
N(id) == T("name", id, <<>>)
NoneT == T("none", "", <<>>)
Sub(id, args) == T("sub", id, args)
Or(args) == T("or", "", args)
Fwd(t) == T("fwd", "", <<t>>)

PyAtomNames == {"str", "int", "float", "bool", "bytes", "date", "datetime", "time", "UUID"}
AnyNames == {"Any", "object"}
ListHeads == {"List", "list", "Sequence"}
DictHeads == {"Dict", "dict", "Mapping"}
BuiltinNames == {"str", "int", "float", "bool", "bytes", "dict", "list", "None", "object"}
Fuel == 6

Lookup(env, id) == {i \in 1..Len(env) : env[i].name = id}

RECURSIVE Denotes(_, _, _)
Denotes(t, env, fuel) ==
  IF fuel = 0 THEN Bot
  ELSE CASE t.k = "none" -> NoneD
    [] t.k = "fwd" -> Denotes(t.args[1], env, fuel)
    [] t.k = "or" -> JoinSeq([i \in 1..Len(t.args) |-> Denotes(t.args[i], env, fuel)])
    [] t.k = "name" ->
         IF t.id \in PyAtomNames THEN Atom(t.id, "", "")
         ELSE IF t.id \in AnyNames THEN TopD
         ELSE IF t.id = "None" THEN NoneD
         ELSE IF t.id \in ListHeads THEN ListOf(TopD)
         ELSE IF t.id \in DictHeads THEN DictOf(TopD)
         ELSE IF Lookup(env, t.id) = {} THEN Bot
         ELSE LET e == env[CHOOSE i \in Lookup(env, t.id) : TRUE] IN
              CASE e.def = "alias" -> Denotes(e.args[1], env, fuel - 1)
                [] e.def = "dataclass" -> Atom("cls", e.sig, "")
                [] e.def = "wrapper" -> DictOf(Denotes(e.args[1], env, fuel - 1))
                [] e.def = "enum" -> Atom("enum", e.base, e.sig)
                [] OTHER -> Bot
    [] t.k = "sub" ->
         IF t.id \in ListHeads /\ Len(t.args) = 1 THEN ListOf(Denotes(t.args[1], env, fuel))
         ELSE IF t.id \in DictHeads /\ Len(t.args) = 2 THEN DictOf(Denotes(t.args[2], env, fuel))
         ELSE IF t.id = "Optional" /\ Len(t.args) = 1 THEN Join(Denotes(t.args[1], env, fuel), NoneD)
         ELSE IF t.id = "Union" THEN JoinSeq([i \in 1..Len(t.args) |-> Denotes(t.args[i], env, fuel)])
         ELSE IF t.id = "Literal" THEN [Bot EXCEPT !.atoms = {<<"lit", t.args[i].id, "">> : i \in 1..Len(t.args)}]
         ELSE IF t.id = "AsyncIterator" THEN Atom("aiter", "", "")
         ELSE Bot
    [] OTHER -> Bot

(* ----------------------------------------------------------------- Leq / Why *)
\* does the Python atom y (of denotation b) admit the JSON atom x (of denotation a)?
RECURSIVE Leq(_, _)
AtomOK(x, y, a, b) ==
  CASE x[1] = "null" -> y[1] = "None"
    [] x[1] = "bool" -> y[1] = "bool"
    [] x[1] = "int" -> y[1] \in {"int", "float"}
    [] x[1] = "num" -> y[1] = "float"
    [] x[1] = "str" -> \/ y[1] = "str"
                       \/ (x[2] = "date" /\ y[1] = "date")
                       \/ (x[2] = "date-time" /\ y[1] = "datetime")
                       \/ (x[2] = "time" /\ y[1] = "time")
                       \/ (x[2] = "uuid" /\ y[1] = "UUID")
                       \/ (x[2] \in {"binary", "byte"} /\ y[1] = "bytes")
    [] x[1] = "enum" -> \/ (y[1] = "enum" /\ y[2] = x[2] /\ y[3] = x[3])
                        \/ (x[2] = "string" /\ y[1] = "str")
                        \/ (x[2] = "integer" /\ y[1] \in {"int", "float"})
                        \/ (x[2] = "boolean" /\ (y[1] = "bool" \/ (y[1] = "lit" /\ y[2] = x[3])))
    [] x[1] = "obj" -> \/ (y[1] = "cls" /\ y[2] = x[2])
                       \/ (y[1] = "dict" /\ b.val # <<>> /\ b.val[1].any)
    [] x[1] = "list" -> y[1] = "list" /\ (a.elem = <<>> \/ (b.elem # <<>> /\ Leq(a.elem[1], b.elem[1])))
    [] x[1] = "dict" -> y[1] = "dict" /\ (a.val = <<>> \/ (b.val # <<>> /\ Leq(a.val[1], b.val[1])))
    [] OTHER -> FALSE
Leq(a, b) == b.any \/ (~a.any /\ \A x \in a.atoms : \E y \in b.atoms : AtomOK(x, y, a, b))

\* which admitted value is not typeable: "ok" | "any" | tag of the JSON atom, prefixed by elem. / val. when it is nested
RECURSIVE Why(_, _)
Why(a, b) ==
  IF b.any THEN "ok"
  ELSE IF a.any THEN "any"
  ELSE LET bad == {x \in a.atoms : ~\E y \in b.atoms : AtomOK(x, y, a, b)} IN
       IF bad = {} THEN "ok"
       ELSE IF <<"null", "", "">> \in bad THEN "null"
       ELSE LET x == CHOOSE z \in bad : TRUE IN
            IF x[1] = "list" /\ (\E y \in b.atoms : y[1] = "list") /\ a.elem # <<>> /\ b.elem # <<>> THEN "elem." \o Why(a.elem[1], b.elem[1])
            ELSE IF x[1] = "dict" /\ (\E y \in b.atoms : y[1] = "dict") /\ a.val # <<>> /\ b.val # <<>> THEN "val." \o Why(a.val[1], b.val[1])
            ELSE x[1]

(* ---------------------------------------------------------------- statements *)
RECURSIVE NoBad(_)
NoBad(t) == t.k # "bad" /\ \A i \in 1..Len(t.args) : NoBad(t.args[i])

\* in how many ways does the expression say "or None" at its top level
RECURSIVE NoneCount(_)
RECURSIVE SumNone(_)
SumNone(ts) == IF ts = <<>> THEN 0 ELSE NoneCount(Head(ts)) + SumNone(Tail(ts))
NoneCount(t) ==
  CASE t.k = "none" -> 1
    [] t.k = "name" -> IF t.id = "None" THEN 1 ELSE 0
    [] t.k = "or" -> SumNone(t.args)
    [] t.k = "fwd" -> NoneCount(t.args[1])
    [] t.k = "sub" -> IF t.id = "Optional" THEN 1 + SumNone(t.args) ELSE IF t.id = "Union" THEN SumNone(t.args) ELSE 0
    [] OTHER -> 0
RECURSIVE NoDoubleOptional(_)
NoDoubleOptional(t) == NoneCount(t) <= 1 /\ \A i \in 1..Len(t.args) : NoDoubleOptional(t.args[i])

\* the names an annotation needs at run time: <<name, "code" | "fwd">>
RECURSIVE Uses(_, _)
Uses(t, w) ==
  (IF t.k \in {"name", "sub"} THEN {<<t.id, w>>} ELSE {})
    \cup UNION {Uses(t.args[i], IF t.k = "fwd" THEN "fwd" ELSE w) : i \in 1..Len(t.args)}

\* bound == set of names some registered import really binds; self == the class the current module defines
ImportsClosed(uses, bound, self) ==
  \A u \in uses : u[1] \in BuiltinNames \/ u[1] \in bound \/ (u[2] = "fwd" /\ u[1] = self /\ self # "")
Unbound(uses, bound, self) == {u[1] : u \in {v \in uses : ~(v[1] \in BuiltinNames \/ v[1] \in bound \/ (v[2] = "fwd" /\ v[1] = self /\ self # ""))}}

Sound(s, pos, h, t, env) == Leq(Required(s, pos, h), Denotes(t, env, Fuel))
SoundWhy(s, pos, h, t, env) == Why(Required(s, pos, h), Denotes(t, env, Fuel))
\* weaker, reported as a note: a specific schema is not annotated with Any
Tight(s, h, t, env) == Admits(s, h).any \/ ~Denotes(t, env, Fuel).any

(* -------------------------------------------------- Ideal: a reference resolver *)
(* Reads the annotation off the denotation: the statements are satisfiable  *)
(* for every shape of the family, and Admits / Denotes agree on it.         *)
IdealEnv(h) == <<[name |-> "Pet", def |-> "dataclass", base |-> "", sig |-> "id,name", args |-> <<>>],
                 [name |-> "Color", def |-> "enum", base |-> "string", sig |-> "red,green", args |-> <<>>],
                 [name |-> "Maybe", def |-> "dataclass", base |-> "", sig |-> "m", args |-> <<>>],
                 [name |-> "Holder", def |-> "dataclass", base |-> "", sig |-> h, args |-> <<>>],
                 [name |-> "InlineX", def |-> "dataclass", base |-> "", sig |-> "x", args |-> <<>>],
                 [name |-> "PetX", def |-> "dataclass", base |-> "", sig |-> "id,name,x", args |-> <<>>],
                 [name |-> "EnumAB", def |-> "enum", base |-> "string", sig |-> "a,b", args |-> <<>>],
                 [name |-> "Enum12", def |-> "enum", base |-> "integer", sig |-> "1,2", args |-> <<>>]>>
RECURSIVE IdealBase(_, _)
IdealOf(s, h) == LET b == IdealBase(s, h) IN IF NullAdmitted(s) /\ NoneCount(b) = 0 /\ s.k # "any" THEN Or(<<b, NoneT>>) ELSE b
IdealBase(s, h) ==
  CASE s.k = "prim" -> N(CASE s.a = "string" -> (CASE s.f = "date" -> "date" [] s.f = "date-time" -> "datetime" [] s.f = "time" -> "time"
                                                   [] s.f = "uuid" -> "UUID" [] s.f = "binary" -> "bytes" [] OTHER -> "str")
                           [] s.a = "integer" -> "int" [] s.a = "number" -> "float" [] s.a = "boolean" -> "bool")
    [] s.k = "enum" -> IF s.a = "boolean" THEN Sub("Literal", <<T("lit", s.f, <<>>)>>) ELSE N(IF s.a = "string" THEN "EnumAB" ELSE "Enum12")
    [] s.k = "any" -> N("Any")
    [] s.k = "object" -> IF s.a = "" THEN Sub("Dict", <<N("str"), N("Any")>>) ELSE N("InlineX")
    [] s.k = "array" -> Sub("List", <<IdealOf(s.of[1], h)>>)
    [] s.k = "map" -> Sub("Dict", <<N("str"), IF s.a = "true" THEN N("Any") ELSE IdealOf(s.of[1], h)>>)
    [] s.k = "ref" -> IF s.a = "Self" THEN Fwd(N("Holder"))
                      ELSE IF s.a \in {"Pet", "Color"} THEN N(s.a)
                      ELSE IF s.a = "Maybe" THEN Or(<<N("Maybe"), NoneT>>)
                      ELSE IdealOf(Comp(s.a, h), h)
    [] s.k \in {"oneOf", "anyOf"} -> Sub("Union", [i \in 1..Len(s.of) |-> IdealOf(s.of[i], h)])
    [] s.k = "allOf" -> IF Len(s.of) = 1 THEN IdealOf(s.of[1], h) ELSE N("PetX")
Ideal(s, pos, h) == LET b == IdealOf(s, h) IN IF pos \in OptionalPos /\ NoneCount(b) = 0 /\ s.k # "any" THEN Or(<<b, NoneT>>) ELSE b

(***************************************************************************)
(* PART 2 - the implementation-shaped resolver                             *)
(* IR node == [ty, fmt, name, gen, stem, nul, enum, enumbool, nprops,      *)
(*   items, hasitems, anyof, oneof, allof, hasany, hasone, hasall, addl,   *)
(*   regother, inreg, tyreg]  (harness/w_typeresolve.py ir_tree)           *)
(* result == [t |-> tree, opt, fwd, imps |-> set of <<module, name>>]      *)
(* cx == [dir |-> "models" | "endpoints", stem |-> stem of current file]   *)
(***************************************************************************)
RT(t, opt, fwd, imps) == [t |-> t, opt |-> opt, fwd |-> fwd, imps |-> imps]
PrimTypes == {"string", "integer", "number", "boolean"}

RECURSIVE JoinStr(_, _)
JoinStr(ss, sep) == IF ss = <<>> THEN "" ELSE IF Len(ss) = 1 THEN ss[1] ELSE ss[1] \o sep \o JoinStr(Tail(ss), sep)
RECURSIVE Render(_)
Render(t) ==
  CASE t.k = "name" -> t.id
    [] t.k = "none" -> "None"
    [] t.k = "lit" -> t.id
    [] t.k = "sub" -> t.id \o "[" \o JoinStr([i \in 1..Len(t.args) |-> Render(t.args[i])], ", ") \o "]"
    [] t.k = "or" -> JoinStr([i \in 1..Len(t.args) |-> Render(t.args[i])], " | ")
    [] t.k = "fwd" -> "\"" \o Render(t.args[1]) \o "\""
    [] OTHER -> "?"

\* a sub-result as it is spliced into List[...] / Union[...]: quoted when it is a forward reference
Spliced(r) == IF r.fwd /\ r.t.k # "fwd" THEN Fwd(r.t) ELSE r.t

\* list(dict.fromkeys(strings)): first occurrences, by rendered text
RECURSIVE Dedupe(_, _)
Dedupe(ts, seen) ==
  IF ts = <<>> THEN <<>>
  ELSE IF Render(Head(ts)) \in seen THEN Dedupe(Tail(ts), seen)
  ELSE <<Head(ts)>> \o Dedupe(Tail(ts), seen \cup {Render(Head(ts))})

ModelModule(cx, stem) == IF cx.dir = "models" THEN "." \o stem ELSE "..models." \o stem

ResolveAny(req) == RT(N("Any"), ~req, FALSE, {<<"typing", "Any">>})
ResolveNull(req) == RT(N("Any"), ~req, FALSE, {<<"typing", "Any">>})

\* _resolve_named_schema
ResolveNamed(s, req, cx) ==
  IF s.stem = "" THEN RT(N(s.gen), ~req, FALSE, {})
  ELSE IF cx.stem = s.stem THEN RT(N(s.gen), ~req, TRUE, {})
  ELSE RT(N(s.gen), ~req, FALSE, {<<ModelModule(cx, s.stem), s.gen>>})

\* _resolve_string
ResolveString(s, req) ==
  IF s.enum # <<>> THEN RT(N(IF s.gen # "" THEN s.gen ELSE "str"), ~req, FALSE, {})
  ELSE CASE s.fmt = "date" -> RT(N("date"), ~req, FALSE, {<<"datetime", "date">>})
         [] s.fmt = "date-time" -> RT(N("datetime"), ~req, FALSE, {<<"datetime", "datetime">>})
         [] s.fmt = "time" -> RT(N("time"), ~req, FALSE, {<<"datetime", "time">>})
         [] s.fmt = "uuid" -> RT(N("UUID"), ~req, FALSE, {<<"uuid", "UUID">>})
         [] s.fmt = "binary" -> RT(N("bytes"), ~req, FALSE, {})
         [] OTHER -> RT(N("str"), ~req, FALSE, {})

\* _resolve_boolean
ResolveBoolean(s, req) ==
  LET vals == SelectSeq(s.enumbool, LAMBDA v : v # "N") IN
  IF s.enum # <<>> /\ Len(vals) = 1
  THEN RT(Sub("Literal", <<T("lit", IF vals[1] = "T" THEN "True" ELSE "False", <<>>)>>), ~req, FALSE, {<<"typing", "Literal">>})
  ELSE RT(N("bool"), ~req, FALSE, {})

\* _resolve_object
ResolveObject(req) == RT(Sub("dict", <<N("str"), N("Any")>>), ~req, FALSE, {<<"typing", "Dict">>, <<"typing", "Any">>})

SubUnderlying(und, m) == und /\ m.name # "" /\ m.nprops = 0 /\ m.ty \in PrimTypes

RECURSIVE ResolveSchema(_, _, _, _, _)
\* _resolve_array
ResolveArray(s, req, und, cx, fuel) ==
  IF ~s.hasitems THEN RT(Sub("List", <<N("Any")>>), ~req, FALSE, {<<"typing", "List">>, <<"typing", "Any">>})
  ELSE IF s.items = <<>> THEN RT(Sub("List", <<N("?")>>), ~req, FALSE, {})     \* observation cut off (depth bound of the dump)
  ELSE LET item == ResolveSchema(s.items[1], TRUE, SubUnderlying(und, s.items[1]), cx, fuel - 1) IN
       RT(Sub("List", <<Spliced(item)>>), ~req, FALSE, item.imps \cup {<<"typing", "List">>})

\* _resolve_any_of / _resolve_one_of
ResolveUnion(ms, req, und, cx, fuel) ==
  IF ms = <<>> THEN ResolveAny(req)
  ELSE LET rs == [i \in 1..Len(ms) |-> ResolveSchema(ms[i], TRUE, SubUnderlying(und, ms[i]), cx, fuel - 1)]
           ts == [i \in 1..Len(ms) |-> Spliced(rs[i])]
           imps == UNION {rs[i].imps : i \in 1..Len(ms)} IN
       IF Len(ts) = 1 THEN RT(ts[1], ~req, FALSE, imps)
       ELSE RT(Sub("Union", Dedupe(ts, {})), ~req, FALSE, imps \cup {<<"typing", "Union">>})

\* _resolve_all_of: the first member that has a type
ResolveAllOf(ms, req, und, cx, fuel) ==
  LET typed == {i \in 1..Len(ms) : ms[i].ty # ""} IN
  IF typed = {} THEN ResolveAny(req)
  ELSE ResolveSchema(ms[CHOOSE i \in typed : \A j \in typed : i <= j], req, und, cx, fuel - 1)

\* resolve_schema
ResolveSchema(s, req, und, cx, fuel) ==
  IF fuel = 0 THEN RT(N("?"), ~req, FALSE, {})
  ELSE IF s.ty = "" /\ s.gen = "" /\ s.anyof = <<>> /\ s.oneof = <<>> /\ s.allof = <<>> /\ ~(s.name # "" /\ s.inreg) THEN ResolveNull(req)
  ELSE IF s.name # "" /\ s.gen # "" /\ ~(s.ty = "boolean" /\ s.enum # <<>>) /\ ~und THEN ResolveNamed(s, req, cx)
  ELSE IF s.hasany THEN ResolveUnion(s.anyof, req, und, cx, fuel)
  ELSE IF s.hasall THEN (IF s.allof = <<>> THEN ResolveAny(req) ELSE ResolveAllOf(s.allof, req, und, cx, fuel))
  ELSE IF s.hasone THEN ResolveUnion(s.oneof, req, und, cx, fuel)
  ELSE IF s.name # "" /\ s.regother # <<>> THEN ResolveSchema(s.regother[1], req, und, cx, fuel - 1)
  ELSE IF s.tyreg # <<>> /\ s.tyreg[1].name # "" THEN ResolveSchema(s.tyreg[1], req, und, cx, fuel - 1)
  ELSE CASE s.ty = "string" -> ResolveString(s, req)
         [] s.ty = "integer" -> RT(N("int"), ~req, FALSE, {})
         [] s.ty = "number" -> RT(N("float"), ~req, FALSE, {})
         [] s.ty = "boolean" -> ResolveBoolean(s, req)
         [] s.ty = "array" -> ResolveArray(s, req, und, cx, fuel)
         [] s.ty = "object" -> ResolveObject(req)
         [] s.ty = "null" -> ResolveNull(req)
         [] s.ty \in {"", "None"} -> ResolveNull(req)
         [] OTHER -> ResolveAny(req)

\* UnifiedTypeService._format_resolved_type
Format(r) ==
  LET q == IF r.fwd /\ r.t.k # "fwd" THEN Fwd(r.t) ELSE r.t IN
  IF ~r.opt THEN q
  ELSE IF q.k = "fwd" THEN Fwd(Or(<<q.args[1], NoneT>>))
  ELSE Or(<<q, NoneT>>)

\* UnifiedTypeService.resolve_schema_type
ResolveSchemaType(s, req, und, cx) ==
  LET r == ResolveSchema(s, req /\ ~s.nul, und, cx, Fuel) IN [t |-> Format(r), imps |-> r.imps]

\* entry points, by position
AsIs(s, pos, req, cx) ==
  CASE pos \in {"prop_req", "prop_opt", "top_use", "param_req", "param_opt", "resp", "req", "opt"} -> ResolveSchemaType(s, req, FALSE, cx)
    [] pos \in {"body_req", "body_opt"} ->                       \* get_request_body_type: a JSON body typed Any becomes a dict
         LET r == ResolveSchemaType(s, req, FALSE, cx) IN
         IF Render(r.t) = "Any" THEN [t |-> Sub("dict", <<N("str"), N("Any")>>), imps |-> r.imps \cup {<<"typing", "Dict">>}] ELSE r
    [] pos = "respsvc" ->                                        \* resolve_operation_response_type: no nullable handling
         LET r == ResolveSchema(s, TRUE, FALSE, cx, Fuel) IN [t |-> Format(r), imps |-> r.imps]
    [] pos \in {"alias", "alias_def"} -> ResolveSchemaType(s, TRUE, TRUE, cx)      \* AliasGenerator: resolve_underlying

(***************************************************************************)
(* PART 3 - the bounded family of shapes (Gen_TypeResolve enumerates it,   *)
(* MC_TypeResolve quantifies over it)                                      *)
(***************************************************************************)
StrFmts(tier) == IF tier = "quick" THEN {"", "date", "date-time", "uuid", "binary", "byte", "email"}
                 ELSE {"", "date", "date-time", "uuid", "binary", "byte", "email", "uri", "time", "hostname", "password"}
Leaves(tier) ==
  {P("string", f) : f \in StrFmts(tier)} \cup {P("integer", f) : f \in {"", "int32", "int64"}}
    \cup {P("number", f) : f \in {"", "float", "double"}} \cup {P("boolean", "")}
    \cup {E("string", "a,b"), E("integer", "1,2"), E("boolean", "True")}
    \cup {AnyS, Obj(""), Obj("x"), MapT}
    \cup {Ref(n) : n \in CompNames \cup {"Self"}}

\* the spellings of "or null" that apply to a shape
NulsFor(s) ==
  CASE s.k \in TypedKinds -> {"no", "nullable", "type31", "anyOfNull", "oneOfNull"}
    [] s.k \in {"enum", "ref"} -> {"no", "anyOfNull", "oneOfNull"}
    [] s.k \in {"oneOf", "anyOf"} -> {"no", "member"}
    [] s.k = "allOf" -> {"no", "nullable"}
    [] OTHER -> {"no"}
AllNuls(S) == UNION {{Nul(s, n) : n \in NulsFor(s)} : s \in S}
SomeNuls(S, keep) == UNION {{Nul(s, n) : n \in NulsFor(s) \cap keep} : s \in S}

ChildLeaves(tier) ==
  {P("string", ""), P("string", "date-time"), P("integer", ""), Ref("Pet"), Ref("Color"), Ref("Name"), AnyS, Obj("x"), Obj("")}
    \cup (IF tier = "quick" THEN {Ref("Self")} ELSE Leaves(tier))
Children(tier) == SomeNuls(ChildLeaves(tier), IF tier = "quick" THEN {"no", "nullable", "anyOfNull"} ELSE {"no", "nullable", "type31", "anyOfNull", "oneOfNull"})

\* union members: pairwise disjoint value sets (different groups), so that oneOf and anyOf both admit the union
Grp(s) == CASE s.k = "prim" -> s.a [] s.k = "ref" -> (IF s.a = "Color" THEN "string" ELSE "obj:" \o s.a) [] s.k = "object" -> "obj:" \o s.a [] OTHER -> s.k
UMembers(tier) == {P("string", ""), P("integer", ""), P("boolean", ""), Ref("Pet"), Obj("x"), Arr(P("string", "")), Ref("Color")}
                    \cup (IF tier = "quick" THEN {} ELSE {P("string", "date-time"), Arr(Ref("Pet")), Ref("Tags"), MapS(P("integer", ""))})
UPairs(tier) == {p \in UMembers(tier) \X UMembers(tier) : Grp(p[1]) # Grp(p[2])}

Depth1(tier) ==
  {Arr(c) : c \in Children(tier)} \cup {MapS(c) : c \in Children(tier)}
    \cup {Comb(k, p) : k \in {"oneOf", "anyOf"}, p \in UPairs(tier)}
    \cup {Comb("allOf", <<Ref("Pet")>>), Comb("allOf", <<Obj("x")>>), Comb("allOf", <<Ref("Pet"), Obj("x")>>)}
GrandChildren(tier) == IF tier = "quick" THEN {P("string", ""), Nul(P("string", ""), "nullable"), Ref("Pet")}
                       ELSE {P("string", ""), Nul(P("string", ""), "nullable"), Nul(P("integer", ""), "anyOfNull"), Ref("Pet"), Nul(Ref("Pet"), "oneOfNull"), Obj("x"), AnyS, Ref("Self")}
Depth2(tier) ==
  UNION {{Arr(Arr(c)), Arr(MapS(c)), MapS(Arr(c)), Arr(Comb("oneOf", <<c, P("integer", "")>>)), Comb("anyOf", <<Arr(c), P("boolean", "")>>)} : c \in GrandChildren(tier)}
    \cup (IF tier = "quick" THEN {} ELSE UNION {{MapS(MapS(c)), Arr(Nul(Arr(c), "nullable")), Arr(Arr(Arr(c)))} : c \in GrandChildren(tier)})
Shapes(tier) == AllNuls(Leaves(tier) \cup Depth1(tier)) \cup SomeNuls(Depth2(tier), {"no", "nullable"})

RECURSIVE HasSelf(_)
HasSelf(s) == (s.k = "ref" /\ s.a = "Self") \/ \E i \in 1..Len(s.of) : HasSelf(s.of[i])
Positions == <<"prop_req", "prop_opt", "param_req", "param_opt", "body_req", "body_opt", "resp", "respsvc", "top_use", "alias_def">>
\* where a shape can stand (the rest is outside the subject: streams / uploads, the loader's refusal of a bare alias)
Applicable(s, pos) ==
  /\ HasSelf(s) => pos \in {"prop_req", "prop_opt"}
  /\ (s.k = "prim" /\ s.f = "binary") => pos \notin {"resp", "respsvc", "body_req", "body_opt"}
  /\ (s.k = "ref" /\ s.nul = "no") => pos \notin {"top_use", "alias_def"}
=============================================================================
