----------------------------- MODULE StreamCore -----------------------------
(***************************************************************************)
(* Constant-level part of the stream-decoder specification (property C18). *)
(*                                                                         *)
(*   bytes (ints 0..255) --UTF-8--> code points --universal newlines-->    *)
(*   lines --> SSE blocks / NDJSON records --> items                       *)
(*                                                                         *)
(* Two INDEPENDENT definitions live side by side:                          *)
(*  (1) the incremental machine's step functions (DecodeChunk, FeedChar,   *)
(*      EndLine, FlushF): what a decoder does that sees one network chunk  *)
(*      at a time and carries a partial code point, a pending CR, a        *)
(*      partial line and the lines of the current event across chunks;     *)
(*  (2) the whole-stream meaning (DecodeAll, SplitLines, Blocks, Events,   *)
(*      Records): position-based, defined on the complete byte string.     *)
(* Stream.tla checks (1) against (2) for every chunking; Trace_Stream.tla  *)
(* judges what the real helpers yielded against (2).                       *)
(*                                                                         *)
(* Text is a sequence of code points (ints); an absent optional field is   *)
(* <<-1>>, an absent retry is -1 (JSON null cannot cross into TLC).        *)
(***************************************************************************)
EXTENDS Integers, Sequences, FiniteSets

LF == 10
CR == 13
SP == 32
TAB == 9
COLON == 58
REPL == 65533
Absent == <<-1>>

F_DATA  == <<100, 97, 116, 97>>
F_EVENT == <<101, 118, 101, 110, 116>>
F_ID    == <<105, 100>>
F_RETRY == <<114, 101, 116, 114, 121>>

Idx(s) == [i \in 1..Len(s) |-> i]
LastOf(s) == s[Len(s)]
FrontOf(s) == SubSeq(s, 1, Len(s) - 1)
\* TLC evaluates [i \in 1..n |-> e] lazily (e is re-evaluated at every application); concatenation forces a tuple
Mat(f) == <<>> \o f

RECURSIVE FlattenSeq(_)
FlattenSeq(ss) == IF ss = <<>> THEN <<>> ELSE ss[1] \o FlattenSeq(Tail(ss))

----------------------------------------------------------------------------
(* UTF-8 *)

IsCont(b) == b >= 128 /\ b <= 191
Need(b) == IF b < 128 THEN 1
           ELSE IF b >= 194 /\ b <= 223 THEN 2
           ELSE IF b >= 224 /\ b <= 239 THEN 3
           ELSE IF b >= 240 /\ b <= 244 THEN 4
           ELSE 1
CodePoint(s) ==
  IF Len(s) # Need(s[1]) \/ \E i \in 2..Len(s) : ~IsCont(s[i]) THEN REPL
  ELSE CASE Len(s) = 1 -> IF s[1] < 128 THEN s[1] ELSE REPL
         [] Len(s) = 2 -> (s[1] - 192) * 64 + (s[2] - 128)
         [] Len(s) = 3 -> (s[1] - 224) * 4096 + (s[2] - 128) * 64 + (s[3] - 128)
         [] Len(s) = 4 -> (s[1] - 240) * 262144 + (s[2] - 128) * 4096 + (s[3] - 128) * 64 + (s[4] - 128)

\* (1) incremental: decode carry \o chunk, hold back an incomplete trailing code point
RECURSIVE DecFrom(_, _, _)
DecFrom(b, i, acc) ==
  IF i > Len(b) THEN [chars |-> acc, carry |-> <<>>]
  ELSE LET n == Need(b[i]) IN
       IF i + n - 1 > Len(b) THEN [chars |-> acc, carry |-> SubSeq(b, i, Len(b))]
       ELSE LET a == Append(acc, CodePoint(SubSeq(b, i, i + n - 1))) IN
            IF Len(a) > 0 THEN DecFrom(b, i + n, a) ELSE a
DecodeChunk(carry, chunk) == DecFrom(carry \o chunk, 1, <<>>)

\* (2) whole stream: one code point per lead-byte position
DecodeAll(bytes) ==
  LET L == SelectSeq(Idx(bytes), LAMBDA i : ~IsCont(bytes[i])) IN
  Mat([k \in 1..Len(L) |-> CodePoint(SubSeq(bytes, L[k], IF k < Len(L) THEN L[k + 1] - 1 ELSE Len(bytes)))])

\* The decode step is parameterised by the charset the response declares (Content-Type):
\*   "utf8"   (no charset, charset=utf-8, or a charset the client does not know): the functions above;
\*   "latin1" (charset=ISO-8859-1 / latin-1): every byte is one code point, nothing is ever carried.
DecodeChunkX(charset, carry, chunk) ==
  IF charset = "latin1" THEN [chars |-> carry \o chunk, carry |-> <<>>] ELSE DecodeChunk(carry, chunk)
DecodeAllX(charset, bytes) == IF charset = "latin1" THEN bytes ELSE DecodeAll(bytes)

\* the encoder (used by the stream family to produce byte strings from text)
EncodeCp(c) ==
  IF c < 128 THEN <<c>>
  ELSE IF c < 2048 THEN <<192 + (c \div 64), 128 + (c % 64)>>
  ELSE IF c < 65536 THEN <<224 + (c \div 4096), 128 + ((c \div 64) % 64), 128 + (c % 64)>>
  ELSE <<240 + (c \div 262144), 128 + ((c \div 4096) % 64), 128 + ((c \div 64) % 64), 128 + (c % 64)>>
Encode(cs) == FlattenSeq([i \in 1..Len(cs) |-> EncodeCp(cs[i])])

----------------------------------------------------------------------------
(* field lines and events (shared by both definitions: an event is a function of its block) *)

IsWs(c) == c = SP \/ c = TAB
LStrip(s) == IF \A i \in 1..Len(s) : IsWs(s[i]) THEN <<>>
             ELSE SubSeq(s, CHOOSE i \in 1..Len(s) : ~IsWs(s[i]) /\ \A j \in 1..(i - 1) : IsWs(s[j]), Len(s))
RStrip(s) == IF \A i \in 1..Len(s) : IsWs(s[i]) THEN <<>>
             ELSE SubSeq(s, 1, CHOOSE i \in 1..Len(s) : ~IsWs(s[i]) /\ \A j \in (i + 1)..Len(s) : IsWs(s[j]))
Strip(s) == RStrip(LStrip(s))

FirstIdx(s, c) == IF \E i \in 1..Len(s) : s[i] = c
                  THEN CHOOSE i \in 1..Len(s) : s[i] = c /\ \A j \in 1..(i - 1) : s[j] # c
                  ELSE 0

NoField == [ok |-> FALSE, f |-> <<>>, v |-> <<>>]
\* a line starting with ':' is a comment; "name:value" is a field (leading blanks of the value dropped);
\* a line without ':' carries no field
FieldOf(line) ==
  IF line = <<>> \/ line[1] = COLON THEN NoField
  ELSE LET i == FirstIdx(line, COLON) IN
       IF i = 0 THEN NoField
       ELSE [ok |-> TRUE, f |-> SubSeq(line, 1, i - 1), v |-> LStrip(SubSeq(line, i + 1, Len(line)))]

FieldsOf(block) == SelectSeq([i \in 1..Len(block) |-> FieldOf(block[i])], LAMBDA r : r.ok)

RECURSIVE JoinLF(_)
JoinLF(ss) == IF ss = <<>> THEN <<>>
              ELSE IF Len(ss) = 1 THEN ss[1]
              ELSE ss[1] \o <<LF>> \o JoinLF(Tail(ss))

IsDigits(v) == v # <<>> /\ \A i \in 1..Len(v) : v[i] >= 48 /\ v[i] <= 57
RECURSIVE ToNat(_)
ToNat(v) == IF v = <<>> THEN 0 ELSE ToNat(FrontOf(v)) * 10 + (LastOf(v) - 48)

LastValue(fs, name) ==
  LET hits == SelectSeq(fs, LAMBDA r : r.f = name) IN
  IF hits = <<>> THEN Absent ELSE LastOf(hits).v

RetryValue(fs) ==
  LET hits == SelectSeq(fs, LAMBDA r : r.f = F_RETRY /\ IsDigits(r.v)) IN
  IF hits = <<>> THEN -1 ELSE ToNat(LastOf(hits).v)

\* one event per block: data lines joined by LF, comments ignored, last event:/id:/retry: wins
EventOf(block) ==
  LET fs == FieldsOf(block)
      ds == SelectSeq(fs, LAMBDA r : r.f = F_DATA) IN
  [data  |-> JoinLF([i \in 1..Len(ds) |-> ds[i].v]),
   event |-> LastValue(fs, F_EVENT),
   id    |-> LastValue(fs, F_ID),
   retry |-> RetryValue(fs)]

----------------------------------------------------------------------------
(* (1) incremental line / block machine.  s = [pcr, ln, bl, o]:             *)
(*     pcr  a CR has just ended a line (a directly following LF is part of *)
(*          the same terminator), ln the partial line, bl the lines of the *)
(*          current event, o the items delivered so far.                   *)
(*     mode "sse": blank line dispatches the block; "ndjson": every        *)
(*          non-blank stripped line is a record.                           *)

S0 == [pcr |-> FALSE, ln |-> <<>>, bl |-> <<>>, o |-> <<>>]

EndLine(mode, s) ==
  IF mode = "sse"
  THEN IF s.ln = <<>>
       THEN IF s.bl # <<>> THEN [s EXCEPT !.o = Append(@, EventOf(s.bl)), !.bl = <<>>] ELSE s
       ELSE [s EXCEPT !.bl = Append(@, s.ln), !.ln = <<>>]
  ELSE LET t == Strip(s.ln) IN
       [s EXCEPT !.o = IF t # <<>> THEN Append(@, t) ELSE @, !.ln = <<>>]

FeedChar(mode, s, c) ==
  IF c = LF THEN IF s.pcr THEN [s EXCEPT !.pcr = FALSE] ELSE EndLine(mode, s)
  ELSE IF c = CR THEN [EndLine(mode, s) EXCEPT !.pcr = TRUE]
  ELSE [s EXCEPT !.pcr = FALSE, !.ln = Append(@, c)]

RECURSIVE FeedAll(_, _, _)
\* (TLC passes arguments lazily: forcing the new state at every step keeps the chain of pending thunks - and the Java
\*  stack - short)
FeedAll(mode, s, cs) ==
  IF cs = <<>> THEN s
  ELSE LET s1 == FeedChar(mode, s, cs[1]) IN
       IF s1.pcr \in BOOLEAN THEN FeedAll(mode, s1, Tail(cs)) ELSE s1

\* end of stream: an undecodable tail becomes U+FFFD, an unterminated last line is a line,
\* an undispatched last block is still an event
FlushF(mode, s, carry) ==
  LET s1 == IF carry # <<>> THEN FeedChar(mode, s, REPL) ELSE s
      s2 == IF s1.ln # <<>> THEN EndLine(mode, s1) ELSE s1
  IN IF mode = "sse" /\ s2.bl # <<>> THEN [s2 EXCEPT !.o = Append(@, EventOf(s2.bl)), !.bl = <<>>] ELSE s2

\* the machine's state after a prefix of the stream, and whether it is "at rest" there
AfterPrefix(mode, bytes, c) ==
  LET d == DecodeChunk(<<>>, SubSeq(bytes, 1, c)) IN [carry |-> d.carry, s |-> FeedAll(mode, S0, d.chars)]

\* kind of the cut after byte c (1 <= c < Len(bytes)):
\*  in_char        inside a multi-byte character
\*  cr_lf          between the CR and the LF of one terminator
\*  in_line        inside a line (before its terminator)
\*  between_lines  after a line's terminator, next comes another line of the same event
\*  before_blank   after a line's terminator, next comes the blank line that ends the event
\*  at_rest        between two events / records: nothing is carried over the cut
CutKind(mode, bytes, c) ==
  LET a == AfterPrefix(mode, bytes, c) IN
  IF a.carry # <<>> THEN "in_char"
  ELSE IF a.s.pcr /\ bytes[c + 1] = LF THEN "cr_lf"
  ELSE IF a.s.ln # <<>> THEN "in_line"
  ELSE IF a.s.bl # <<>> THEN (IF bytes[c + 1] = LF \/ bytes[c + 1] = CR THEN "before_blank" ELSE "between_lines")
  ELSE "at_rest"

CutKinds(mode, bytes) == Mat([c \in 1..(Len(bytes) - 1) |-> CutKind(mode, bytes, c)])

----------------------------------------------------------------------------
(* (2) whole-stream meaning *)

\* i ends a line terminator: LF, or a CR that is not followed by LF
IsTermEnd(cs, i) == cs[i] = LF \/ (cs[i] = CR /\ (i = Len(cs) \/ cs[i + 1] # LF))

SplitLines(cs) ==
  LET T == SelectSeq(Idx(cs), LAMBDA i : IsTermEnd(cs, i))
      start(k) == IF k = 1 THEN 1 ELSE T[k - 1] + 1
      stop(k) == IF cs[T[k]] = LF /\ T[k] > 1 /\ cs[T[k] - 1] = CR THEN T[k] - 2 ELSE T[k] - 1
      full == Mat([k \in 1..Len(T) |-> SubSeq(cs, start(k), stop(k))])
      lastEnd == IF T = <<>> THEN 0 ELSE LastOf(T)
  IN IF lastEnd < Len(cs) THEN Append(full, SubSeq(cs, lastEnd + 1, Len(cs))) ELSE full

\* maximal runs of non-blank lines; the last one need not be followed by a blank line
Blocks(ls) ==
  LET B == <<0>> \o SelectSeq(Idx(ls), LAMBDA i : ls[i] = <<>>) \o <<Len(ls) + 1>>
      G == [k \in 1..(Len(B) - 1) |-> SubSeq(ls, B[k] + 1, B[k + 1] - 1)]
  IN SelectSeq(G, LAMBDA g : g # <<>>)

LinesOfX(charset, bytes) == SplitLines(DecodeAllX(charset, bytes))
BlocksOfX(charset, bytes) == Blocks(LinesOfX(charset, bytes))
LinesOf(bytes) == LinesOfX("utf8", bytes)
BlocksOf(bytes) == BlocksOfX("utf8", bytes)

\* comment-only blocks: a block without any field line.  `deliver` says whether such a block yields an
\* (empty) event; the property fixes the meaning only for blocks with at least one field line.
EventsXC(charset, bytes, deliver) ==
  LET bs == SelectSeq(BlocksOfX(charset, bytes), LAMBDA b : deliver \/ FieldsOf(b) # <<>>) IN
  Mat([k \in 1..Len(bs) |-> EventOf(bs[k])])
EventsX(bytes, deliver) == EventsXC("utf8", bytes, deliver)
Events(bytes) == EventsX(bytes, TRUE)

HasCommentOnlyBlock(bytes) == \E k \in 1..Len(BlocksOf(bytes)) : FieldsOf(BlocksOf(bytes)[k]) = <<>>

\* iter_sse_events_text: the data of every event whose data is not empty
DataTexts(evs) == LET d == SelectSeq(evs, LAMBDA e : e.data # <<>>) IN Mat([k \in 1..Len(d) |-> d[k].data])

\* NDJSON: every non-blank line, stripped, is one record (its text)
RecordsC(charset, bytes) ==
  LET ls == LinesOfX(charset, bytes)
      st == Mat([i \in 1..Len(ls) |-> Strip(ls[i])])
  IN SelectSeq(st, LAMBDA t : t # <<>>)

Records(bytes) == RecordsC("utf8", bytes)

ExpectedC(charset, mode, bytes) == IF mode = "sse" THEN EventsXC(charset, bytes, TRUE) ELSE RecordsC(charset, bytes)
Expected(mode, bytes) == ExpectedC("utf8", mode, bytes)

\* the final block is not closed by a blank line (so the last event exists only through the final flush)
LastUnterminated(mode, bytes) ==
  LET a == AfterPrefix(mode, bytes, Len(bytes)) IN a.s.ln # <<>> \/ a.s.bl # <<>>

----------------------------------------------------------------------------
(* chunkings: a chunking of an n-byte stream is a set of cut positions in 1..n-1 *)

RECURSIVE KSubsets(_, _)
KSubsets(S, k) ==
  IF k = 0 THEN {{}}
  ELSE IF S = {} THEN {}
  ELSE LET x == CHOOSE y \in S : \A z \in S : y <= z IN
       {T \cup {x} : T \in KSubsets(S \ {x}, k - 1)} \cup KSubsets(S \ {x}, k)

\* every subset of cut points for streams up to maxFull bytes, every chunking with <= maxCuts cuts beyond
CutSets(n, maxFull, maxCuts) ==
  IF n <= maxFull THEN SUBSET (1..(n - 1))
  ELSE UNION {KSubsets(1..(n - 1), k) : k \in 0..maxCuts}

\* ---- transition cover.  What a decoder carries over a chunk boundary depends on the machine state there and on the
\* bytes next to the cut; an implementation may key its own flags on either ("previous chunk ended in CR", "chunk starts
\* with LF") and keep them over SEVERAL chunks.  The class of a cut is therefore <<CutKind, byte before, byte after>>
\* (bytes as cr / lf / x), and a cover of depth d contains, besides the unsplit stream and (d >= 1) every single cut, for every
\* ordered pair (d >= 2) and triple (d >= 3) of classes realised by cuts c1 < c2 (< c3) of the stream a representative
\* chunking or two (a widest and a tight one).
Byte3(b) == IF b = CR THEN "cr" ELSE IF b = LF THEN "lf" ELSE "x"
CutClass(mode, bytes, c) == <<CutKind(mode, bytes, c), Byte3(bytes[c]), Byte3(bytes[c + 1])>>
CutClasses(mode, bytes) == Mat([c \in 1..(Len(bytes) - 1) |-> CutClass(mode, bytes, c)])

\* TLC evaluates a function constructor lazily at every application; comparing it forces (and caches) the table
Forced(f) == IF f = f THEN f ELSE f
MinOf(S) == CHOOSE x \in S : \A y \in S : x <= y
MaxOf(S) == CHOOSE x \in S : \A y \in S : x >= y

\* ordered class pair (a, b) realised by c1 < c2: the widest representative and a tight one
CoverPairs(Cls, pos, fst, lst) ==
  UNION {LET ia == MaxOf({i \in pos[cl[1]] : i < lst[cl[2]]}) IN
         {{fst[cl[1]], lst[cl[2]]}, {ia, MinOf({j \in pos[cl[2]] : j > ia})}}
         : cl \in {x \in Cls \X Cls : fst[x[1]] < lst[x[2]]}}
\* ordered class triple (a, b, c) realised by c1 < c2 < c3: widest and tightest around the first middle cut
CoverTriples(Cls, pos, fst, lst) ==
  UNION {LET j == MinOf({m \in pos[cl[2]] : fst[cl[1]] < m /\ m < lst[cl[3]]}) IN
         {{fst[cl[1]], j, lst[cl[3]]},
          {MaxOf({i \in pos[cl[1]] : i < j}), j, MinOf({k \in pos[cl[3]] : k > j})}}
         : cl \in {x \in Cls \X Cls \X Cls : \E m \in pos[x[2]] : fst[x[1]] < m /\ m < lst[x[3]]}}
PosOf(K, Cls) == Forced([a \in Cls |-> {c \in 1..Len(K) : K[c] = a}])
FirstOf(pos, Cls) == Forced([a \in Cls |-> MinOf(pos[a])])
LastOfCls(pos, Cls) == Forced([a \in Cls |-> MaxOf(pos[a])])
CoverOfClasses(K, Cls, pos, depth) ==
  {{}}
  \cup (IF depth >= 1 THEN {{c} : c \in 1..Len(K)} ELSE {})
  \cup (IF depth >= 2 THEN CoverPairs(Cls, pos, FirstOf(pos, Cls), LastOfCls(pos, Cls)) ELSE {})
  \cup (IF depth >= 3 THEN CoverTriples(Cls, pos, FirstOf(pos, Cls), LastOfCls(pos, Cls)) ELSE {})
ClassSet(K) == {K[c] : c \in 1..Len(K)}
CoverOfK(K, depth) == CoverOfClasses(K, ClassSet(K), PosOf(K, ClassSet(K)), depth)
CoverSets(mode, bytes, depth) == CoverOfK(CutClasses(mode, bytes), depth)

\* the chunkings of a family stream s = [mode, bytes, rule]
CutsFor(s, maxFull, maxCuts, depth) ==
  IF s.rule = "cover" THEN CoverSets(s.mode, s.bytes, depth) ELSE CutSets(Len(s.bytes), maxFull, maxCuts)

\* a bare CR (not followed by LF) terminates a line somewhere in the stream
HasBareCR(bytes) == \E i \in 1..Len(bytes) : bytes[i] = CR /\ (i = Len(bytes) \/ bytes[i + 1] # LF)

----------------------------------------------------------------------------
(* Long streams.  Stream LENGTH is a dimension with thresholds at the buffer sizes decoders like to use    *)
(* (4 Ki, 64 Ki, 256 Ki, 1 Mi).  A long stream is described symbolically,                                   *)
(*   L = [mode, pre, fill, m, post, reps] :  bytes = (pre \o fill^m \o post)^reps     (fill: one ASCII byte), *)
(* and so is what a helper yields: text as run-length pairs <<code point, count>>, an item sequence as      *)
(* [period, n] (item i is period[((i-1) % Len(period)) + 1], i \in 1..n).  Two laws lift the whole-stream    *)
(* meaning of the short twin (fill^2, one repetition) to the long stream (checked by TLC for small m, reps  *)
(* in MC_StreamLong): repetition - a unit that leaves the machine at rest contributes its own items, reps   *)
(* times; stretching - a run of m fill characters stays one run of m characters in the items.               *)

RECURSIVE RepSeq(_, _)
RepSeq(s, n) == IF n = 0 THEN <<>> ELSE s \o RepSeq(s, n - 1)
FillSeq(b, m) == Mat([i \in 1..m |-> b])
UnitOf(L, m) == L.pre \o FillSeq(L.fill, m) \o L.post

RECURSIVE RLEFrom(_, _, _)
RLEFrom(s, i, acc) ==
  IF i > Len(s) THEN acc
  ELSE LET a == IF acc # <<>> /\ LastOf(acc)[1] = s[i]
                THEN Append(FrontOf(acc), <<s[i], LastOf(acc)[2] + 1>>)
                ELSE Append(acc, <<s[i], 1>>)
       IN IF Len(a) > 0 THEN RLEFrom(s, i + 1, a) ELSE a
RLE(s) == RLEFrom(s, 1, <<>>)
\* a run of exactly `from` fill characters becomes a run of `to`
Stretch(r, fill, from, to) == Mat([i \in 1..Len(r) |-> IF r[i][1] = fill /\ r[i][2] = from THEN <<fill, to>> ELSE r[i]])
RECURSIVE UnRLE(_)
UnRLE(r) == IF r = <<>> THEN <<>> ELSE FillSeq(r[1][1], r[1][2]) \o UnRLE(Tail(r))

\* items of a helper in run-length form
EncItem(dec, it, fill, from, to) ==
  IF dec = "iter_sse"
  THEN [data |-> Stretch(RLE(it.data), fill, from, to), event |-> Stretch(RLE(it.event), fill, from, to),
        id |-> Stretch(RLE(it.id), fill, from, to), retry |-> it.retry]
  ELSE Stretch(RLE(it), fill, from, to)
MeaningOf(dec, mode, bytes) ==
  CASE dec = "iter_sse" -> Events(bytes)
    [] dec = "iter_sse_events_text" -> DataTexts(Events(bytes))
    [] dec = "iter_ndjson" -> Records(bytes)
    [] dec = "iter_bytes" -> <<bytes>>
TwinM(L) == IF L.m = 0 THEN 0 ELSE 2
\* the lifted expectation for helper `dec` on the long stream L, in [period, n] form
ExpectedLong(dec, L) ==
  IF dec = "iter_bytes"
  THEN LET r == Stretch(RLE(UnitOf(L, TwinM(L))), L.fill, TwinM(L), L.m) IN
       \* one item (the concatenation), itself a periodic sequence of runs
       [period |-> r, n |-> L.reps * Len(r)]
  ELSE LET its == MeaningOf(dec, L.mode, UnitOf(L, TwinM(L))) IN
       [period |-> Mat([i \in 1..Len(its) |-> EncItem(dec, its[i], L.fill, TwinM(L), L.m)]), n |-> L.reps * Len(its)]
\* the laws apply when a unit leaves the machine at rest, the fill byte occurs nowhere else and m is 0 or > 2
Liftable(L) ==
  LET a == AfterPrefix(L.mode, UnitOf(L, TwinM(L)), Len(UnitOf(L, TwinM(L)))) IN
  /\ a.carry = <<>> /\ a.s.ln = <<>> /\ a.s.bl = <<>> /\ ~a.s.pcr
  /\ L.m = 0 \/ L.m > 2
  /\ L.fill < 128 /\ \A i \in 1..Len(L.pre) : L.pre[i] # L.fill
  /\ \A i \in 1..Len(L.post) : L.post[i] # L.fill
  /\ Len(L.pre) > 0 /\ (L.post = <<>> \/ LastOf(L.post) # L.pre[1])
  /\ L.post # <<>> \/ LastOf(L.pre) # L.pre[1]

PAt(e, i) == e.period[((i - 1) % Len(e.period)) + 1]
MinInt(a, b) == IF a <= b THEN a ELSE b
\* two periodic sequences denote the same sequence
PSame(a, b) ==
  /\ a.n = b.n
  /\ a.n = 0 \/ ( /\ Len(a.period) > 0 /\ Len(b.period) > 0
                   /\ \A i \in 1..MinInt(a.n, Len(a.period) * Len(b.period)) : PAt(a, i) = PAt(b, i) )
PExpand(e) == Mat([i \in 1..e.n |-> PAt(e, i)])

\* realistic chunkings of a long stream of `total` bytes (cuts as sorted sequences): fixed-size network chunks, two
\* halves, a boundary just before / at / just after each buffer-size threshold (alone and followed by a second cut)
FixedCuts(total, size) == Mat([k \in 1..((total - 1) \div size) |-> k * size])
LongChunkings(total, sizes, thresholds) ==
  {[label |-> "unsplit", size |-> 0, cuts |-> <<>>], [label |-> "halves", size |-> 0, cuts |-> <<total \div 2>>]}
  \cup {[label |-> "fixed", size |-> z, cuts |-> FixedCuts(total, z)] : z \in {y \in sizes : y < total}}
  \cup UNION {{[label |-> "before", size |-> t, cuts |-> <<t - 1>>], [label |-> "at", size |-> t, cuts |-> <<t>>],
               [label |-> "after", size |-> t, cuts |-> <<t + 1>>],
               [label |-> "after+half-of-rest", size |-> t, cuts |-> <<t + 1, t + 1 + (total - t) \div 2>>]}
              : t \in {y \in thresholds : y + 2 < total}}

\* sorted sequence of a set of ints
RECURSIVE SortedSeq(_)
SortedSeq(S) == IF S = {} THEN <<>>
                ELSE LET x == CHOOSE y \in S : \A z \in S : y <= z IN <<x>> \o SortedSeq(S \ {x})
=============================================================================
