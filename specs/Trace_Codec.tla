---------------------------- MODULE Trace_Codec ----------------------------
(***************************************************************************)
(* Total monitor for C16.  One trace per ndjson line, one VERDICT line per *)
(* trace listing every failing (event, clause, locus).  Trace kinds:       *)
(*                                                                         *)
(* "rt"   [id, classes, top, ev]  ev[i].k = "rt": a conforming instance j, *)
(*        what structure_from_dict returned (dec), its re-encoding (out),  *)
(*        an instance v built by the harness, its encoding (enc) and the   *)
(*        decoding of that (v2), the serialiser's output (ser); dec2 = the *)
(*        same decode repeated in the warm state (dec was the FIRST decode *)
(*        of a fresh converter state when the harness says so);            *)
(*        ev[i].k = "bad": a non-conforming j (Codec!Mutants) and what the *)
(*        decoder did (res).                                               *)
(* "ser"  [id, ev]  ev[i] = [g, res, json]: DataclassSerializer on an      *)
(*        instance graph (Codec part 4).                                   *)
(* "hist" [id, classes, calls, h, res, base]: one call history run in a    *)
(*        fresh interpreter; res[i] what call h[i] returned there, base[i] *)
(*        what the same call returns as the FIRST call of an interpreter.  *)
(*        The monitor replays the history through Codec!Structure /        *)
(*        Codec!Unstructure (registry variable `hooks`).                   *)
(* Property clauses produce failures; disagreement with the specification  *)
(* about anything else is counted as drift.                                *)
(***************************************************************************)
EXTENDS Codec, Json, IOUtils

Traces == ndJsonDeserialize(IOEnv.TRACE_FILE)

VARIABLES tid, l, fails, ndrift, done
tvars == <<tid, l, fails, ndrift, done, hooks, hist, last>>

T == Traces[tid]

Fail(i, clause, locus) == [i |-> i, clause |-> clause, locus |-> locus]
IsExc(x) == x.t = "exc"
Diverged(x) == IsExc(x) /\ x.exc \in {"RecursionError", "Timeout", "Crashed"}

----------------------------------------------------------------------------
(* round trips *)

RtFails(cl, top, i, e) ==
  LET ref == Decode(cl, top, e.j)
      decenc ==
        IF IsExc(e.dec) THEN {Fail(i, "C16.dec_enc", [what |-> "structure_raised", exc |-> e.dec.exc])}
        ELSE IF IsExc(e.out) THEN {Fail(i, "C16.dec_enc", [what |-> "unstructure_raised", exc |-> e.out.exc])}
        ELSE LET d == Diff(cl, top, e.j, e.out, FALSE)
             IN IF d = "ok" THEN {} ELSE {Fail(i, "C16.dec_enc", [what |-> d, exc |-> "none"])}
      encdec ==
        IF e.v # ref THEN {Fail(i, "diag.instance_not_built", [what |-> "harness"])}
        ELSE IF IsExc(e.enc) THEN {Fail(i, "C16.enc_dec", [what |-> "unstructure_raised", exc |-> e.enc.exc])}
        ELSE IF IsExc(e.v2) THEN {Fail(i, "C16.enc_dec", [what |-> "structure_raised", exc |-> e.v2.exc])}
        ELSE IF e.v2 # e.v THEN {Fail(i, "C16.enc_dec", [what |-> "value_changed", exc |-> "none"])}
        ELSE {}
      ser ==
        IF Diverged(e.ser) THEN {Fail(i, "C16.serializer_diverges", [exc |-> e.ser.exc, cyclic |-> FALSE, resolvable_cycle |-> FALSE])}
        ELSE IF IsExc(e.ser) THEN {Fail(i, "C16.serializer_not_json", [what |-> "raised", exc |-> e.ser.exc])}
        ELSE IF ~e.serjson \/ ~IsJson(e.ser) THEN {Fail(i, "C16.serializer_not_json", [what |-> "not_serialisable", exc |-> "none"])}
        ELSE IF NullKeys(e.ser) > 0 THEN {Fail(i, "C16.serializer_null_key", [cyclic |-> FALSE])}
        ELSE LET d == Diff(cl, top, e.j, e.ser, TRUE)
             IN IF d = "ok" THEN {} ELSE {Fail(i, "C16.serializer_lossy", [what |-> d, shared |-> FALSE])}
      \* the same decode repeated in the then warm converter state must give what the first (fresh) one gave
      again ==
        IF "dec2" \in DOMAIN e /\ e.dec2 # e.dec
        THEN {Fail(i, "C16.history_dependent",
                   [op |-> "S", ty |-> top.k, now |-> (IF IsExc(e.dec2) THEN e.dec2.exc ELSE "value"),
                    fresh |-> (IF IsExc(e.dec) THEN e.dec.exc ELSE "value")])}
        ELSE {}
  IN decenc \cup encdec \cup ser \cup again

\* drift: the decoded value is not the reference decoder's value although the round trip may still be fine
RtDrift(cl, top, e) == IF ~IsExc(e.dec) /\ e.dec # Decode(cl, top, e.j) THEN 1 ELSE 0

BadFails(cl, top, i, e) ==
  IF Conforms(cl, e.j, top) THEN {Fail(i, "diag.mutant_conforms", [what |-> e.what])}
  ELSE IF ~IsExc(e.res) THEN {Fail(i, "C16.error_not_raised", [what |-> e.what, p |-> e.p])}
  ELSE IF ~e.res.isvalue THEN {Fail(i, "C16.error_type", [what |-> e.what, exc |-> e.res.exc])}
  ELSE LET words == ToSet(e.res.words)
       IN IF OffenderNamed(words, e.steps) THEN {}
          ELSE {Fail(i, "C16.error_no_field",
                     [what |-> e.what, ancestor_named |-> CutAt(words, e.steps) # "none",
                      below_optional |-> BelowOptional(e.steps),
                      union_msg |-> ({"Tried", "variants"} \subseteq words \/ {"any", "variant"} \subseteq words)])}

RtTraceFails(t) ==
  UNION {IF t.ev[i].k = "rt" THEN RtFails(Flat(t.classes), t.top, i, t.ev[i]) ELSE BadFails(Flat(t.classes), t.top, i, t.ev[i]) :
           i \in 1..Len(t.ev)}
RtTraceDrift(t) == MapThenSumSet(LAMBDA i : IF t.ev[i].k = "rt" THEN RtDrift(Flat(t.classes), t.top, t.ev[i]) ELSE 0, 1..Len(t.ev))

----------------------------------------------------------------------------
(* serialiser on instance graphs *)

GraphOf(x) == [n |-> x.n, root |-> x.root, edges |-> ToSet(x.edges)]

SerFails(i, e) ==
  LET g == GraphOf(e.g) IN
  IF Diverged(e.res) THEN {Fail(i, "C16.serializer_diverges", [exc |-> e.res.exc, cyclic |-> Cyclic(g), resolvable_cycle |-> ResolvableCycle(g)])}
  ELSE IF IsExc(e.res) THEN {Fail(i, "C16.serializer_not_json", [what |-> "raised", exc |-> e.res.exc])}
  ELSE IF ~e.json \/ ~IsJson(e.res) THEN {Fail(i, "C16.serializer_not_json", [what |-> "not_serialisable", exc |-> "none"])}
  ELSE IF NullKeys(e.res) > 0 THEN {Fail(i, "C16.serializer_null_key", [cyclic |-> Cyclic(g)])}
  ELSE IF ~Cyclic(g) /\ e.res # SerExpected(g) THEN {Fail(i, "C16.serializer_lossy", [what |-> "tree", shared |-> Shared(g)])}
  ELSE {}

SerTraceFails(t) == UNION {SerFails(i, t.ev[i]) : i \in 1..Len(t.ev)}

----------------------------------------------------------------------------

Counts(t) ==
  IF t.kind = "rt" THEN [rt  |-> Cardinality({i \in 1..Len(t.ev) : t.ev[i].k = "rt"}),
                         bad |-> Cardinality({i \in 1..Len(t.ev) : t.ev[i].k = "bad"}), ser |-> 0, cyc |-> 0, calls |-> 0]
  ELSE IF t.kind = "ser" THEN [rt |-> 0, bad |-> 0, ser |-> Len(t.ev),
                               cyc |-> Cardinality({i \in 1..Len(t.ev) : Cyclic(GraphOf(t.ev[i].g))}), calls |-> 0]
  ELSE [rt |-> 0, bad |-> 0, ser |-> 0, cyc |-> 0, calls |-> Len(t.h)]

Verdict(f, nd) == PrintT("VERDICT " \o ToJson([id |-> T.id, kind |-> T.kind, fails |-> SetToSeq(f), ndrift |-> nd, n |-> Counts(T)]))

Init ==
  /\ tid \in 1..Len(Traces)
  /\ l = 1 /\ fails = {} /\ ndrift = 0 /\ done = FALSE
  /\ RegInit

Batch ==
  /\ T.kind \in {"rt", "ser"} /\ ~done
  /\ done' = TRUE
  /\ Verdict(IF T.kind = "rt" THEN RtTraceFails(T) ELSE SerTraceFails(T), IF T.kind = "rt" THEN RtTraceDrift(T) ELSE 0)
  /\ UNCHANGED <<tid, l, fails, ndrift, hooks, hist, last>>

\* a history is replayed through the registry machine of Codec.tla
HistStep ==
  /\ T.kind = "hist" /\ l <= Len(T.h)
  /\ LET c == T.calls[CHOOSE i \in 1..Len(T.calls) : T.calls[i].id = T.h[l]] IN
       /\ (Structure(Flat(T.classes), c, TRUE) \/ Unstructure(Flat(T.classes), c, TRUE))
       /\ fails' = IF T.res[l] = T.base[l] THEN fails
                   ELSE fails \cup {Fail(l, "C16.history_dependent",
                                         [op |-> c.op, ty |-> c.ty.k,
                                          now |-> (IF IsExc(T.res[l]) THEN T.res[l].exc ELSE "value"),
                                          fresh |-> (IF IsExc(T.base[l]) THEN T.base[l].exc ELSE "value")])}
       \* drift: the registry model's prediction for this call
       /\ ndrift' = ndrift + (IF IsExc(T.res[l]) THEN (IF IsErr(last'.res) THEN 0 ELSE 1)
                              ELSE IF c.op = "S" THEN (IF T.res[l] = last'.res THEN 0 ELSE 1)
                              ELSE (IF IsJson(T.res[l]) /\ Diff(Flat(T.classes), c.ty, last'.res, T.res[l], FALSE) = "ok" THEN 0 ELSE 1))
  /\ l' = l + 1
  /\ UNCHANGED <<tid, done>>

HistFin ==
  /\ T.kind = "hist" /\ l = Len(T.h) + 1 /\ ~done
  /\ done' = TRUE
  /\ Verdict(fails, ndrift)
  /\ UNCHANGED <<tid, l, fails, ndrift, hooks, hist, last>>

Next == Batch \/ HistStep \/ HistFin
Spec == Init /\ [][Next]_tvars
=============================================================================
