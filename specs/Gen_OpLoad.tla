------------------------------ MODULE Gen_OpLoad ------------------------------
(***************************************************************************)
(* X05 scenario generator.  One COMPS line (the component tables every     *)
(* document carries: the harness concretises THESE, there is no second     *)
(* copy in Python) and one SCEN line per document of the tier's family:    *)
(* the document, whether it is Strict, its Offending keys, and the         *)
(* VARIANTS the harness has to load - the document itself, its inlined     *)
(* twin, every operation alone, the items reversed, the keys of every path *)
(* item reversed, `parameters` moved to the other end - all computed here. *)
(* Family = OpLoad!Core(Tier) (exhaustive sub-families A..E) + NB sampled  *)
(* pairs of parameter lists of length <= 2 + ND sampled pairs of response  *)
(* entries + NMix sampled documents with everything at once (two items,    *)
(* three operations, shared components).  Sampling is seeded (-seed).      *)
(***************************************************************************)
EXTENDS OpLoad, Json, Randomization, SequencesExt
CONSTANTS Tier, NB, ND, NMix
VARIABLES sc, done

Min2(a, b) == IF a < b THEN a ELSE b
Sample(n, S) == RandomSubset(Min2(n, Cardinality(S)), S)
One1(S) == RandomSubset(1, S)

IdLists == {<<IDS>>, <<PRef("Id")>>, <<PRef("IdAlias")>>}
RespLists(p, r1, r2) == {<<RE(p[1][1], p[1][2], r1)>>, <<RE(p[1][1], p[1][2], r1), RE(p[2][1], p[2][2], r2)>>}
MixDocs(n) ==
  UNION {
    {Doc(<<MkItem(path, l1, (IF path \in Templated THEN idl ELSE <<>>) \o pl,
                  <<MixOp(ms[1], ids[1], ol1, b1, rs1, tg[1]), MixOp(ms[2], ids[2], ol2, b2, rs2, tg[2])>>),
           MkItem("/b", l2, <<>>, <<MixOp("get", "getB", ol2, BNone, rs2, <<"t1">>)>>)>>) :
        path \in One1({"/a", "/a/{id}"}), l1 \in One1(Layouts \ {"emptyparams"}), l2 \in One1(Layouts),
        idl \in One1(IdLists), pl \in One1(Lists(QMenu(Tier), 2)), ol1 \in One1(Lists(QMenu(Tier), 1)), ol2 \in One1(Lists(QMenu(Tier), 1)),
        ms \in One1({p \in MethodSet \X MethodSet : p[1] # p[2]}), ids \in One1(IdPairs), tg \in One1(TagLists \X TagLists),
        b1 \in One1(Bodies(Tier)), b2 \in One1(Bodies(Tier)),
        rs1 \in UNION {RespLists(p, r1, r2) : p \in One1(KeyPairs(Tier)), r1 \in One1(RMenu(Tier)), r2 \in One1(RMenu(Tier))},
        rs2 \in UNION {RespLists(p, r1, r2) : p \in One1(KeyPairs(Tier)), r1 \in One1(RMenu(Tier)), r2 \in One1(RMenu(Tier))}}
    : i \in 1..n}

Docs == Core(Tier) \cup Sample(NB, FamB1(Tier, 2)) \cup Sample(ND, FamDPairs(Tier)) \cup {d \in MixDocs(NMix) : ParamsValid(d)}

ASSUME PrintT("COMPS " \o ToJson([params |-> CParam, bodies |-> CBody, resps |-> CResp, schemas |-> SchemaProps]))

Init == sc \in Docs /\ done = FALSE
Emit == /\ ~done /\ done' = TRUE /\ UNCHANGED sc
        /\ Assert(WellFormed(sc) /\ ParamsValid(sc), <<"ill-formed document in the family", sc>>)
        /\ PrintT("SCEN " \o ToJson([doc |-> sc, strict |-> Strict(sc), offending |-> SetToSeq(Offending(sc)), variants |-> Variants(sc)]))
GSpec == Init /\ [][Emit]_<<sc, done>>
=============================================================================
