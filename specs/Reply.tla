------------------------------- MODULE Reply -------------------------------
(***************************************************************************)
(* C05 - response fidelity.  Constant-level part of the specification:     *)
(*                                                                         *)
(*  * JSON values as TAGGED TREES (TLC cannot compare values of different  *)
(*    types): a node is [t, s, kids] with t in {"null","bool","int","num", *)
(*    "str","bytes","arr","obj"}, s the scalar rendered as a string (the   *)
(*    text itself for "str", base64 for "bytes"), kids a sequence of       *)
(*    [k, n] (k = member key of an object, "" in arrays; objects are       *)
(*    key-sorted);                                                         *)
(*  * the scenario vocabulary: an operation declares responses             *)
(*    [status -> [c : content kind, sh : body shape]]; one of them is the  *)
(*    SERVED response (primary or secondary or the `default`), the others  *)
(*    are fillers (204 without content, any other status a JSON `Other`    *)
(*    model so that a confusion between responses is visible);             *)
(*  * `Instances`: conforming bodies per (content, shape) with two         *)
(*    distinguishable values per leaf and optional members present/absent; *)
(*  * the REFERENCE meaning `ExpectedReply(body)` and the judge            *)
(*    `Failures(...)` - the set of failing C05 clauses of one call, each   *)
(*    with a locus computed from the observation;                          *)
(*  * the IMPLEMENTATION-SHAPED functions, one per place where the code    *)
(*    decides (variant "as_is"; line numbers of the pinned tree):          *)
(*      PrimarySig   response_strategy.py:113-137 (the copy that decides   *)
(*                   the SIGNATURE / the ResponseStrategy)                 *)
(*      PrimaryHdl   helpers/endpoint_utils.py:139-158 (the copy that      *)
(*                   decides which `case` gets the strategy-based return)  *)
(*      Strategy     ResponseStrategyResolver.resolve: None / streaming /  *)
(*                   multi-content Union + content_type_mapping / schema   *)
(*      CaseOf       response_handler_generator.py:436-514 - `case` for    *)
(*                   the primary, one per other numeric key, `case _`      *)
(*      StrategyReturn   :524-575  (streaming loops; Content-Type switch   *)
(*                   ONLY when the return type starts with "Union[" ;      *)
(*                   `response.text` for an all-text/* `str` response      *)
(*                   (since repo commit 27387a3); else structure_from_dict *)
(*                   or cast(T, response.json()) - no branch for `bytes`,  *)
(*                   none for a text/plain `$ref` string alias)            *)
(*      SecondaryReturn  :463-484  (always response.json(), whatever the   *)
(*                   declared content type)                                *)
(*      DefaultReturn    :494-505  (the PRIMARY's strategy for the default *)
(*                   response)                                             *)
(*      CattrsImported / Unimportable  which emitted modules lack the      *)
(*                   structure_from_dict import / are not valid Python     *)
(*    and the variant "fixed" showing that the property is satisfiable.    *)
(*    Variants "sig201" / "hdl201" prefer 201 over 200 in ONE of the two   *)
(*    selection copies (negative control of the design check).             *)
(***************************************************************************)
EXTENDS Naturals, Sequences, FiniteSets, FiniteSetsExt, SequencesExt, TLC

\* ---------------------------------------------------------------------------------------------
\* tagged trees

Nd(t, s, kids) == [t |-> t, s |-> s, kids |-> kids]
KV(k, n)       == [k |-> k, n |-> n]
MapSeq(F(_), q) == IF Len(q) = 0 THEN <<>> ELSE [i \in 1..Len(q) |-> F(q[i])]

JNull      == Nd("null", "null", <<>>)
JInt(i)    == Nd("int", ToString(i), <<>>)
JBool(b)   == Nd("bool", IF b THEN "true" ELSE "false", <<>>)
JStr(x)    == Nd("str", x, <<>>)
JBytes(b)  == Nd("bytes", b, <<>>)
JArr(q)    == Nd("arr", "", MapSeq(LAMBDA n : KV("", n), q))
JObj(kvs)  == Nd("obj", "", kvs)
NoTree     == Nd("none", "", <<>>)          \* "there is no value" (raise / items)

Elems(n)   == MapSeq(LAMBDA kv : kv.n, n.kids)
Keys(n)    == {n.kids[i].k : i \in 1..Len(n.kids)}
Member(n, k) == (CHOOSE i \in 1..Len(n.kids) : n.kids[i].k = k)
Get(n, k)  == n.kids[Member(n, k)].n

\* the vocabulary's keys have ONE role each, whatever the model they belong to
KeyRole(k) == CASE k \in {"tag", "lives", "compact", "theme"}  -> "opt_scalar"
                [] k \in {"nums", "tricks"} -> "opt_list"
                [] OTHER                    -> "req"

\* tolerance of C03: an optional member that is null, or an optional list that is empty, is the same as absent
Droppable(kv) == \/ KeyRole(kv.k) \in {"opt_scalar", "opt_list"} /\ kv.n.t = "null"
                 \/ KeyRole(kv.k) = "opt_list" /\ kv.n.t = "arr" /\ Len(kv.n.kids) = 0

RECURSIVE Norm(_)
Norm(n) ==
  IF n.t = "obj" THEN Nd("obj", "", MapSeq(LAMBDA kv : KV(kv.k, Norm(kv.n)), SelectSeq(n.kids, LAMBDA kv : ~Droppable(kv))))
  ELSE IF n.t = "arr" THEN Nd("arr", "", MapSeq(LAMBDA kv : KV("", Norm(kv.n)), n.kids))
  ELSE n

Approx(a, b) == Norm(a) = Norm(b)
ApproxSeq(p, q) == Len(p) = Len(q) /\ \A i \in 1..Len(p) : Approx(p[i], q[i])
\* same items, possibly in another order
Count(q, x) == Cardinality({i \in 1..Len(q) : Norm(q[i]) = Norm(x)})
SameBag(p, q) == Len(p) = Len(q) /\ \A i \in 1..Len(p) : Count(p, p[i]) = Count(q, p[i])

\* python kind of the value `response.json()` hands out
RawKind(n) == CASE n.t = "obj" -> "dict" [] n.t = "arr" -> "list" [] n.t = "str" -> "str" [] n.t = "int" -> "int"
                [] n.t = "num" -> "float" [] n.t = "bool" -> "bool" [] n.t = "bytes" -> "bytes" [] OTHER -> "none"

\* "model:Thing" -> "model" (TLC has no string slicing: observations carry the class next to the kind)
ModelKinds == {"model:Thing", "model:Other", "model:Cat", "model:Dog", "model:Bag", "model:Prefs"}
KindClass(pk) == IF pk \in ModelKinds THEN "model" ELSE pk

\* ---------------------------------------------------------------------------------------------
\* schemas of the family and their instances

Opt(k, o, F(_)) == IF Len(o) = 0 THEN <<>> ELSE <<KV(k, F(o[1]))>>
IntArr(q) == JArr(MapSeq(JInt, q))
StrArr(q) == JArr(MapSeq(JStr, q))

\* Thing: id (int, required), name (str, required), nums (array of int, optional), tag (str, optional)
Thing(i, nm, nums, tag) == JObj(<<KV("id", JInt(i)), KV("name", JStr(nm))>> \o Opt("nums", nums, IntArr) \o Opt("tag", tag, JStr))
\* Other: code, note (both required) - the filler model
OtherM(c, nt) == JObj(<<KV("code", JInt(c)), KV("note", JStr(nt))>>)
\* Pick = oneOf [Cat, Dog]; Cat: lives (int, optional), meow (str, required); Dog: bark (str, required), tricks (array of str, optional)
Cat(lives, m) == JObj(Opt("lives", lives, JInt) \o <<KV("meow", JStr(m))>>)
Dog(b, tricks) == JObj(<<KV("bark", JStr(b))>> \o Opt("tricks", tricks, StrArr))
\* Prefs: nullable object, compact (bool, optional), theme (str, optional) - {} conforms
Prefs(compact, theme) == JObj(Opt("compact", compact, JBool) \o Opt("theme", theme, JStr))
\* Bag = additionalProperties: integer
Bag(kvs) == JObj(MapSeq(LAMBDA p : KV(p[1], JInt(p[2])), kvs))

T1 == Thing(1, "a", << <<1, 2>> >>, <<"t">>)
T2 == Thing(2, "b", <<>>, <<>>)
T3 == Thing(2, "a", <<>>, <<"u">>)
T4 == Thing(1, "b", << <<3>> >>, <<>>)

Things(level) ==
  IF level <= 1 THEN {T1, T2, T3, T4}
  ELSE {T1, T2, T3, T4} \cup {Thing(i, nm, nums, tag) : i \in {1, 2}, nm \in {"a", "b"}, nums \in {<<>>, << <<>> >>, << <<1, 2>> >>}, tag \in {<<>>, <<"t">>}}

ThingSeqs(level) ==
  IF level <= 1 THEN {<<>>, <<T1>>, <<T1, T2>>, <<T2, T1>>, <<T3, T4>>}
  ELSE {<<>>} \cup {<<x>> : x \in Things(1)} \cup {<<x, y>> : x \in Things(1), y \in Things(1)} \cup {<<T1, T2, T3>>, <<T3, T2, T1>>}

Picks(level) == {Cat(<<3>>, "m"), Cat(<<>>, "n"), Dog("w", << <<"x", "y">> >>), Dog("v", <<>>)}
                  \cup (IF level <= 1 THEN {} ELSE {Cat(<<9>>, "n"), Dog("v", << <<>> >>)})
Bags(level)  == {Bag(<<>>), Bag(<< <<"k1", 1>> >>), Bag(<< <<"k1", 1>>, <<"k2", 2>> >>), Bag(<< <<"k1", 2>> >>)}
\* (falsy but present values - 0, "", false, [], {} - are conforming bodies like any other)
Ints(level)  == {JInt(1), JInt(2), JInt(0)}
Strs(level)  == {JStr("a"), JStr("b"), JStr("")}
\* MaybeThings = nullable array of Thing; Prefs = nullable object whose members are all optional
NullArrs(level) == {JNull, JArr(<<>>), JArr(<<T1>>), JArr(<<T2, T1>>)}
NullObjs(level) == {JNull, Prefs(<<>>, <<>>), Prefs(<<TRUE>>, <<"x">>), Prefs(<<FALSE>>, <<>>), Prefs(<<>>, <<"">>)}
\* text bodies: one that is not JSON, one that also parses as JSON (the integer 7)
Texts(level) == {JStr("hello world"), JStr("7")} \cup (IF level <= 1 THEN {} ELSE {JStr("{\"id\": 1}")})
\* octet chunks, base64, every chunk 3k bytes long so that concatenating the base64 texts concatenates the octets
ChunkSeqs(level) == {<<>>, <<"YWJj">>, <<"YWIA", "/2Nk">>, <<"/2Nk", "YWIA">>} \cup (IF level <= 1 THEN {} ELSE {<<"YWIA", "YWIA", "/2Nk">>})

JsonShapes == {"object", "array", "primalias", "arralias", "union", "map", "prim", "str"}
\* further shapes, as the only content (nullobj also as the JSON alternative of a multi-content response)
MoreJsonShapes == {"nullarr", "nullobj", "bool"}
TextShapes == {"str", "primalias"}

JsonInstances(sh, level) ==
  CASE sh = "object"    -> Things(level)
    [] sh = "array"     -> {JArr(q) : q \in ThingSeqs(level)}
    [] sh = "arralias"  -> {JArr(q) : q \in ThingSeqs(level)}
    [] sh = "primalias" -> Strs(level)
    [] sh = "str"       -> Strs(level)
    [] sh = "union"     -> Picks(level)
    [] sh = "map"       -> Bags(level)
    [] sh = "prim"      -> Ints(level)
    [] sh = "bool"      -> {JBool(TRUE), JBool(FALSE)}
    [] sh = "nullarr"   -> NullArrs(level)
    [] sh = "nullobj"   -> NullObjs(level)
    [] sh = "other"     -> {OtherM(5, "x"), OtherM(6, "y")}

\* a BODY is what the fake server sends for one call: [ct : served content kind, var : how the Content-Type header is
\* written ("exact" | "decorated" = other letter case + a charset parameter), tree : the JSON / text value,
\* items : the events / records / chunks of a stream, chunking : how a stream is cut into transport chunks]
BodyRec(ct, var, tree, items, chunking) == [ct |-> ct, var |-> var, tree |-> tree, items |-> items, chunking |-> chunking]
NoBody == BodyRec("none", "exact", NoTree, <<>>, "whole")

JsonBodies(sh, level, vars) == {BodyRec("json", v, t, <<>>, "whole") : v \in vars, t \in JsonInstances(sh, level)}
TextBodies(level, vars)     == {BodyRec("text", v, t, <<>>, "whole") : v \in vars, t \in Texts(level)}

ContentKinds == {"none", "json", "text", "octet", "sse", "ndjson", "json+text"}

\* every body the server may send for a response declared as (c, sh)
Bodies(c, sh, level) ==
  CASE c = "none"      -> {NoBody}
    [] c = "json"      -> JsonBodies(sh, level, {"exact"})
    [] c = "text"      -> TextBodies(level, {"exact"})
    [] c = "octet"     -> {BodyRec("octet", "exact", NoTree, MapSeq(JBytes, q), "whole") : q \in ChunkSeqs(level)}
    \* "multiline": every event's JSON payload is pretty-printed over several `data:` lines (joined with LF by a reader)
    [] c = "sse"       -> {BodyRec("sse", "exact", NoTree, q, ch) : q \in ThingSeqs(level), ch \in {"whole", "split"}}
                          \cup {BodyRec("sse", "exact", NoTree, q, "multiline") : q \in IF level <= 1 THEN {<<T1>>, <<T2, T1>>} ELSE ThingSeqs(1) \ {<<>>}}
    [] c = "ndjson"    -> {BodyRec("ndjson", "exact", NoTree, q, ch) : q \in ThingSeqs(level), ch \in {"whole", "split"}}
    \* (level 1: the decorated Content-Type with one JSON instance and one text, the exact one with all)
    [] c = "json+text" -> IF level <= 1
                          THEN JsonBodies(sh, level, {"exact"}) \cup TextBodies(level, {"exact"})
                               \cup {BodyRec("json", "decorated", CHOOSE t \in JsonInstances(sh, level) : t.t # "null", <<>>, "whole"),
                                     BodyRec("text", "decorated", JStr("hello world"), <<>>, "whole")}
                          ELSE JsonBodies(sh, level, {"exact", "decorated"}) \cup TextBodies(level, {"exact", "decorated"})

\* (content kind, shape) cells of a served response
Cells == {[c |-> "none", sh |-> "-"], [c |-> "octet", sh |-> "-"], [c |-> "sse", sh |-> "object"], [c |-> "ndjson", sh |-> "object"]}
           \cup [c : {"json", "json+text"}, sh : JsonShapes] \cup [c : {"text"}, sh : TextShapes]
           \cup [c : {"json"}, sh : MoreJsonShapes] \cup {[c |-> "json+text", sh |-> "nullobj"]}

\* ---------------------------------------------------------------------------------------------
\* declarations

Statuses == {"200", "201", "202", "204", "206", "207", "default"}
Code(st) == CASE st = "200" -> 200 [] st = "201" -> 201 [] st = "202" -> 202 [] st = "204" -> 204 [] st = "206" -> 206 [] st = "207" -> 207 [] OTHER -> 0
\* the status the server answers with when the served response is the `default` one (a 2xx status no key names)
DefaultServed == 203
ServedCode(st) == IF st = "default" THEN DefaultServed ELSE Code(st)

Filler(st) == IF st = "204" THEN [c |-> "none", sh |-> "-"] ELSE [c |-> "json", sh |-> "other"]

\* the primary (signature-defining) success response by the documented priority: the first of `order` that is declared,
\* then any other 2xx key (206 is the only one here), then default
\* (ds = the keys of the `responses` map in DOCUMENT order: "any other 2xx" means the FIRST one declared)
PrimaryBy(order, d, ds) ==
  LET hits == SelectSeq(order, LAMBDA st : st \in DOMAIN d)
      twos == SelectSeq(ds, LAMBDA st : st # "default")
  IN  IF Len(hits) > 0 THEN hits[1]
      ELSE IF Len(twos) > 0 THEN twos[1]
      ELSE IF "default" \in DOMAIN d THEN "default"
      ELSE CHOOSE st \in DOMAIN d : TRUE
DocOrder == <<"200", "201", "202", "204">>

\* The responses of an operation are a SEQUENCE (the `responses` map in document order), not a set.  Orders of the family:
\* "asc" ascending status with `default` last (the usual habit), "desc" the reverse, "rot" the ascending order rotated by one
Orders == {"asc", "desc", "rot"}
Rank(st) == IF st = "default" THEN 999 ELSE Code(st)
KeySeq(keys, ord) ==
  LET asc == SortSeq(SetToSeq(keys), LAMBDA a, b : Rank(a) < Rank(b))
  IN  IF ord = "desc" THEN Reverse(asc) ELSE IF ord = "rot" /\ Len(asc) > 1 THEN Tail(asc) \o <<Head(asc)>> ELSE asc
\* document order of a scenario's `responses` map
DocSeq(sc) == KeySeq(sc.others \cup {sc.served}, sc.ord)

\* How the served response is DECLARED (`share`):
\*   "inline"            in the operation itself
\*   "ref"               `$ref: #/components/responses/R`, referenced by this operation only
\*   "co_same_before/after"   R is also referenced by a COMPANION operation of the same document under the SAME status; the
\*                       companion comes before / after this operation in `paths`
\*   "co_other_before/after"  ... under a DIFFERENT status (CoStatus)
\* The companion is an operation of its own (own path, own tag) whose only response is that reference; it is called too.
Shares == {"inline", "ref", "co_same_before", "co_same_after", "co_other_before", "co_other_after"}
HasCompanion(sh) == sh \in {"co_same_before", "co_same_after", "co_other_before", "co_other_after"}
AltStatus(st) == IF st = "200" THEN "201" ELSE "200"
CoStatus(sc) == IF sc.share \in {"co_same_before", "co_same_after"} THEN sc.served ELSE AltStatus(sc.served)
MirrorShare(sh) == CASE sh = "co_same_before" -> "co_same_after" [] sh = "co_same_after" -> "co_same_before"
                     [] sh = "co_other_before" -> "co_other_after" [] sh = "co_other_after" -> "co_other_before" [] OTHER -> sh

\* a scenario: the served response + the other declared statuses + sib: the operation's tag (= its emitted endpoint
\* module) holds a second, ordinary operation (GET returning a JSON model) - or the operation is alone in its module
Decl(sc) == [st \in sc.others \cup {sc.served} |-> IF st = sc.served THEN sc.cell ELSE Filler(st)]

Scenarios(maxDecl) ==
  {[served |-> st, cell |-> cell, others |-> o, sib |-> sib, ord |-> ord, share |-> share] :
      st \in Statuses, cell \in Cells, o \in UNION {kSubset(n, Statuses) : n \in 0..(maxDecl - 1)}, sib \in BOOLEAN,
      ord \in Orders, share \in Shares}

\* Stratification: the ORDER of the responses and the way the served response is DECLARED concern the selection / parsing
\* logic, not the extraction of a particular body shape - they are crossed with a few representative cells, all the cells
\* are crossed with the usual order and an inline declaration.
OrderCells == {[c |-> "json", sh |-> "object"], [c |-> "json", sh |-> "prim"], [c |-> "json+text", sh |-> "object"],
               [c |-> "octet", sh |-> "-"], [c |-> "none", sh |-> "-"]}
ShareCells == {[c |-> "json", sh |-> "object"], [c |-> "json+text", sh |-> "object"], [c |-> "sse", sh |-> "object"]}
\* the companion operation of a scenario, as a scenario of its own
CoScenario(sc) == [served |-> CoStatus(sc), cell |-> sc.cell, others |-> {}, sib |-> FALSE, ord |-> "asc", share |-> MirrorShare(sc.share)]
WellFormedScenario(sc) ==
  /\ sc.served \notin sc.others
  /\ sc.served = "204" => sc.cell.c = "none"
  \* `default` is served (with a 2xx status no key names) only where the document makes it THE success response: it is
  \* the only response and has content.  Next to explicit 2xx keys, or without content, it is the usual "any error" entry
  \* and the property gives a 2xx answer under it no meaning (it stays in the family as a filler).
  /\ sc.served = "default" => (sc.cell.c # "none" /\ sc.others = {})
  \* the family fixes the irrelevant dimension: a sibling operation is added where the served response is not handled by
  \* the operation's one ResponseStrategy alone (several content types, or a secondary response)
  /\ sc.sib => (sc.cell.c = "json+text" \/ (sc.served # "default" /\ sc.served # PrimaryBy(DocOrder, Decl(sc), DocSeq(sc))))
  \* 207 is in the family for the "any other 2xx" rule: only where none of 200/201/202/204 is declared (elsewhere it
  \* would repeat 206); the order of the map is varied exactly where that rule has a choice (206 and 207 both declared)
  /\ "207" \in (sc.others \cup {sc.served}) => (sc.others \cup {sc.served}) \cap {"200", "201", "202", "204"} = {}
  \* order: every declared set of two or more keys also reversed, of three or more also rotated - with the representative
  \* cells; with ALL cells where "first declared other 2xx" has a choice (206 and 207 both declared, reversed)
  /\ sc.ord # "asc" =>
        /\ Cardinality(sc.others) >= (IF sc.ord = "rot" THEN 2 ELSE 1)
        /\ sc.share = "inline"
        /\ \/ (sc.cell \in OrderCells /\ ~sc.sib)
           \/ (sc.ord = "desc" /\ {"206", "207"} \subseteq (sc.others \cup {sc.served}))
  \* declaration by reference / shared with a companion operation: representative cells, alone or next to one other key
  /\ sc.share # "inline" =>
        /\ sc.cell \in ShareCells /\ ~sc.sib /\ sc.served # "204"
        /\ Cardinality(sc.others) <= 1
        /\ sc.others # {} => (sc.cell = [c |-> "json", sh |-> "object"] /\ sc.share \in {"ref", "co_other_before", "co_other_after"})

\* ---------------------------------------------------------------------------------------------
\* reference meaning (what the property promises) - independent of any selection logic

ExpectedReply(b) ==
  CASE b.ct = "none"   -> [mode |-> "none",   tree |-> NoTree, items |-> <<>>]
    [] b.ct = "json"   -> [mode |-> "json",   tree |-> b.tree, items |-> <<>>]
    [] b.ct = "text"   -> [mode |-> "text",   tree |-> b.tree, items |-> <<>>]
    [] b.ct = "octet"  -> [mode |-> "chunks", tree |-> NoTree, items |-> b.items]
    [] b.ct = "sse"    -> [mode |-> "items",  tree |-> NoTree, items |-> b.items]
    [] b.ct = "ndjson" -> [mode |-> "items",  tree |-> NoTree, items |-> b.items]

\* top-level python kinds a conforming value of a declared JSON shape may have
ShapeKinds(sh) ==
  CASE sh \in {"object", "union", "other", "nullobj"} -> {"model"}
    [] sh \in {"array", "arralias", "nullarr"}       -> {"list"}
    [] sh = "bool"                        -> {"bool"}
    [] sh \in {"primalias", "str"}        -> {"str"}
    [] sh = "map"                         -> {"model", "dict"}
    [] sh = "prim"                        -> {"int"}
    [] OTHER                              -> {}

\* the octets of a chunk sequence (base64 texts of 3k-byte chunks concatenate)
RECURSIVE CatB64(_)
CatB64(q) == IF Len(q) = 0 THEN "" ELSE q[1].s \o CatB64(Tail(q))

\* An OUTCOME is what the caller saw:
\*   [kind : "return" | "items" | "raise", pykind : python kind of the returned value ("none", "model:Thing", "dict", ...),
\*    pyclass : the same without the class name ("model"),
\*    tree : the value re-serialised, items : yielded items re-serialised, itemkinds : set of their python kinds,
\*    cat : base64 of the concatenation of yielded bytes items ("" otherwise), exc : exception type name]
Outcome(kind, pykind, pyclass, tree, items, itemkinds, cat, exc) ==
  [kind |-> kind, pykind |-> pykind, pyclass |-> pyclass, tree |-> tree, items |-> items, itemkinds |-> itemkinds, cat |-> cat, exc |-> exc]
Returned(pykind, tree) == Outcome("return", pykind, KindClass(pykind), tree, <<>>, {}, "", "")
Yielded(items, kinds, cat) == Outcome("items", "", "", NoTree, items, kinds, cat, "")
Raised(exc) == Outcome("raise", "", "", NoTree, <<>>, {}, "", exc)
NoOutcome == Outcome("none", "", "", NoTree, <<>>, {}, "", "")

CTypeName(ct) == CASE ct = "json" -> "application/json" [] ct = "text" -> "text/plain" [] ct = "octet" -> "application/octet-stream"
                   [] ct = "sse" -> "text/event-stream" [] ct = "ndjson" -> "application/x-ndjson" [] OTHER -> ""

\* The context of one call: [role : "primary" | "secondary" | "default", c : declared content kind of the served response,
\*   sh : declared shape, via : "method" | "helper:<name>"]
Ctx(role, c, sh, via) == [role |-> role, c |-> c, sh |-> sh, via |-> via]

Locus(ctx, b, o, why) ==
  [ctype |-> CTypeName(b.ct), role |-> ctx.role, shape |-> ctx.sh, multi_content |-> (ctx.c = "json+text"),
   exctype |-> o.exc, why |-> why, pykind |-> o.pyclass, via |-> ctx.via]
Fail(clause, ctx, b, o, why) == [clause |-> clause, locus |-> Locus(ctx, b, o, why)]

\* does the annotation (set of admitted kinds; "any" admits everything) admit the kind?
Admits(ann, pk) == "any" \in ann \/ pk \in ann
AdmitsItems(ann, kinds) == "any" \in ann \/ "aiter:any" \in ann \/ \A k \in kinds : ("aiter:" \o k) \in ann

\* every failing clause of one call
Failures(ctx, b, ann, o) ==
  LET e == ExpectedReply(b) IN
  IF o.kind = "raise" THEN {Fail("C05.raised", ctx, b, o, "")}
  ELSE IF e.mode = "none" THEN
        (IF o.kind = "return" /\ o.pykind = "none" THEN {} ELSE {Fail("C05.none_expected", ctx, b, o, "")})
  ELSE IF e.mode = "json" THEN
        IF o.kind # "return" THEN {Fail("C05.kind", ctx, b, o, "not_a_value")}
        ELSE (IF Approx(e.tree, o.tree) THEN {} ELSE {Fail("C05.value", ctx, b, o, "")})
             \cup (IF o.pyclass \notin (IF e.tree.t = "null" THEN {"none"} ELSE ShapeKinds(ctx.sh)) THEN {Fail("C05.kind", ctx, b, o, "declared")}
                   ELSE IF ~Admits(ann, o.pykind) THEN {Fail("C05.kind", ctx, b, o, "annotation")} ELSE {})
  ELSE IF e.mode = "text" THEN
        IF o.kind # "return" \/ o.pykind # "str" \/ o.tree # e.tree THEN {Fail("C05.text", ctx, b, o, "")}
        ELSE IF ~Admits(ann, o.pykind) THEN {Fail("C05.kind", ctx, b, o, "annotation")} ELSE {}
  ELSE IF e.mode = "chunks" THEN
        \* binary: the octets sent, as one bytes value or as a stream of chunks (a transport may re-cut chunks)
        IF o.kind = "return" THEN
             (IF o.pykind = "bytes" /\ o.tree.s = CatB64(e.items) THEN {} ELSE {Fail("C05.bytes", ctx, b, o, "")})
             \cup (IF ~Admits(ann, o.pykind) THEN {Fail("C05.kind", ctx, b, o, "annotation")} ELSE {})
        ELSE (IF o.itemkinds \subseteq {"bytes"} /\ o.cat = CatB64(e.items) THEN {}
              ELSE IF SameBag(o.items, e.items) THEN {Fail("C05.stream_order", ctx, b, o, "")}
              ELSE {Fail("C05.stream_items", ctx, b, o, "")})
             \cup (IF ~AdmitsItems(ann, o.itemkinds) THEN {Fail("C05.kind", ctx, b, o, "annotation")} ELSE {})
  ELSE \* "items": events / records, in order
        IF o.kind # "items" THEN {Fail("C05.stream_items", ctx, b, o, "not_a_stream")}
        ELSE (IF ApproxSeq(e.items, o.items) THEN {}
              ELSE IF SameBag(o.items, e.items) THEN {Fail("C05.stream_order", ctx, b, o, "")}
              ELSE {Fail("C05.stream_items", ctx, b, o, IF Len(o.items) = 0 THEN "nothing_yielded" ELSE "")})
             \cup (IF ~AdmitsItems(ann, o.itemkinds) THEN {Fail("C05.kind", ctx, b, o, "annotation")} ELSE {})

Holds(ctx, b, ann, o) == Failures(ctx, b, ann, o) = {}

\* ---------------------------------------------------------------------------------------------
\* implementation-shaped model

Variants == {"as_is", "fixed", "sig201", "hdl201", "sigsorted", "hdlfirst"}

\* the priority list of the two copies of the primary-response selection
SigOrder(v) == IF v = "sig201" THEN <<"201", "200", "202", "204">> ELSE DocOrder
HdlOrder(v) == IF v = "hdl201" THEN <<"201", "200", "202", "204">> ELSE DocOrder

\* ("sigsorted": the signature copy takes the LOWEST other 2xx instead of the first declared one)
PrimarySig(v, d, ds) == PrimaryBy(SigOrder(v), d, IF v = "sigsorted" THEN KeySeq(DOMAIN d, "asc") ELSE ds)
\* ("hdlfirst": the handler copy takes the FIRST DECLARED of 200/201/202/204 instead of the first by priority)
PrimaryHdl(v, d, ds) ==
  LET pri == SelectSeq(ds, LAMBDA st : st \in {"200", "201", "202", "204"})
  IN  IF v = "hdlfirst" /\ Len(pri) > 0 THEN pri[1] ELSE PrimaryBy(HdlOrder(v), d, ds)

\* python type the resolver gives a schema
TypeOf(sh) == CASE sh = "object" -> "Thing" [] sh = "array" -> "List[Thing]" [] sh = "primalias" -> "Label"
                [] sh = "arralias" -> "ThingList" [] sh = "union" -> "Pick" [] sh = "map" -> "Bag" [] sh = "prim" -> "int"
                [] sh = "str" -> "str" [] sh = "other" -> "Other" [] sh = "bool" -> "bool"
                [] sh = "nullarr" -> "MaybeThings | None" [] sh = "nullobj" -> "Prefs | None" [] OTHER -> "bytes"
\* _should_use_cattrs_structure
UsesCattrs(ty) == ty \in {"Thing", "List[Thing]", "ThingList", "Pick", "Bag", "Other", "MaybeThings | None", "Prefs | None"}
\* kinds a value of that python type has at run time
TypeKinds(ty) == CASE ty = "Thing" -> {"model:Thing"} [] ty = "Other" -> {"model:Other"} [] ty \in {"List[Thing]", "ThingList"} -> {"list"}
                   [] ty \in {"Label", "str"} -> {"str"} [] ty = "Pick" -> {"model:Cat", "model:Dog"} [] ty = "Bag" -> {"model:Bag"}
                   [] ty = "int" -> {"int"} [] ty = "bytes" -> {"bytes"} [] ty = "bool" -> {"bool"}
                   [] ty = "MaybeThings | None" -> {"list", "none"} [] ty = "Prefs | None" -> {"model:Prefs", "none"} [] OTHER -> {}

\* the ResponseStrategy of a response r = [c, sh]:
\*   [k : "none" | "aiter_bytes" | "aiter_json" | "switch" | "text" | "type", ty : python type (k = "type" / json branch of "switch" / item type)]
Strategy(r) ==
  CASE r.c = "none"   -> [k |-> "none", ty |-> "None"]
    [] r.c = "octet"  -> [k |-> "aiter_bytes", ty |-> "bytes"]
    [] r.c = "sse"    -> [k |-> "aiter_json", ty |-> "dict"]
    [] r.c = "ndjson" -> [k |-> "aiter_json", ty |-> TypeOf(r.sh)]
    [] r.c = "json+text" ->
         \* one unique resolved type => no Union => the Content-Type switch is never emitted
         IF TypeOf(r.sh) = "str" THEN [k |-> "type", ty |-> "str"] ELSE [k |-> "switch", ty |-> TypeOf(r.sh)]
    \* (repairs 27387a3 + ce4271b, _write_strategy_based_return: a plain string schema - inline, or a `$ref` to a string
    \* alias without enum / format - AND every declared content type text/* => `return response.text`)
    [] r.c = "text" /\ TypeOf(r.sh) \in {"str", "Label"} -> [k |-> "text", ty |-> TypeOf(r.sh)]
    [] OTHER -> [k |-> "type", ty |-> TypeOf(r.sh)]

\* what the signature's annotation admits
StrategyAnn(s) ==
  CASE s.k = "none"        -> {"none"}
    [] s.k = "aiter_bytes" -> {"aiter:bytes"}
    [] s.k = "aiter_json"  -> IF s.ty = "dict" THEN {"aiter:dict"} ELSE {"aiter:" \o k : k \in TypeKinds(s.ty)}
    [] s.k = "switch"      -> TypeKinds(s.ty) \cup {"str"}
    [] OTHER               -> TypeKinds(s.ty)

\* what a "fixed" signature would admit: every declared response's own kinds
FixedStrategy(r) ==
  CASE r.c = "text"      -> [k |-> "text", ty |-> "str"]
    [] r.c = "ndjson"    -> [k |-> "aiter_records", ty |-> TypeOf(r.sh)]
    [] r.c = "json+text" -> [k |-> "switch", ty |-> TypeOf(r.sh)]
    [] OTHER             -> Strategy(r)
FixedAnn(s) == IF s.k = "text" THEN {"str"} ELSE IF s.k = "aiter_records" THEN {"aiter:" \o k : k \in TypeKinds(s.ty)} ELSE StrategyAnn(s)

Ann(v, d, ds) == IF v = "fixed" THEN UNION {FixedAnn(FixedStrategy(d[st])) : st \in DOMAIN d}
                 ELSE StrategyAnn(Strategy(d[PrimarySig(v, d, ds)]))

\* ---- run-time pieces of the emitted code

\* response.json() on the served body
ParsesAsJson(b) == \/ b.ct = "json"
                   \/ b.ct = "text" /\ b.tree.s = "7"
                   \/ b.ct = "text" /\ b.tree.s = "{\"id\": 1}"
                   \/ b.ct = "ndjson" /\ Len(b.items) = 1
ParsedJson(b) == IF b.ct = "json" THEN b.tree
                 ELSE IF b.ct = "ndjson" THEN b.items[1]
                 ELSE IF b.tree.s = "7" THEN JInt(7) ELSE JObj(<<KV("id", JInt(1))>>)

ModelFields(m) == CASE m = "Thing" -> <<"id", "name", "nums", "tag">> [] m = "Other" -> <<"code", "note">>
                    [] m = "Cat" -> <<"lives", "meow">> [] m = "Dog" -> <<"bark", "tricks">> [] m = "Prefs" -> <<"compact", "theme">>
\* structure_from_dict(json, Model): required members must be there, an absent optional scalar becomes None,
\* an absent optional list becomes []; unknown members are dropped
StructModel(m, j) ==
  LET fs == ModelFields(m)
      ok == j.t = "obj" /\ \A i \in 1..Len(fs) : KeyRole(fs[i]) = "req" => fs[i] \in Keys(j)
      val(k) == IF k \in Keys(j) THEN Get(j, k) ELSE IF KeyRole(k) = "opt_list" THEN JArr(<<>>) ELSE JNull
  IN  IF ok THEN Returned("model:" \o m, JObj(MapSeq(LAMBDA k : KV(k, val(k)), fs))) ELSE Raised("ValueError")

StructList(j) ==
  IF j.t # "arr" THEN Raised("ValueError")
  ELSE LET rs == MapSeq(LAMBDA x : StructModel("Thing", x), Elems(j))
       IN  IF \E i \in 1..Len(rs) : rs[i].kind = "raise" THEN Raised("ValueError")
           ELSE Returned("list", JArr(MapSeq(LAMBDA r : r.tree, rs)))

Structure(ty, j) ==
  CASE ty = "Thing" -> StructModel("Thing", j)
    [] ty = "Other" -> StructModel("Other", j)
    [] ty \in {"List[Thing]", "ThingList"} -> StructList(j)
    [] ty = "Pick"  -> IF j.t = "obj" /\ "meow" \in Keys(j) THEN StructModel("Cat", j)
                       ELSE IF j.t = "obj" /\ "bark" \in Keys(j) THEN StructModel("Dog", j) ELSE Raised("ValueError")
    [] ty = "Bag"   -> IF j.t = "obj" THEN Returned("model:Bag", j) ELSE Raised("ValueError")
    \* `structure_from_dict(response.json(), T) if response.json() is not None else None`
    [] ty = "MaybeThings | None" -> IF j.t = "null" THEN Returned("none", JNull) ELSE StructList(j)
    [] ty = "Prefs | None"       -> IF j.t = "null" THEN Returned("none", JNull) ELSE StructModel("Prefs", j)

\* `return structure_from_dict(response.json(), T)` / `return cast(T, response.json())`;  imp = the endpoint module
\* imports structure_from_dict (the NAME is looked up before response.json() is evaluated)
JsonError(b) == IF b.ct = "octet" /\ \E i \in 1..Len(b.items) : b.items[i].s = "/2Nk" THEN "UnicodeDecodeError"   \* 0xFF: not UTF-8
                ELSE "JSONDecodeError"
\* nullable named schemas: `structure_from_dict(response.json(), T) if response.json() is not None else None` - the
\* condition (body parsed, compared with None) is evaluated before the name structure_from_dict is looked up
IsNullable(ty) == ty \in {"MaybeThings | None", "Prefs | None"}
FromJson(imp, ty, b) ==
  IF IsNullable(ty) THEN
      IF ~ParsesAsJson(b) THEN Raised(JsonError(b))
      ELSE IF ParsedJson(b).t = "null" THEN Returned("none", JNull)
      ELSE IF ~imp THEN Raised("NameError")
      ELSE Structure(ty, ParsedJson(b))
  ELSE IF UsesCattrs(ty) /\ ~imp THEN Raised("NameError")
  ELSE IF ~ParsesAsJson(b) THEN Raised(JsonError(b))
  ELSE IF UsesCattrs(ty) THEN Structure(ty, ParsedJson(b))
  ELSE Returned(RawKind(ParsedJson(b)), ParsedJson(b))

ServedText(b) == IF b.ct = "text" THEN b.tree ELSE JStr("?")

\* the streaming loops
IterBytes(b) == IF b.ct = "octet" THEN Yielded(b.items, {b.items[i].t : i \in 1..Len(b.items)}, CatB64(b.items))
                ELSE Yielded(<<JBytes("?")>>, {"bytes"}, "?")
\* iter_sse_events_text + json.loads: only `data:` fields count - NDJSON lines carry none
IterSseJson(b) == IF b.ct = "sse" THEN Yielded(b.items, {RawKind(b.items[i]) : i \in 1..Len(b.items)}, "")
                  ELSE Yielded(<<>>, {}, "")
IterRecords(ty, b) ==
  LET rs == MapSeq(LAMBDA x : Structure(ty, x), b.items)
  IN  IF \E i \in 1..Len(rs) : rs[i].kind = "raise" THEN Raised("ValueError")
      ELSE Yielded(MapSeq(LAMBDA r : r.tree, rs), {rs[i].pykind : i \in 1..Len(rs)}, "")

\* _write_strategy_based_return for strategy s on body b
StrategyReturn(imp, s, b) ==
  CASE s.k = "none"        -> Returned("none", JNull)
    [] s.k = "aiter_bytes" -> IterBytes(b)
    [] s.k = "aiter_json"  -> IterSseJson(b)
    [] s.k = "switch"      -> IF b.ct = "json" THEN FromJson(imp, s.ty, b) ELSE Returned("str", ServedText(b))
    [] s.k = "text"        -> Returned("str", ServedText(b))
    [] s.k = "aiter_records" -> IterRecords(s.ty, b)                        \* (fixed only)
    [] OTHER               -> FromJson(imp, s.ty, b)

\* `from <core>.cattrs_converter import structure_from_dict` is registered ONLY by the cattrs branch of
\* _write_strategy_based_return (:567-572) - not by the Content-Type switch (:695-699) nor by the secondary-2xx branch
\* (:476-479).  Every scenario is its own endpoint module (own tag): nothing else brings the name in, unless the module
\* has the sibling operation (a plain JSON-model GET, which takes the cattrs branch).
CattrsImported(v, d, ds, sib) == v = "fixed" \/ sib \/ LET s == Strategy(d[PrimarySig(v, d, ds)]) IN s.k = "type" /\ UsesCattrs(s.ty)

\* a streaming primary response makes the method an async generator (`yield`); every further numeric 2xx key adds a
\* `return <expr>` (`return None` included) to the same function: SyntaxError, the whole client package cannot be imported
IsStreaming(s) == s.k \in {"aiter_bytes", "aiter_json"}
Unimportable(v, d, ds) ==
  /\ v # "fixed"
  /\ IsStreaming(Strategy(d[PrimarySig(v, d, ds)]))
  /\ \E st \in DOMAIN d : st # "default" /\ st # PrimaryHdl(v, d, ds)

\* which `case` of the emitted match statement fires for the served status
CaseOf(v, d, ds, st) ==
  LET p == PrimaryHdl(v, d, ds)
  IN  IF st = p /\ p # "default" THEN "primary"
      ELSE IF st # "default" THEN "secondary"
      ELSE "default"

\* other 2xx keys: always response.json(), typed by the response's own (JSON-preferred) schema
SecondaryReturn(imp, r, b) ==
  IF r.c = "none" THEN Returned("none", JNull) ELSE FromJson(imp, TypeOf(r.sh), b)

\* `case _:  # Default response` - parsed with the PRIMARY's strategy when the default response has content
DefaultReturn(v, d, ds, imp, b) ==
  LET s == Strategy(d[PrimarySig(v, d, ds)])
  IN  IF d["default"].c # "none" /\ s.k # "none" THEN StrategyReturn(imp, s, b) ELSE Raised("HTTPError")

ModelOutcome(v, d, ds, sib, st, b) ==
  IF v = "fixed" THEN StrategyReturn(TRUE, FixedStrategy(d[st]), b)
  ELSE IF Unimportable(v, d, ds) THEN Raised("SyntaxError")
  ELSE LET c == CaseOf(v, d, ds, st)
           imp == CattrsImported(v, d, ds, sib)
       IN  IF c = "primary" THEN StrategyReturn(imp, Strategy(d[PrimarySig(v, d, ds)]), b)
           ELSE IF c = "secondary" THEN SecondaryReturn(imp, d[st], b)
           ELSE DefaultReturn(v, d, ds, imp, b)

\* the caller-side role of the served response (what the DOCUMENT says, by the documented priority)
RoleOf(d, ds, st) == IF st = "default" THEN "default" ELSE IF st = PrimaryBy(DocOrder, d, ds) THEN "primary" ELSE "secondary"

\* comparable projection of an outcome (model vs. code; differences are DRIFT, never a failure)
\* (a transport may re-cut binary chunks: binary streams are compared by their octets, other streams by their length)
Project(o) == [kind |-> o.kind, pykind |-> o.pyclass, tree |-> Norm(o.tree),
               n |-> IF o.itemkinds = {"bytes"} THEN 0 ELSE Len(o.items), cat |-> o.cat,
               exc |-> IF o.kind = "raise" THEN "raise" ELSE ""]
=============================================================================
