------------------------------- MODULE OpLoad -------------------------------
(***************************************************************************)
(* X05 - the operation loader: OpenAPI document -> IR of operations.       *)
(*                                                                         *)
(* PART 1  documents as data (path items with their KEY ORDER, shared      *)
(*         `parameters`, non-method keys, operations of all eight methods, *)
(*         parameters / request bodies / responses inline or by `$ref`,    *)
(*         reference chains through the component tables)                  *)
(* PART 2  the reference semantics, independent of the code under test:    *)
(*         Meaning(doc) = the operations the OpenAPI specification says    *)
(*         the document declares (effective parameters after reference     *)
(*         resolution and the override rule, body content, response table) *)
(*         and Strict(doc) = "the document is valid"                       *)
(* PART 3  what is observed of a loader (Obs, one per load) and the judge: *)
(*         the named statements OneIROpPerDeclaredOp, EffectiveParams,     *)
(*         RefTransparent, NoCrossTalk, ResponseTable, BodyContent, Total  *)
(*         as ONE operator used by the design check and by the monitor     *)
(* PART 4  loaders as operators: Ideal (read off Meaning), AsIs (the shape *)
(*         of pyopenapi_gen.core.loader - DRIFT side only), Leaky (a cache *)
(*         of parsed component responses: shows the statements have teeth) *)
(* PART 5  document transformations (Inline, Only, RevItems, RevKeys) and  *)
(*         the bounded families                                            *)
(***************************************************************************)
EXTENDS Naturals, Sequences, FiniteSets, TLC

Range(s) == {s[i] : i \in 1..Len(s)}
Map(s, F(_)) == [i \in 1..Len(s) |-> F(s[i])]
Rev(s) == [i \in 1..Len(s) |-> s[Len(s) + 1 - i]]
RECURSIVE Cat(_)
Cat(ss) == IF ss = <<>> THEN <<>> ELSE Head(ss) \o Cat(Tail(ss))

(* ======================================================================= *)
(* PART 1 - documents                                                      *)
(* ======================================================================= *)
MethodSeq == <<"get", "put", "post", "delete", "options", "head", "patch", "trace">>
MethodSet == Range(MethodSeq)
ExtraKeys == {"summary", "description", "servers", "x-meta", "x-list"}    \* non-method keys of a path item

\* schema of a parameter / media type:  prim(type) | ref(component schema) | obj(marker property: an inline object) |
\* enumarr (array of an inline string enum) | none (a media type object without `schema`) |
\* content(component schema or type): a PARAMETER that declares `content: {application/json: {schema: ..}}` instead of `schema`
Sc(k, a) == [k |-> k, a |-> a]
SStr == Sc("prim", "string")
SInt == Sc("prim", "integer")
SPet == Sc("ref", "Pet")
SProblem == Sc("ref", "Problem")
SObj(m) == Sc("obj", m)
SEnumArr == Sc("enumarr", "")
SNone == Sc("none", "")
SchemaProps == [Pet |-> "id,name", Problem |-> "detail"]                  \* components/schemas: property names

\* parameter node: inline (ref = "") or {"$ref": "#/components/parameters/<ref>"}
PIn(name, loc, req, sch) == [ref |-> "", name |-> name, loc |-> loc, req |-> req, sch |-> sch]
PRef(n) == [ref |-> n, name |-> "", loc |-> "", req |-> FALSE, sch |-> SNone]
\* media type entry, request body node (decl: none | inline | ref; req: absent | true | false), response node
JSON == "application/json"
FORM == "application/x-www-form-urlencoded"
TEXT == "text/plain"
XML == "application/xml"
CT(ct, sch) == [ct |-> ct, sch |-> sch]
BIn(req, cts) == [decl |-> "inline", ref |-> "", req |-> req, cts |-> cts]
BRef(n) == [decl |-> "ref", ref |-> n, req |-> "absent", cts |-> <<>>]
BNone == [decl |-> "none", ref |-> "", req |-> "absent", cts |-> <<>>]
RIn(cts) == [ref |-> "", cts |-> cts]
RRef(n) == [ref |-> n, cts |-> <<>>]
\* one entry of `responses`: the key as text, whether the document spells it as a YAML integer, the node
RE(key, isint, r) == [key |-> key, int |-> isint, r |-> r]

\* the component tables every document of the family carries (Gen_OpLoad prints them; the harness concretises THAT)
CParam == [Lim |-> PIn("limit", "query", FALSE, SInt), Id |-> PIn("id", "path", TRUE, SStr),
           Flt |-> PIn("filter", "query", FALSE, SObj("mf")), Srt |-> PIn("sort", "query", TRUE, SEnumArr),
           Hdr |-> PIn("limit", "header", FALSE, SStr), LimAlias |-> PRef("Lim"), IdAlias |-> PRef("Id")]
CBody == [PetBody |-> BIn("true", <<CT(JSON, SPet)>>),
          MultiBody |-> BIn("absent", <<CT(JSON, SObj("mb")), CT(FORM, SObj("mb")), CT(TEXT, SStr)>>),
          BodyAlias |-> BRef("PetBody")]
CResp == [PetResp |-> RIn(<<CT(JSON, SPet)>>), Err |-> RIn(<<CT(JSON, SObj("msg"))>>), Empty |-> RIn(<<>>),
          Multi |-> RIn(<<CT(JSON, SProblem), CT(TEXT, SStr)>>), ErrAlias |-> RRef("Err"), PetAlias |-> RRef("PetResp")]

\* operation, path item, document.  item.keys = the keys of the path item in document order: "parameters" (iff the
\* item declares the list, possibly empty), extra keys, and the method of every operation (ops is in that order)
MkOp(m, opid, tags, params, body, resps, dep, sec) ==
  [m |-> m, opid |-> opid, tags |-> tags, params |-> params, body |-> body, resps |-> resps, dep |-> dep, sec |-> sec]
Item(path, keys, params, ops) == [path |-> path, keys |-> keys, params |-> params, ops |-> ops]
Doc(items) == [items |-> items]

WellFormed(doc) ==
  \A i \in 1..Len(doc.items) :
    LET it == doc.items[i] IN
    /\ SelectSeq(it.keys, LAMBDA k : k \in MethodSet) = Map(it.ops, LAMBDA o : o.m)
    /\ \A a, b \in 1..Len(it.keys) : a # b => it.keys[a] # it.keys[b]
    /\ Range(it.keys) \subseteq MethodSet \cup ExtraKeys \cup {"parameters"}
    /\ (it.params # <<>> => "parameters" \in Range(it.keys))
    /\ \A j \in 1..Len(it.ops) : it.ops[j].resps # <<>> /\ \A a, b \in 1..Len(it.ops[j].resps) : a # b => it.ops[j].resps[a].key # it.ops[j].resps[b].key
    /\ \A j \in 1..i - 1 : doc.items[j].path # it.path

(* ======================================================================= *)
(* PART 2 - what the OpenAPI specification says the document declares      *)
(* ======================================================================= *)
(* "$ref": a Reference Object stands for the object it points at; the      *)
(* component maps may themselves hold Reference Objects (Components Object:*)
(* "Map[string, Parameter Object | Reference Object]").                    *)
RECURSIVE DerefP(_)
DerefP(p) == IF p.ref = "" THEN p ELSE DerefP(CParam[p.ref])
RECURSIVE DerefB(_)
DerefB(b) == IF b.decl = "ref" THEN DerefB(CBody[b.ref]) ELSE b
RECURSIVE DerefR(_)
DerefR(r) == IF r.ref = "" THEN r ELSE DerefR(CResp[r.ref])

(* Operation Object, `parameters`: "If a parameter is already defined at   *)
(* the Path Item, the new definition will override it but can never remove *)
(* it. ... A unique parameter is defined by a combination of a name and    *)
(* location."  The ORDER is what the loader itself promises ("start with   *)
(* the path-level parameters", then the operation's own): the surviving    *)
(* path-level parameters in their order, then the operation-level ones.    *)
PKey(p) == <<p.name, p.loc>>
PMean(p) == [name |-> p.name, loc |-> p.loc, req |-> p.req, sch |-> p.sch]
EffParams(it, op) ==
  LET pl == Map(it.params, DerefP)
      ol == Map(op.params, DerefP)
      okeys == {PKey(ol[i]) : i \in 1..Len(ol)}
  IN Map(SelectSeq(pl, LAMBDA p : PKey(p) \notin okeys) \o ol, PMean)
Overridden(it, op) == {PKey(DerefP(p)) : p \in Range(it.params)} \cap {PKey(DerefP(p)) : p \in Range(op.params)}

BodyMeaning(b) ==
  LET r == DerefB(b) IN
  IF r.decl = "none" THEN [present |-> FALSE, req |-> FALSE, cts |-> {}]
  ELSE [present |-> TRUE, req |-> r.req = "true", cts |-> Range(r.cts)]       \* `required` defaults to false
\* the response table: one entry per key; the key of a YAML integer is its decimal text
RespMeaning(op) == {[code |-> e.key, cts |-> Range(DerefR(e.r).cts)] : e \in Range(op.resps)}

OpMeaning(it, op) ==
  [path |-> it.path, m |-> op.m, opid |-> op.opid, tags |-> op.tags, params |-> EffParams(it, op),
   body |-> BodyMeaning(op.body), resps |-> RespMeaning(op)]
\* every key of a path item that is one of the eight methods declares an operation; no other key does
DeclIdx(doc) == UNION {{<<i, j>> : j \in 1..Len(doc.items[i].ops)} : i \in 1..Len(doc.items)}
Meaning(doc) == {OpMeaning(doc.items[x[1]], doc.items[x[1]].ops[x[2]]) : x \in DeclIdx(doc)}

(* validity (what `openapi-spec-validator` also says; the harness compares) *)
Templated == {"/a/{id}", "/b/{id}"}
KeyKind(e) == IF e.int THEN "int" ELSE IF e.key = "default" THEN "default"
              ELSE IF e.key \in {"1XX", "2XX", "3XX", "4XX", "5XX"} THEN "wild_upper"
              ELSE IF e.key \in {"1xx", "2xx", "3xx", "4xx", "5xx"} THEN "wild_lower" ELSE "code"
UniqueKeys(ps) == \A a, b \in 1..Len(ps) : a # b => PKey(DerefP(ps[a])) # PKey(DerefP(ps[b]))
DeclaredIds(doc) == {doc.items[x[1]].ops[x[2]].opid : x \in DeclIdx(doc)} \ {""}
DupIds(doc) == {id \in DeclaredIds(doc) : Cardinality({x \in DeclIdx(doc) : doc.items[x[1]].ops[x[2]].opid = id}) > 1}
OddKeys(doc) == {e.key : e \in {e \in UNION {Range(doc.items[x[1]].ops[x[2]].resps) : x \in DeclIdx(doc)} : KeyKind(e) \in {"int", "wild_lower"}}}
ParamsValid(doc) ==
  \A x \in DeclIdx(doc) :
    LET it == doc.items[x[1]]  op == it.ops[x[2]]
        hasid == \E p \in Range(EffParams(it, op)) : p.loc = "path" IN
    /\ UniqueKeys(it.params) /\ UniqueKeys(op.params)
    /\ (it.path \in Templated <=> hasid)
    /\ \A p \in Range(EffParams(it, op)) : p.loc = "path" => p.req /\ p.name = "id"
\* Strict = a valid document.  A document that is not strict only because of Offending keys (a duplicated
\* operationId, a response key spelled as a YAML integer or with a lower-case wildcard) may be loaded as the statements
\* say OR rejected visibly, the rejection naming one of those keys.
Strict(doc) == ParamsValid(doc) /\ DupIds(doc) = {} /\ OddKeys(doc) = {}
Offending(doc) == DupIds(doc) \cup OddKeys(doc)

(* ======================================================================= *)
(* PART 3 - observations and the judge                                     *)
(* ======================================================================= *)
(* IR schema as observed:  S == [ty, name, props, enum, ity, ienum]        *)
(* IR operation:           [path, m, opid, tags,                           *)
(*                          params : Seq [name, loc, req, sch : S],        *)
(*                          hasbody, breq, bcts : Seq [ct, sch : S],       *)
(*                          resps : Seq [code, codetype, cts : Seq ..]]    *)
(* one load:  Obs == [exc, mentions, skips : Seq [m, path, msg], ops]      *)
(*   exc = exception type ("" = returned), mentions = which of the         *)
(*   document's operationIds / response keys the message quotes            *)
(* runs of one document: Seq [kind, arg, obs]                              *)
(*   main | twin (Inline(doc)) | alone (Only(doc, arg)) | perm (arg)       *)
SBlank == [ty |-> "", name |-> "", props |-> "", enum |-> "", ity |-> "", ienum |-> ""]
IdealS(sc) ==
  CASE sc.k = "prim" -> [SBlank EXCEPT !.ty = sc.a]
    [] sc.k = "ref" -> [SBlank EXCEPT !.ty = "object", !.name = sc.a, !.props = SchemaProps[sc.a]]
    [] sc.k = "obj" -> [SBlank EXCEPT !.ty = "object", !.props = sc.a]
    [] sc.k = "enumarr" -> [SBlank EXCEPT !.ty = "array", !.ity = "string", !.ienum = "a,b"]
    [] sc.k = "none" -> SBlank
    [] sc.k = "content" -> IF sc.a \in DOMAIN SchemaProps THEN [SBlank EXCEPT !.ty = "object", !.name = sc.a, !.props = SchemaProps[sc.a]]
                           ELSE [SBlank EXCEPT !.ty = sc.a]
\* names the loader invents for inline schemas are its own business; the name of a declared component is not
NormS(s) == IF s.name \in DOMAIN SchemaProps THEN s ELSE [s EXCEPT !.name = ""]
SchOK(sc, s) == NormS(s) = IdealS(sc)
NormCts(cts) == Map(cts, LAMBDA c : [ct |-> c.ct, sch |-> NormS(c.sch)])
NormOp(o) == [o EXCEPT !.params = Map(o.params, LAMBDA p : [p EXCEPT !.sch = NormS(p.sch)]),
                       !.bcts = NormCts(o.bcts),
                       !.resps = Map(o.resps, LAMBDA r : [r EXCEPT !.cts = NormCts(r.cts)])]

Fail(clause, what, via, kk, msg, path, m) ==
  [clause |-> clause, what |-> what, via |-> via, kk |-> kk, msg |-> msg, path |-> path, m |-> m]

\* how a node is declared: inline | direct (a $ref to a component that is the object) | chain (to a component that is a $ref)
PVia(p) == IF p.ref = "" THEN "inline" ELSE IF CParam[p.ref].ref = "" THEN "direct" ELSE "chain"
BVia(b) == IF b.decl # "ref" THEN b.decl ELSE IF CBody[b.ref].decl = "ref" THEN "chain" ELSE "direct"
RVia(r) == IF r.ref = "" THEN "inline" ELSE IF CResp[r.ref].ref = "" THEN "direct" ELSE "chain"
Strongest(vs) == IF "chain" \in vs THEN "chain" ELSE IF "direct" \in vs THEN "direct" ELSE "inline"
OpParamVia(it, op) == Strongest({PVia(p) : p \in Range(it.params) \cup Range(op.params)})
\* the declaration(s) of the effective parameter with key k
KeyVia(it, op, k) == Strongest({PVia(p) : p \in {q \in Range(it.params) \cup Range(op.params) : PKey(DerefP(q)) = k}})

OpsAt(obs, path, m) == {k \in 1..Len(obs.ops) : obs.ops[k].path = path /\ obs.ops[k].m = m}
TheOp(obs, path, m) == obs.ops[CHOOSE k \in OpsAt(obs, path, m) : TRUE]
SkipsAt(obs, path, m) == {k \in 1..Len(obs.skips) : obs.skips[k].path = path /\ obs.skips[k].m = m}

(* ---- EffectiveParams: the IR's parameter list is the effective list *)
ParamFails(it, op, o) ==
  LET eff == EffParams(it, op)
      ek == {PKey(eff[i]) : i \in 1..Len(eff)}
      ik == {PKey(o.params[i]) : i \in 1..Len(o.params)}
      At(k) == {i \in 1..Len(o.params) : PKey(o.params[i]) = k}
      E(k) == eff[CHOOSE i \in 1..Len(eff) : PKey(eff[i]) = k]
      FK(what, via, kk) == Fail("EffectiveParams", what, via, kk, "", it.path, op.m)
      F(what, via) == FK(what, via, "")
      perkey(k) ==
        IF k \notin ik THEN {F("missing", KeyVia(it, op, k))}
        ELSE IF Cardinality(At(k)) > 1
             THEN {F(IF k \in Overridden(it, op) THEN "overridden_kept" ELSE "duplicated", KeyVia(it, op, k))}
        ELSE LET p == o.params[CHOOSE i \in At(k) : TRUE] IN
             (IF p.req # E(k).req THEN {F("required", KeyVia(it, op, k))} ELSE {})
               \cup (IF ~SchOK(E(k).sch, p.sch) THEN {FK("schema", KeyVia(it, op, k), E(k).sch.k)} ELSE {})
      fs == UNION {perkey(k) : k \in ek} \cup {F("undeclared", "none") : k \in ik \ ek}
  IN IF fs # {} THEN fs
     ELSE IF Map(o.params, PKey) # Map(eff, PKey) THEN {F("order", OpParamVia(it, op))} ELSE {}

(* ---- BodyContent: every declared request content type is in the IR, required flag preserved.                   *)
(* A body that declares no content type carries no obligation (there is nothing a client could send).             *)
CtFails(clause, decl, obs, via, kk, it, op) ==
  LET dk == {c.ct : c \in decl}
      okk == {obs[i].ct : i \in 1..Len(obs)}
      F(what) == Fail(clause, what, via, kk, "", it.path, op.m) IN
  {F(IF okk = {} THEN "content_lost" ELSE "content_type_missing") : c \in dk \ okk}
    \cup {F("content_type_undeclared") : c \in okk \ dk}
    \cup {F("schema") : c \in {d \in decl : \E i \in 1..Len(obs) : obs[i].ct = d.ct /\ ~SchOK(d.sch, obs[i].sch)}}
BodyFails(it, op, o) ==
  LET bm == BodyMeaning(op.body)
      via == BVia(op.body)
      F(what) == Fail("BodyContent", what, via, "", "", it.path, op.m) IN
  IF ~bm.present THEN (IF o.hasbody THEN {F("undeclared_body")} ELSE {})
  ELSE IF bm.cts = {} THEN {}
  ELSE IF ~o.hasbody THEN {F("body_lost")}
  ELSE CtFails("BodyContent", bm.cts, o.bcts, via, "", it, op) \cup (IF o.breq # bm.req THEN {F("required")} ELSE {})

(* ---- ResponseTable: every declared key yields exactly one IRResponse with that key, string-typed, content preserved *)
RespFails(it, op, o) ==
  LET F(what, e) == Fail("ResponseTable", what, RVia(e.r), KeyKind(e), "", it.path, op.m)
      At(key) == {i \in 1..Len(o.resps) : o.resps[i].code = key}
      perentry(e) ==
        IF At(e.key) = {} THEN {F("missing_key", e)}
        ELSE IF Cardinality(At(e.key)) > 1 THEN {F("duplicate_key", e)}
        ELSE LET r == o.resps[CHOOSE i \in At(e.key) : TRUE] IN
             (IF r.codetype # "str" THEN {F("not_string", e)} ELSE {})
               \cup CtFails("ResponseTable", Range(DerefR(e.r).cts), r.cts, RVia(e.r), KeyKind(e), it, op)
  IN UNION {perentry(e) : e \in Range(op.resps)}
       \cup {Fail("ResponseTable", "undeclared_key", "none", "", "", it.path, op.m) :
               i \in {i \in 1..Len(o.resps) : o.resps[i].code \notin {e.key : e \in Range(op.resps)}}}

(* ---- OneIROpPerDeclaredOp (with the identity the document gives the operation) and the per-operation clauses *)
OpFails(it, op, obs) ==
  LET ks == OpsAt(obs, it.path, op.m)
      sk == SkipsAt(obs, it.path, op.m)
      F(what, msg) == Fail("OneIROpPerDeclaredOp", what, OpParamVia(it, op), "", msg, it.path, op.m) IN
  IF ks = {} THEN {F(IF sk = {} THEN "dropped_silently" ELSE "dropped_with_warning", IF sk = {} THEN "" ELSE obs.skips[CHOOSE k \in sk : TRUE].msg)}
  ELSE IF Cardinality(ks) > 1 THEN {F("duplicated", "")}
  ELSE LET o == TheOp(obs, it.path, op.m) IN
       (IF (op.opid # "" /\ o.opid # op.opid) \/ o.opid = "" THEN {F("operation_id", "")} ELSE {})
         \cup (IF o.tags # op.tags THEN {F("tags", "")} ELSE {})
         \cup ParamFails(it, op, o) \cup BodyFails(it, op, o) \cup RespFails(it, op, o)

(* ---- Total, and the absolute clauses on the main load *)
MainFails(doc, obs) ==
  IF obs.exc # ""
  THEN IF Strict(doc) THEN {Fail("Total", "exception", "", "", obs.exc, "", "")}
       ELSE IF Range(obs.mentions) \cap Offending(doc) = {} THEN {Fail("Total", "rejection_names_no_key", "", "", obs.exc, "", "")}
       ELSE {}
  ELSE UNION {OpFails(doc.items[x[1]], doc.items[x[1]].ops[x[2]], obs) : x \in DeclIdx(doc)}
         \cup {Fail("OneIROpPerDeclaredOp", "undeclared", "none", "", "", obs.ops[k].path, obs.ops[k].m) :
                 k \in {k \in 1..Len(obs.ops) : ~\E x \in DeclIdx(doc) : doc.items[x[1]].path = obs.ops[k].path /\ doc.items[x[1]].ops[x[2]].m = obs.ops[k].m}}

(* ---- RefTransparent: the document and its inlined twin give the same IR, up to the names of invented schemas *)
OpHasRef(it, op) == (\E p \in Range(it.params) \cup Range(op.params) : p.ref # "") \/ op.body.decl = "ref" \/ \E e \in Range(op.resps) : e.r.ref # ""
TwinFails(it, op, main, twin) ==
  LET F(what, via, kk) == Fail("RefTransparent", what, via, kk, "", it.path, op.m)
      a == OpsAt(main, it.path, op.m)
      b == OpsAt(twin, it.path, op.m) IN
  IF ~OpHasRef(it, op) \/ (a = {} /\ b = {}) THEN {}
  ELSE IF a = {} THEN {F("op_dropped", OpParamVia(it, op), "")}
  ELSE IF b = {} THEN {F("twin_op_dropped", OpParamVia(it, op), "")}
  ELSE LET x == NormOp(TheOp(main, it.path, op.m))
           y == NormOp(TheOp(twin, it.path, op.m)) IN
       (IF x.params # y.params THEN {F("params_differ", OpParamVia(it, op), "")} ELSE {})
         \cup (IF <<x.hasbody, x.breq, x.bcts>> # <<y.hasbody, y.breq, y.bcts>>
               THEN {F(IF y.hasbody /\ ~x.hasbody THEN "body_lost" ELSE "body_differs", BVia(op.body), "")} ELSE {})
         \cup {F(IF \E i \in 1..Len(x.resps) : x.resps[i].code = e.key /\ x.resps[i].cts = <<>> THEN "content_lost" ELSE "response_differs", RVia(e.r), KeyKind(e)) :
                 e \in {e \in Range(op.resps) : SelectSeq(x.resps, LAMBDA r : r.code = e.key) # SelectSeq(y.resps, LAMBDA r : r.code = e.key)}}
         \cup (IF Map(x.resps, LAMBDA r : r.code) # Map(y.resps, LAMBDA r : r.code) THEN {F("status_codes_differ", "none", "")} ELSE {})
         \cup (IF <<x.opid, x.tags>> # <<y.opid, y.tags>> THEN {F("identity_differs", "none", "")} ELSE {})

(* ---- NoCrossTalk: the IR of an operation is the same whichever other operations exist, in whatever order.     *)
(* Compared EXACTLY (invented names included: they are a function of the operation alone).                        *)
DiffWhat(x, y) ==
  IF Map(x.resps, LAMBDA r : r.code) # Map(y.resps, LAMBDA r : r.code) THEN "status_code"
  ELSE IF x.params # y.params THEN (IF NormOp(x).params = NormOp(y).params THEN "schema_name" ELSE IF Map(x.params, PKey) = Map(y.params, PKey) /\ Map(x.params, LAMBDA p : p.sch) = Map(y.params, LAMBDA p : p.sch) THEN "required" ELSE "params")
  ELSE IF x.resps # y.resps THEN (IF NormOp(x).resps = NormOp(y).resps THEN "schema_name" ELSE "response_content")
  ELSE IF <<x.hasbody, x.breq, x.bcts>> # <<y.hasbody, y.breq, y.bcts>> THEN (IF NormOp(x).bcts = NormOp(y).bcts /\ x.hasbody = y.hasbody THEN (IF x.breq # y.breq THEN "required" ELSE "schema_name") ELSE "body")
  ELSE IF x.opid # y.opid THEN "operation_id"
  ELSE IF x.tags # y.tags THEN "tags"
  ELSE "none"
CrossFails(it, op, main, other, against) ==
  LET F(what) == Fail("NoCrossTalk", what, against, "", "", it.path, op.m)
      a == OpsAt(main, it.path, op.m)
      b == OpsAt(other, it.path, op.m) IN
  IF main.exc # "" THEN {}                                       \* (Total judges the rejection of the document itself)
  ELSE IF other.exc # "" THEN {F("rejection")}                   \* a variant of a document that loads is rejected
  ELSE IF Cardinality(a) # Cardinality(b) THEN {F("presence")}
  ELSE IF Cardinality(a) # 1 THEN {}
  ELSE LET d == DiffWhat(TheOp(main, it.path, op.m), TheOp(other, it.path, op.m)) IN IF d = "none" THEN {} ELSE {F(d)}

RunsOf(runs, kind) == SelectSeq(runs, LAMBDA r : r.kind = kind)
MainObs(runs) == RunsOf(runs, "main")[1].obs
OpAt(doc, arg) == LET x == CHOOSE x \in DeclIdx(doc) : doc.items[x[1]].path = arg[1] /\ doc.items[x[1]].ops[x[2]].m = arg[2] IN x

\* The judge: every failing clause of one document, given the loads that were observed
Judge(doc, runs) ==
  LET main == MainObs(runs) IN
  MainFails(doc, main)
    \cup UNION {UNION {TwinFails(doc.items[x[1]], doc.items[x[1]].ops[x[2]], main, r.obs) : x \in DeclIdx(doc)} :
                  r \in {r \in Range(RunsOf(runs, "twin")) : main.exc = "" /\ r.obs.exc = ""}}
    \cup UNION {LET x == OpAt(doc, r.arg) IN CrossFails(doc.items[x[1]], doc.items[x[1]].ops[x[2]], main, r.obs, "alone") :
                  r \in Range(RunsOf(runs, "alone"))}
    \cup UNION {UNION {CrossFails(doc.items[x[1]], doc.items[x[1]].ops[x[2]], main, r.obs, r.arg[1]) : x \in DeclIdx(doc)} :
                  r \in Range(RunsOf(runs, "perm"))}

Clauses == {"OneIROpPerDeclaredOp", "EffectiveParams", "RefTransparent", "NoCrossTalk", "ResponseTable", "BodyContent", "Total"}
Holds(clause, fails) == \A f \in fails : f.clause # clause

(* ======================================================================= *)
(* PART 4 - loaders as operators                                           *)
(* ======================================================================= *)
IRp(p) == [name |-> p.name, loc |-> p.loc, req |-> p.req, sch |-> IdealS(p.sch)]
IRcts(cts) == Map(cts, LAMBDA c : [ct |-> c.ct, sch |-> IdealS(c.sch)])
NoOp == [path |-> "", m |-> "", opid |-> "", tags |-> <<>>, params |-> <<>>, hasbody |-> FALSE, breq |-> FALSE, bcts |-> <<>>, resps |-> <<>>]
AutoId(it, op) == IF op.opid = "" THEN op.m \o "_" \o it.path ELSE op.opid
Loaded(o) == [ok |-> TRUE, op |-> o, msg |-> ""]
Skipped(it, op, msg) == [ok |-> FALSE, op |-> [NoOp EXCEPT !.path = it.path, !.m = op.m], msg |-> msg]

\* the reference loader: the IR read off Meaning
IdealOp(doc, it, op) ==
  LET b == DerefB(op.body) IN
  Loaded([path |-> it.path, m |-> op.m, opid |-> AutoId(it, op), tags |-> op.tags,
          params |-> Map(EffParams(it, op), IRp),
          hasbody |-> b.decl # "none", breq |-> b.req = "true", bcts |-> IRcts(b.cts),
          resps |-> Map(op.resps, LAMBDA e : [code |-> e.key, codetype |-> "str", cts |-> IRcts(DerefR(e.r).cts)])])

\* the shape of pyopenapi_gen.core.loader.operations.parser.parse_operations (+ parameters / request_body / responses):
\*  - resolve_parameter_node_if_ref looks the name up ONCE; parse_parameter on what is still a Reference Object raises
\*    "Parameter node must have a name", the except clause turns that into a warning and the operation is skipped
\*  - params = path-level list followed by the operation's list (no override)
\*  - parse_request_body / the response loop resolve ONE level: a second Reference Object has no `content`
\*  - a request body without content types is None
\*  - parse_parameter reads `schema` only: a parameter that declares `content` gets an empty IRSchema
AsIsP(p) == [name |-> p.name, loc |-> p.loc, req |-> p.req, sch |-> IF p.sch.k = "content" THEN SBlank ELSE IdealS(p.sch)]
Deref1P(p) == IF p.ref = "" THEN p ELSE CParam[p.ref]
AsIsOp(doc, it, op) ==
  LET raw == Map(it.params, Deref1P) \o Map(op.params, Deref1P)
      b == IF op.body.decl = "ref" THEN CBody[op.body.ref] ELSE op.body
      nobody == b.decl # "inline" \/ b.cts = <<>> IN
  IF \E i \in 1..Len(raw) : raw[i].ref # "" THEN Skipped(it, op, "Parameter node must have a name")
  ELSE Loaded([path |-> it.path, m |-> op.m, opid |-> AutoId(it, op), tags |-> op.tags,
               params |-> Map(raw, AsIsP),
               hasbody |-> ~nobody, breq |-> ~nobody /\ b.req = "true", bcts |-> IF nobody THEN <<>> ELSE IRcts(b.cts),
               resps |-> Map(op.resps, LAMBDA e : LET r == IF e.r.ref = "" THEN e.r ELSE CResp[e.r.ref] IN
                                                  [code |-> e.key, codetype |-> "str", cts |-> IF r.ref # "" THEN <<>> ELSE IRcts(r.cts)])])

\* a loader with a cache of parsed component responses keyed by component name: later users get the IRResponse built
\* for the first user (in document order), status code included
RespUses(doc) == Cat([i \in 1..Len(doc.items) |-> Cat([j \in 1..Len(doc.items[i].ops) |-> doc.items[i].ops[j].resps])])
FirstKey(doc, n) == LET us == SelectSeq(RespUses(doc), LAMBDA e : e.r.ref = n) IN us[1].key
LeakyOp(doc, it, op) ==
  LET o == IdealOp(doc, it, op).op IN
  Loaded([o EXCEPT !.resps = [i \in 1..Len(op.resps) |-> IF op.resps[i].r.ref = "" THEN o.resps[i] ELSE [o.resps[i] EXCEPT !.code = FirstKey(doc, op.resps[i].r.ref)]]])

Load(doc, L(_, _, _)) ==
  LET rs == Cat([i \in 1..Len(doc.items) |-> [j \in 1..Len(doc.items[i].ops) |-> L(doc, doc.items[i], doc.items[i].ops[j])]]) IN
  [exc |-> "", mentions |-> <<>>,
   skips |-> Map(SelectSeq(rs, LAMBDA r : ~r.ok), LAMBDA r : [m |-> r.op.m, path |-> r.op.path, msg |-> r.msg]),
   ops |-> Map(SelectSeq(rs, LAMBDA r : r.ok), LAMBDA r : r.op)]
IdealLoad(doc) == Load(doc, IdealOp)
AsIsLoad(doc) == Load(doc, AsIsOp)
LeakyLoad(doc) == Load(doc, LeakyOp)

(* ======================================================================= *)
(* PART 5 - transformations of documents, the variants that are loaded     *)
(* ======================================================================= *)
InlineP(p) == DerefP(p)
InlineOp(op) == [op EXCEPT !.params = Map(op.params, DerefP), !.body = DerefB(op.body),
                           !.resps = Map(op.resps, LAMBDA e : [e EXCEPT !.r = DerefR(e.r)])]
Inline(doc) == Doc(Map(doc.items, LAMBDA it : [it EXCEPT !.params = Map(it.params, DerefP), !.ops = Map(it.ops, InlineOp)]))
DocHasRef(doc) == \E x \in DeclIdx(doc) : OpHasRef(doc.items[x[1]], doc.items[x[1]].ops[x[2]])

\* the document with only operation j of item i (the item's other keys stay)
Only(doc, i, j) ==
  LET it == doc.items[i]  m == it.ops[j].m IN
  Doc(<<[it EXCEPT !.keys = SelectSeq(it.keys, LAMBDA k : k \notin MethodSet \/ k = m), !.ops = <<it.ops[j]>>]>>)
NOps(doc) == Cardinality(DeclIdx(doc))
RevItems(doc) == Doc(Rev(doc.items))
RevKeys(doc) == Doc(Map(doc.items, LAMBDA it : [it EXCEPT !.keys = Rev(it.keys), !.ops = Rev(it.ops)]))
\* "parameters" moved to the other end of every item
SwingParams(doc) ==
  Doc(Map(doc.items, LAMBDA it :
        IF "parameters" \notin Range(it.keys) THEN it
        ELSE LET rest == SelectSeq(it.keys, LAMBDA k : k # "parameters") IN
             [it EXCEPT !.keys = IF it.keys[1] = "parameters" THEN rest \o <<"parameters">> ELSE <<"parameters">> \o rest]))

\* the loads the harness makes for one document: [kind, arg, doc]
Variants(doc) ==
  <<[kind |-> "main", arg |-> <<"", "">>, doc |-> doc]>>
    \o (IF DocHasRef(doc) THEN <<[kind |-> "twin", arg |-> <<"", "">>, doc |-> Inline(doc)]>> ELSE <<>>)
    \o (IF NOps(doc) < 2 THEN <<>>
        ELSE Cat([i \in 1..Len(doc.items) |-> [j \in 1..Len(doc.items[i].ops) |->
                    [kind |-> "alone", arg |-> <<doc.items[i].path, doc.items[i].ops[j].m>>, doc |-> Only(doc, i, j)]]]))
    \o (IF Len(doc.items) > 1 THEN <<[kind |-> "perm", arg |-> <<"rev_items", "">>, doc |-> RevItems(doc)]>> ELSE <<>>)
    \o (IF RevKeys(doc) # doc THEN <<[kind |-> "perm", arg |-> <<"rev_keys", "">>, doc |-> RevKeys(doc)]>> ELSE <<>>)
    \o (IF SwingParams(doc) # doc /\ SwingParams(doc) # RevKeys(doc) THEN <<[kind |-> "perm", arg |-> <<"swing_parameters", "">>, doc |-> SwingParams(doc)]>> ELSE <<>>)
RunsBy(doc, LoadF(_)) == Map(Variants(doc), LAMBDA v : [kind |-> v.kind, arg |-> v.arg, obs |-> LoadF(v.doc)])

(* ----------------------------------------------------------- the families *)
OkResp == <<RE("200", FALSE, RIn(<<>>))>>
SimpleOp(m, opid) == MkOp(m, opid, <<>>, <<>>, BNone, OkResp, FALSE, FALSE)
Layouts == {"plain", "tail", "mixed", "emptyparams"}
Keys(layout, declp, ms) ==
  LET p == IF declp \/ layout = "emptyparams" THEN <<"parameters">> ELSE <<>> IN
  CASE layout \in {"plain", "emptyparams"} -> p \o ms
    [] layout = "tail" -> ms \o <<"summary">> \o p \o <<"x-meta">>
    [] layout = "mixed" -> <<"description", ms[1], "x-list">> \o p \o <<"servers">> \o Tail(ms) \o <<"summary", "x-meta">>
MkItem(path, layout, params, ops) == Item(path, Keys(layout, params # <<>>, Map(ops, LAMBDA o : o.m)), params, ops)
One(path, layout, params, op) == Doc(<<MkItem(path, layout, params, <<op>>)>>)

\* --- A: methods and the keys of a path item
FamA(tier) ==
  {One("/a", l, <<>>, SimpleOp(m, "op1")) : m \in MethodSet, l \in IF tier = "design" THEN {"mixed"} ELSE Layouts}
    \cup {Doc(<<MkItem("/a", IF tier = "design" THEN "plain" ELSE "mixed", <<>>, <<SimpleOp(p[1], "op1"), SimpleOp(p[2], "op2")>>)>>) :
            p \in {p \in MethodSet \X MethodSet : p[1] # p[2] /\ (tier # "design" \/ p[1] \in {"get", "trace"})}}
    \cup {Doc(<<MkItem("/a", "mixed", <<>>, Map(ms, LAMBDA m : SimpleOp(m, "op_" \o m)))>>) : ms \in {MethodSeq, Rev(MethodSeq)}}

\* --- B: parameters
Q1 == PIn("limit", "query", FALSE, SInt)
Q1R == PIn("limit", "query", TRUE, SStr)          \* same (name, in), other attributes: an override shows
HDR == PIn("limit", "header", FALSE, SStr)        \* same name, other location: NOT an override
IDS == PIn("id", "path", TRUE, SStr)
IDI == PIn("id", "path", TRUE, SInt)
QMenu(tier) == {Q1, Q1R, PRef("Lim"), PRef("LimAlias"), HDR}
                 \cup {PIn("shape", "query", FALSE, Sc("content", "Pet"))}
                 \cup (IF tier = "design" THEN {} ELSE {PRef("Hdr"), PRef("Flt"), PIn("filter", "query", TRUE, SObj("mq")), PRef("Srt"), PIn("c", "cookie", FALSE, SStr),
                                                       PIn("depth", "header", TRUE, Sc("content", "integer"))})
EffKey(p) == PKey(DerefP(p))
Lists(M, n) == {<<>>} \cup {<<p>> : p \in M} \cup (IF n < 2 THEN {} ELSE {<<p[1], p[2]>> : p \in {p \in M \X M : EffKey(p[1]) # EffKey(p[2])}})
GetOp(opid, ol) == MkOp("get", opid, <<>>, ol, BNone, OkResp, FALSE, FALSE)
FamB1(tier, n) == {One("/a", "plain", pl, GetOp("listA", ol)) : pl \in Lists(QMenu(tier), n), ol \in Lists(QMenu(tier), n)}
\* the templated path: `id` declared at the path item and / or at the operation, with and without a query parameter
FamB2(tier) ==
  LET pls == {<<>>, <<IDS>>, <<PRef("Id")>>, <<PRef("IdAlias")>>}
      ols == {<<>>, <<IDI>>, <<PRef("Id")>>}
      xs == {<<<<>>, <<>>>>, <<<<Q1>>, <<>>>>, <<<<>>, <<Q1>>>>, <<<<Q1>>, <<Q1R>>>>} IN
  {One("/a/{id}", "tail", x[1] \o c[1], GetOp("getA", c[2] \o x[2])) : c \in {c \in pls \X ols : c[1] # <<>> \/ c[2] # <<>>}, x \in IF tier = "design" THEN {<<<<>>, <<>>>>, <<<<Q1>>, <<Q1R>>>>} ELSE xs}
    \cup {Doc(<<MkItem("/a/{id}", l, pl \o <<Q1, HDR>>, <<GetOp("getA", ol), MkOp("delete", "dropA", <<>>, <<>>, BNone, OkResp, FALSE, FALSE)>>)>>) :
            pl \in pls \ {<<>>}, ol \in {<<>>, <<IDI>>, <<Q1R>>, <<IDI, Q1R>>, <<PRef("Lim")>>}, l \in IF tier = "design" THEN {"plain"} ELSE {"plain", "mixed"}}

\* component parameters with schemas the loader has to name (inline object, array of an inline enum), shared by the operations of an item
\* (path level) and by operations of different items
FamB3(tier) ==
  {Doc(<<MkItem("/a", l, pl, <<GetOp(ids[1], ol), MkOp("post", ids[2], <<>>, <<>>, BNone, OkResp, FALSE, FALSE)>>),
         MkItem("/b", "plain", <<>>, <<GetOp("getB", pl)>>)>>) :
     l \in IF tier = "design" THEN {"plain"} ELSE {"plain", "mixed"}, ids \in {<<"listA", "makeA">>, <<"", "">>},
     pl \in {<<PRef("Flt")>>, <<PRef("Srt"), PRef("Flt")>>, <<PRef("Lim"), PRef("Srt")>>}, ol \in {<<>>, <<PRef("Hdr")>>}}

\* --- C: request bodies
JMenu == {CT(JSON, SPet), CT(JSON, SObj("mb")), CT(JSON, SNone), CT(JSON, SInt)}
CTF == CT(FORM, SObj("mf"))
CTT == CT(TEXT, SStr)
CtLists(tier) ==
  {<<>>, <<CTF>>, <<CTT>>, <<CT(XML, SPet), CTF, CTT>>} \cup {<<j>> : j \in JMenu}
    \cup (IF tier = "design" THEN {<<CT(JSON, SPet), CTT>>}
          ELSE UNION {{<<j, CTT>>, <<CTT, j>>, <<j, CTF>>, <<j, CTF, CTT>>, <<CTT, CTF, j>>} : j \in JMenu})
Bodies(tier) == {BIn(r, cts) : r \in {"absent", "true", "false"}, cts \in CtLists(tier)} \cup {BRef(n) : n \in DOMAIN CBody}
BodyOp(m, opid, b) == MkOp(m, opid, <<>>, <<>>, b, OkResp, FALSE, FALSE)
FamC(tier) ==
  {One("/a", "plain", <<>>, BodyOp("post", "makeA", b)) : b \in Bodies(tier)}
    \cup {Doc(<<MkItem("/a", "plain", <<>>, <<BodyOp("post", "makeA", p[1]), BodyOp("put", "setA", p[2])>>)>>) :
            p \in {p \in (Bodies("design") \X Bodies("design")) : p[1].decl = "ref" \/ p[2].decl = "ref"}}

\* --- D: responses
KeyMenu(tier) == {<<"200", FALSE>>, <<"404", FALSE>>, <<"default", FALSE>>, <<"4XX", FALSE>>, <<"200", TRUE>>, <<"5xx", FALSE>>}
                   \cup (IF tier = "design" THEN {} ELSE {<<"201", FALSE>>, <<"2XX", FALSE>>, <<"404", TRUE>>})
RMenu(tier) == {RIn(<<>>), RIn(<<CT(JSON, SPet)>>), RIn(<<CT(JSON, SObj("mr"))>>), RIn(<<CT(JSON, SPet), CT(TEXT, SStr)>>)}
                 \cup {RRef(n) : n \in DOMAIN CResp}
                 \cup (IF tier = "design" THEN {} ELSE {RIn(<<CT(JSON, SNone)>>), RIn(<<CT(TEXT, SStr)>>)})
RespOp(m, opid, resps) == MkOp(m, opid, <<>>, <<>>, BNone, resps, FALSE, FALSE)
KeyPairs(tier) == {p \in KeyMenu(tier) \X KeyMenu(tier) : p[1][1] # p[2][1]}
SharePairs == {<<<<"200", FALSE>>, <<"404", FALSE>>>>, <<<<"404", FALSE>>, <<"default", FALSE>>>>, <<<<"default", FALSE>>, <<"4XX", FALSE>>>>,
               <<<<"200", TRUE>>, <<"404", FALSE>>>>, <<<<"404", FALSE>>, <<"200", FALSE>>>>}
FamD1(tier) == {One("/a", "plain", <<>>, RespOp("get", "getA", <<RE(k[1], k[2], r)>>)) : k \in KeyMenu(tier), r \in RMenu(tier)}
\* one component shared by two codes of an operation / by two operations under different codes
FamD2(tier) ==
  {One("/a", "plain", <<>>, RespOp("get", "getA", <<RE(p[1][1], p[1][2], RRef(n)), RE(p[2][1], p[2][2], RRef(n))>>)) : p \in SharePairs, n \in DOMAIN CResp}
    \cup {Doc(<<MkItem("/a", "plain", <<>>, <<RespOp("get", "getA", <<RE(p[1][1], p[1][2], RRef(n))>>), RespOp("post", "makeA", <<RE(p[2][1], p[2][2], RRef(n))>>)>>)>>) :
            p \in SharePairs, n \in DOMAIN CResp}
    \cup {Doc(<<MkItem("/a", "tail", <<>>, <<RespOp("get", "getA", <<RE(p[1][1], p[1][2], RRef(n))>>)>>),
                MkItem("/b", "plain", <<>>, <<RespOp("get", "getB", <<RE("201", FALSE, RIn(<<CT(JSON, SPet)>>)), RE(p[2][1], p[2][2], RRef(n))>>)>>)>>) :
            p \in SharePairs, n \in IF tier = "design" THEN {"Err", "ErrAlias"} ELSE DOMAIN CResp}
FamDPairs(tier) == {One("/a", "plain", <<>>, RespOp("get", "getA", <<RE(p[1][1], p[1][2], r1), RE(p[2][1], p[2][2], r2)>>)) : p \in KeyPairs(tier), r1 \in RMenu(tier), r2 \in RMenu(tier)}

\* --- E: identity of operations (operationId present / absent / duplicated, tags, deprecated, security)
IdPairs == {<<"listA", "makeA">>, <<"", "makeA">>, <<"listA", "">>, <<"", "">>, <<"dup", "dup">>}
TagLists == {<<>>, <<"t1">>, <<"t1", "t2">>}
IdOp(m, opid, tags, dep, sec) == MkOp(m, opid, tags, <<>>, BNone, OkResp, dep, sec)
FamE(tier) ==
  LET flags == IF tier = "thorough" THEN BOOLEAN \X BOOLEAN ELSE {<<TRUE, FALSE>>, <<FALSE, TRUE>>}
      tags == IF tier = "design" THEN {<<<<>>, <<"t1", "t2">>>>, <<<<"t1">>, <<"t1">>>>} ELSE TagLists \X TagLists IN
  {Doc(<<MkItem("/a", "mixed", <<>>, <<IdOp("get", ids[1], t[1], f[1], f[2]), IdOp("post", ids[2], t[2], FALSE, FALSE)>>)>>) : ids \in IdPairs, t \in tags, f \in flags}
    \cup {Doc(<<MkItem("/a", "plain", <<>>, <<IdOp("get", ids[1], t[1], f[1], f[2])>>), MkItem("/b", "tail", <<>>, <<IdOp("get", ids[2], t[2], FALSE, FALSE)>>)>>) : ids \in IdPairs, t \in tags, f \in flags}

\* two operations with inline object schemas at every place the loader invents a name from the operationId (parameter, body,
\* response) - with distinct ids, and with ONE id used twice (an invalid document: Offending)
ObjOp(m, opid, a) ==
  MkOp(m, opid, <<>>, <<PIn("filter", "query", FALSE, SObj(a[1]))>>, BIn("true", <<CT(JSON, SObj(a[1])), CT(FORM, SObj(a[2]))>>),
       <<RE("200", FALSE, RIn(<<CT(JSON, SObj(a[1])), CT(XML, SObj(a[2]))>>))>>, FALSE, FALSE)
FamE2(tier) ==
  {Doc(<<MkItem("/a", "plain", <<>>, <<ObjOp("get", ids[1], a[1]), ObjOp("post", ids[2], a[2])>>)>>) :
     ids \in {<<"dup", "dup">>, <<"listA", "makeA">>, <<"", "">>}, a \in {<<<<"m1", "m2">>, <<"m3", "m4">>>>, <<<<"m1", "m2">>, <<"m1", "m2">>>>, <<<<"m1", "m1">>, <<"m2", "m2">>>>}}
    \cup {Doc(<<MkItem("/a", "plain", <<>>, <<ObjOp("get", ids[1], <<"m1", "m2">>)>>), MkItem("/b", "tail", <<>>, <<ObjOp("get", ids[2], <<"m3", "m4">>)>>)>>) :
            ids \in {<<"dup", "dup">>, <<"listA", "makeA">>}}

\* --- F: everything at once (sampled by Gen_OpLoad): two items, shared path-level parameters, bodies, shared responses
MixOp(m, opid, ol, b, resps, tags) == MkOp(m, opid, tags, ol, b, resps, FALSE, FALSE)

\* the deterministic part of a tier
Core(tier) == FamA(tier) \cup FamB1(tier, 1) \cup FamB2(tier) \cup FamB3(tier) \cup FamC(tier) \cup FamD1(tier) \cup FamD2(tier) \cup FamE(tier) \cup FamE2(tier)
=============================================================================
