----------------------------- MODULE Gen_Names -----------------------------
(* Scenario generator for C20 (i): every string of length <= MaxLen over Alphabet (code points), plus case /
   separator variants of every keyword.  One line "SCEN [code points]" per string. *)
EXTENDS Naturals, Sequences, FiniteSets, TLC, Json, NamingConsts
CONSTANTS Alphabet, MaxLen,
          UAlphabet, UMaxLen   \* second stratum: representatives of Unicode classes (see docs/C20_NOTES.md), shorter strings
VARIABLES s, done

Strings == UNION {[1..k -> Alphabet] : k \in 0..MaxLen}
UStrings == UNION {[1..k -> UAlphabet] : k \in 1..UMaxLen}
Up(c) == IF c \in 97..122 THEN c - 32 ELSE c
Lo(c) == IF c \in 65..90 THEN c + 32 ELSE c
UpperOf(k) == [i \in 1..Len(k) |-> Up(k[i])]
LowerOf(k) == [i \in 1..Len(k) |-> Lo(k[i])]
CapOf(k)   == [i \in 1..Len(k) |-> IF i = 1 THEN Up(k[i]) ELSE Lo(k[i])]
KeywordVariants ==
  UNION {{k, UpperOf(k), LowerOf(k), CapOf(k), k \o <<95>>, <<95>> \o k, k \o <<45>>, <<45>> \o k, k \o <<32>>, k \o <<233>>}
           : k \in ConstKeywords}

AsTuple(f) == SubSeq(f, 1, Len(f))
Init == /\ \/ s \in Strings
           \/ s \in UStrings
           \/ s \in KeywordVariants
        /\ done = FALSE
Emit == /\ ~done
        /\ done' = TRUE
        /\ UNCHANGED s
        /\ PrintT("SCEN " \o ToJson([s |-> AsTuple(s)]))
Spec == Init /\ [][Emit]_<<s, done>>
=============================================================================
