---------------------------- MODULE StreamFamily ----------------------------
(***************************************************************************)
(* The stream family of C18, as a grammar over text (code points) that is  *)
(* UTF-8 encoded by StreamCore!Encode.  Shared by the design check         *)
(* (MC_Stream) and the scenario generator (Gen_Stream), so the chunkings   *)
(* replayed on the real helpers are exactly those TLC verified the design  *)
(* for.                                                                    *)
(*                                                                         *)
(* SSE:    1..3 blocks; block shapes: one data line (with / without the    *)
(*         space after the colon), two data lines, comment + data, data +  *)
(*         comment + data, event:/id:/retry: + data, comment only;         *)
(*         payloads "", "x", "é", "€x", "x " (trailing blank), "a:b",      *)
(*         U+1F600 (4 bytes); terminators LF / CRLF / alternating; last    *)
(*         block closed by a blank line, only line-terminated, or cut      *)
(*         before its terminator.                                          *)
(* NDJSON: 1..3 records (canonical JSON texts, ASCII and non-ASCII), LF /  *)
(*         CRLF, optional blank line between records, last record          *)
(*         terminated or not.                                              *)
(***************************************************************************)
EXTENDS StreamCore

CONSTANT Tier   \* 1 = quick, 2 = thorough

\* ---- text atoms (code points)
P_empty  == <<>>
P_x      == <<120>>                \* x
P_e      == <<233>>                \* é        (2 bytes)
P_eurox  == <<8364, 120>>          \* €x       (3 + 1 bytes)
P_xsp    == <<120, 32>>            \* "x "     (trailing blank is part of the payload)
P_colon  == <<97, 58, 98>>         \* a:b      (colon inside the value)
P_emoji  == <<128512>>             \* U+1F600  (4 bytes)

D(p)  == <<100, 97, 116, 97, 58, 32>> \o p     \* "data: " p
Dn(p) == <<100, 97, 116, 97, 58>> \o p         \* "data:" p
C     == <<58, 32, 99>>                        \* ": c"
E     == <<101, 118, 101, 110, 116, 58, 32, 101>>   \* "event: e"
I     == <<105, 100, 58, 32, 55>>              \* "id: 7"
R     == <<114, 101, 116, 114, 121, 58, 32, 53>>    \* "retry: 5"

\* ---- rendering: lines -> text.  term: "lf" | "crlf" | "mixed" (odd lines LF, even lines CRLF);
\*      cutLast: the last line has no terminator
TermOf(term, i) == IF term = "lf" \/ (term = "mixed" /\ i % 2 = 1) THEN <<LF>> ELSE <<CR, LF>>
Render(lines, term, cutLast) ==
  FlattenSeq([i \in 1..Len(lines) |-> lines[i] \o (IF cutLast /\ i = Len(lines) THEN <<>> ELSE TermOf(term, i))])

\* blocks -> lines with a blank line after every block
RECURSIVE BlockLines(_)
BlockLines(bs) == IF bs = <<>> THEN <<>> ELSE bs[1] \o << <<>> >> \o BlockLines(Tail(bs))

\* ending: "blank" (last block closed), "noblank" (last line terminated, no blank line), "cut" (last line unterminated)
SseText(bs, term, ending) ==
  LET all == BlockLines(bs) IN
  IF ending = "blank" THEN Render(all, term, FALSE)
  ELSE Render(FrontOf(all), term, ending = "cut")

\* ---- SSE block shapes
Pay1 == IF Tier = 1 THEN {P_empty, P_x, P_e, P_eurox, P_xsp}
        ELSE {P_empty, P_x, P_e, P_eurox, P_xsp, P_colon, P_emoji}
Pay2 == {P_empty, P_x, P_e}

ShOne  == {<<D(p)>> : p \in Pay1} \cup {<<Dn(p)>> : p \in Pay1}
ShTwo  == {<<D(p), D(q)>> : p \in Pay2, q \in Pay2}
ShCom  == {<<C, D(P_x)>>, <<D(P_e), C>>, <<D(P_x), C, D(P_e)>>}
ShEvt  == {<<E, D(P_x)>>, <<D(P_e), I>>, <<R, Dn(P_x)>>} \cup (IF Tier = 1 THEN {} ELSE {<<E, I, R, D(P_eurox), D(P_e)>>})
ShOnly == {<<C>>}
ShFirst == ShOne \cup ShTwo \cup ShCom \cup ShEvt \cup ShOnly
\* first blocks of two-block streams, second blocks, third blocks
ShLead  == ShOne \cup ShCom \cup ShOnly \cup (IF Tier = 1 THEN {} ELSE {<<E, D(P_x)>>, <<D(P_e), I>>, <<R, Dn(P_x)>>})
ShNext  == {<<Dn(P_e)>>, <<D(P_empty), D(P_x)>>} \cup (IF Tier = 1 THEN {} ELSE {<<C>>})
ShThird == {<<Dn(P_x)>>, <<D(P_e), D(P_empty)>>}

Seqs1 == {<<a>> : a \in ShFirst}
Seqs2 == {<<a, b>> : a \in ShLead, b \in ShNext}
Seqs3 == {<<a, b, c>> : a \in {<<Dn(P_e)>>, <<C>>}, b \in {<<D(P_x), D(P_e)>>}, c \in ShThird}

Endings == {"blank", "noblank", "cut"}
SseOf(seqs, terms) == {[mode |-> "sse", bytes |-> Encode(SseText(bs, t, e)), rule |-> "bounded"] : bs \in seqs, t \in terms, e \in Endings}

SseStreams == SseOf(Seqs1 \cup Seqs2 \cup Seqs3, {"lf", "crlf"})
              \cup (IF Tier = 1 THEN {} ELSE SseOf(Seqs1 \cup Seqs3, {"mixed"}))

\* ---- NDJSON records (canonical JSON texts: json.dumps(json.loads(r), ensure_ascii=False, separators=(",",":")) = r)
J_one   == <<49>>                                            \* 1
J_str   == <<34, 233, 34>>                                   \* "é"
J_obj   == <<123, 34, 107, 34, 58, 34, 8364, 34, 125>>       \* {"k":"€"}
J_arr   == <<91, 49, 44, 50, 93>>                            \* [1,2]
J_sp    == <<34, 120, 32, 121, 34>>                          \* "x y"
J_emoji == <<34, 128512, 34>>                                \* "U+1F600"
J_nest  == <<123, 34, 97, 34, 58, 123, 34, 98, 34, 58, 91, 93, 125, 125>>   \* {"a":{"b":[]}}

Recs  == IF Tier = 1 THEN {J_one, J_str, J_obj, J_arr} ELSE {J_one, J_str, J_obj, J_arr, J_sp, J_emoji}
Recs2 == IF Tier = 1 THEN Recs ELSE {J_one, J_str, J_obj, J_emoji}
Recs3 == {J_one, J_str, J_obj}

RecSeqs ==
  {<<a>> : a \in Recs \cup (IF Tier = 1 THEN {} ELSE {J_nest})}
  \cup {<<a, b>> : a \in Recs, b \in Recs2}
  \cup {<<a, <<>>, b>> : a \in Recs3, b \in Recs3}          \* blank line between two records
  \cup {<<a, b, c>> : a \in Recs3, b \in Recs3, c \in {J_str}}

NdTerms == IF Tier = 1 THEN {"lf", "crlf"} ELSE {"lf", "crlf", "mixed"}
NdStreams == {[mode |-> "ndjson", bytes |-> Encode(Render(rs, t, cutLast)), rule |-> "bounded"] : rs \in RecSeqs, t \in NdTerms, cutLast \in BOOLEAN}

\* ---- mixed terminators: the terminator is a per-LINE choice (LF, bare CR, CRLF - all legal in SSE), so one stream
\*      contains CR followed by an empty line, LF LF, CR CR, CR LF CR, CRLF CR, ...  Every assignment of terminators
\*      to the lines of a fixed shape; chunkings by transition cover (rule "cover", StreamCore!CoverSets).
Terms3 == {"lf", "cr", "crlf"}
TermBytes(t) == IF t = "lf" THEN <<LF>> ELSE IF t = "cr" THEN <<CR>> ELSE <<CR, LF>>
RenderT(lines, terms) == FlattenSeq([i \in 1..Len(lines) |-> lines[i] \o TermBytes(terms[i])])
MixOf(mode, lines) == {[mode |-> mode, bytes |-> Encode(RenderT(lines, ts)), rule |-> "cover"] : ts \in [1..Len(lines) -> Terms3]}

P_y == <<121>>
MixSse1 == <<Dn(P_x), Dn(P_e), <<>>, Dn(P_y), <<>>>>             \* data:x / data:é // data:y //
MixSse2 == <<E, D(P_eurox), <<>>, C, Dn(P_e), <<>>>>              \* event: e / data: €x // : c / data:é //
MixNd   == <<J_one, J_str, J_arr>>
MixStreams == MixOf("sse", MixSse1) \cup MixOf("ndjson", MixNd) \cup (IF Tier = 1 THEN {} ELSE MixOf("sse", MixSse2))

Family == SseStreams \cup NdStreams \cup MixStreams

\* ---- long streams (StreamCore "Long streams"): repetitions of short units and single very long lines whose
\*      total passes the buffer-size thresholds decoders like to use
Z == 122   \* fill character 'z'
LongShapes ==
  {[name |-> "rep-lf",       mode |-> "sse",    pre |-> Encode(RenderT(<<D(P_x), D(P_e), <<>>>>, <<"lf", "lf", "lf">>)), fill |-> Z, post |-> <<>>, long |-> FALSE],
   [name |-> "rep-crlf",     mode |-> "sse",    pre |-> Encode(RenderT(<<E, D(P_eurox), <<>>>>, <<"crlf", "crlf", "crlf">>)), fill |-> Z, post |-> <<>>, long |-> FALSE],
   [name |-> "rep-ndjson",   mode |-> "ndjson", pre |-> Encode(RenderT(<<J_obj>>, <<"lf">>)), fill |-> Z, post |-> <<>>, long |-> FALSE],
   [name |-> "long-data",    mode |-> "sse",    pre |-> Encode(D(<<>>)), fill |-> Z, post |-> <<LF, LF>>, long |-> TRUE],
   [name |-> "long-comment", mode |-> "sse",    pre |-> <<COLON, SP>>, fill |-> Z, post |-> <<LF>> \o Encode(RenderT(<<D(P_x), <<>>>>, <<"lf", "lf">>)), long |-> TRUE],
   [name |-> "long-record",  mode |-> "ndjson", pre |-> <<34>>, fill |-> Z, post |-> <<34, CR, LF>>, long |-> TRUE]}
LongThresholds == IF Tier = 1 THEN {4096, 65536, 262144} ELSE {4096, 8192, 65536, 262144, 1048576}
LongSizes == {1460, 4096, 16384, 65536}
\* which (shape, threshold) combinations: quick takes every threshold for the first SSE repetition and long-line shape
\* and 64 Ki for the others
LongTargets(sh) == IF Tier # 1 \/ sh.name \in {"rep-lf", "long-data"} THEN LongThresholds ELSE {65536}
\* the stream is 1.5 times the target / is a long line of `target` fill characters (twice, so that something follows)
LongOf(sh, t) ==
  IF sh.long THEN [name |-> sh.name, mode |-> sh.mode, pre |-> sh.pre, fill |-> sh.fill, m |-> t, post |-> sh.post, reps |-> 2]
  ELSE [name |-> sh.name, mode |-> sh.mode, pre |-> sh.pre, fill |-> sh.fill, m |-> 0, post |-> sh.post,
        reps |-> ((3 * t) \div (2 * Len(sh.pre \o sh.post))) + 3]
LongFamily == {LongOf(sh, t) : sh \in LongShapes, t \in LongThresholds} \cap UNION {{LongOf(sh, t) : t \in LongTargets(sh)} : sh \in LongShapes}
LongTotal(L) == L.reps * (Len(L.pre) + L.m + Len(L.post))

\* ---- pairs of streams consumed in one process (StreamPair.tla): events of >= 2 lines, LF and CRLF, a
\*      multi-byte character, an unterminated last event, id:/event: fields, NDJSON next to SSE
Sse(bs, t, e) == [mode |-> "sse", bytes |-> Encode(SseText(bs, t, e))]
Nd(rs, t, cutLast) == [mode |-> "ndjson", bytes |-> Encode(Render(rs, t, cutLast))]
PA1 == Sse(<< <<D(P_x), D(P_e)>> >>, "lf", "blank")                          \* data: x / data: é
PA2 == Sse(<< <<E, D(P_x)>>, <<Dn(P_e)>> >>, "crlf", "cut")                  \* event: e / data: x // data:é (open)
PB1 == Sse(<< <<I, Dn(P_x)>> >>, "lf", "blank")                              \* id: 7 / data:x
PB2 == Sse(<< <<C, D(P_e)>>, <<Dn(P_x)>> >>, "lf", "noblank")                \* : c / data: é // data:x (no blank line)
PN1 == Nd(<<J_obj, J_arr>>, "lf", FALSE)
PN2 == Nd(<<J_str, J_one>>, "crlf", TRUE)
PairFamily ==
  {[a |-> PA1, b |-> PB1], [a |-> PA1, b |-> PA1], [a |-> PA2, b |-> PB1], [a |-> PN1, b |-> PN2], [a |-> PA1, b |-> PN2]}
  \cup (IF Tier = 1 THEN {} ELSE {[a |-> PB2, b |-> PB1], [a |-> PN2, b |-> PA1], [a |-> PB1, b |-> PA1]})
=============================================================================
