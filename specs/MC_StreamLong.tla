---------------------------- MODULE MC_StreamLong ----------------------------
(***************************************************************************)
(* Long streams of C18.  (i) "law" states: the repetition and stretching   *)
(* laws that lift the whole-stream meaning of a short twin to a long       *)
(* stream (StreamCore!ExpectedLong) are checked against the meaning        *)
(* computed directly, for every long shape with small m and reps           *)
(* (invariant LawHolds), and the incremental machine fed the same bytes    *)
(* in two halves agrees (MachineAgrees).  (ii) "emit" states: every long   *)
(* stream of the family with its realistic chunkings is printed (LONG).    *)
(***************************************************************************)
EXTENDS StreamFamily, Json, TLC

VARIABLES k, x, done

HelpersOf(mode) == IF mode = "sse" THEN {"iter_sse", "iter_sse_events_text", "iter_bytes"} ELSE {"iter_ndjson", "iter_bytes"}

LawInstances == {[name |-> sh.name, mode |-> sh.mode, pre |-> sh.pre, fill |-> sh.fill, m |-> m, post |-> sh.post, reps |-> r]
                   : sh \in LongShapes, m \in {0, 3, 5}, r \in 1..3}
LawBytes(L) == RepSeq(UnitOf(L, L.m), L.reps)
Direct(dec, L) ==
  IF dec = "iter_bytes" THEN RLE(LawBytes(L))
  ELSE LET its == MeaningOf(dec, L.mode, LawBytes(L)) IN Mat([i \in 1..Len(its) |-> EncItem(dec, its[i], L.fill, 0, 0)])
Law(L) == Liftable(L) => \A dec \in HelpersOf(L.mode) : PExpand(ExpectedLong(dec, L)) = Direct(dec, L)
\* the incremental machine, fed the same bytes in two chunks, delivers the same items
Machine(L) ==
  LET b == LawBytes(L)
      h == Len(b) \div 2
      d1 == DecodeChunk(<<>>, SubSeq(b, 1, h))
      s1 == FeedAll(L.mode, S0, d1.chars)
      d2 == DecodeChunk(d1.carry, SubSeq(b, h + 1, Len(b)))
  IN FlushF(L.mode, FeedAll(L.mode, s1, d2.chars), d2.carry).o = Expected(L.mode, b)

Init == /\ done = FALSE
        /\ \/ k = "law" /\ x \in LawInstances
           \/ k = "emit" /\ x \in LongFamily
Emit == /\ k = "emit" /\ ~done
        /\ done' = TRUE
        /\ UNCHANGED <<k, x>>
        /\ PrintT("LONG " \o ToJson([L |-> x, total |-> LongTotal(x), liftable |-> Liftable(x),
                                     chunkings |-> LongChunkings(LongTotal(x), LongSizes, LongThresholds)]))
Spec == Init /\ [][Emit]_<<k, x, done>>

LawHolds == k = "law" => Law(x)
MachineAgrees == k = "law" => Machine(x)
\* every law instance of a family shape is in the laws' domain (otherwise LawHolds would be vacuous)
LawsApply == k = "law" /\ (x.m = 0) = (\E sh \in LongShapes : sh.name = x.name /\ ~sh.long) => Liftable(x)
=============================================================================
