--------------------------- MODULE MC_Gen_Imports ---------------------------
EXTENDS Gen_Imports
MCOutSmall == {<<"pkg", "client">>, <<"app", "app">>}
MCOutQuick == {<<"client">>, <<"pkg", "client">>, <<"app", "app">>}
MCOutFull  == {<<"client">>, <<"pkg", "client">>, <<"a", "b", "client">>, <<"app", "app">>, <<"core", "api">>}
=============================================================================
