---------------------------- MODULE Gen_Chains ----------------------------
(* Scenario generator for the depth part of C08: chains S1 -> S2 -> ... -> Sn through one edge kind
   (optionally closed into a cycle) and single schemas nesting n anonymous levels.  One JSON line per scenario. *)
EXTENDS Naturals, Sequences, TLC, Json
CONSTANTS Lengths, ChainKinds, NestKinds
VARIABLES sc, done

Scen == [shape : {"chain"}, n : Lengths, kind : ChainKinds, closed : BOOLEAN, reverse : BOOLEAN]
        \cup [shape : {"nest"}, n : Lengths, kind : NestKinds, closed : {FALSE}, reverse : {FALSE}]

Init == sc \in Scen /\ done = FALSE
Emit == ~done /\ done' = TRUE /\ UNCHANGED sc /\ PrintT("SCEN " \o ToJson(sc))
Spec == Init /\ [][Emit]_<<sc, done>>
=============================================================================
