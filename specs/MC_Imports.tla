----------------------------- MODULE MC_Imports -----------------------------
EXTENDS Imports
MCOutSmall == {<<"pkg", "client">>, <<"app", "app">>}
MCOutQuick == {<<"client">>, <<"pkg", "client">>, <<"app", "app">>}
MCOutFull  == {<<"client">>, <<"pkg", "client">>, <<"a", "b", "client">>, <<"app", "app">>, <<"core", "api">>}
=============================================================================
