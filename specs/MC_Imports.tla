----------------------------- MODULE MC_Imports -----------------------------
EXTENDS Imports
MCOutQuick == {<<"client">>, <<"pkg", "client">>, <<"app", "app">>}
MCOutFull  == {<<"client">>, <<"pkg", "client">>, <<"a", "b", "client">>, <<"app", "app">>, <<"core", "api">>}
=============================================================================
