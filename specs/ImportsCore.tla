---------------------------- MODULE ImportsCore ----------------------------
(***************************************************************************)
(* X03 - import bookkeeping and relative-import arithmetic.                *)
(* Pure operators shared by the design model (Imports.tla), the scenario   *)
(* generator (Gen_Imports.tla) and the monitor (Trace_Imports.tla).        *)
(*                                                                         *)
(* Dotted names are SEQUENCES of identifiers (<<"pkg","client","models">>).*)
(*                                                                         *)
(*  1. package trees as data        MkTree, Contexts                       *)
(*  2. PYTHON'S SEMANTICS           Resolve, Outcome, Run    - written     *)
(*     from the language reference (importlib._bootstrap._resolve_name),   *)
(*     never from the code under test                                      *)
(*  3. the collector / RenderContext as-is (q = TRUE) and as it should be  *)
(*     (q = FALSE): Apply (one case per public method), Render             *)
(*  4. what a call ASKS for         Intent                                 *)
(*  5. the judge                    Judge : set of [clause, locus]         *)
(***************************************************************************)
EXTENDS Naturals, Sequences, FiniteSets, SequencesExt, FiniteSetsExt, TLC

\* ------------------------------------------------------------------ sequences
Min2(a, b) == IF a <= b THEN a ELSE b
TakeN(s, k) == SubSeq(s, 1, k)
DropN(s, k) == SubSeq(s, k + 1, Len(s))
Pfx(p, s) == Len(p) <= Len(s) /\ \A j \in 1..Len(p) : p[j] = s[j]
SPfx(p, s) == Pfx(p, s) /\ Len(p) < Len(s)
\* length of the common prefix
CPL(a, b) == Cardinality({k \in 1..Min2(Len(a), Len(b)) : \A j \in 1..k : a[j] = b[j]})

\* ------------------------------------------------------------------ 1. trees
Mod(p, k) == [path |-> p, pkg |-> k]
Ancestors(p) == {TakeN(p, k) : k \in 1..Len(p)}

ClientMods(out) ==
  {Mod(out, TRUE), Mod(out \o <<"client">>, FALSE),
   Mod(out \o <<"models">>, TRUE), Mod(out \o <<"models", "pet">>, FALSE), Mod(out \o <<"models", "owner">>, FALSE),
   Mod(out \o <<"endpoints">>, TRUE), Mod(out \o <<"endpoints", "pets">>, FALSE),
   Mod(out \o <<"mocks">>, TRUE), Mod(out \o <<"mocks", "endpoints">>, TRUE),
   Mod(out \o <<"mocks", "endpoints", "mock_pets">>, FALSE)}
CoreMods(core) ==
  {Mod(core, TRUE), Mod(core \o <<"http_transport">>, FALSE), Mod(core \o <<"exceptions">>, FALSE), Mod(core \o <<"config">>, FALSE),
   Mod(core \o <<"exception_aliases">>, FALSE), Mod(core \o <<"auth">>, TRUE), Mod(core \o <<"auth", "plugins">>, FALSE)}

CoreKinds(out) == IF Len(out) >= 2 THEN {"embedded", "sibling", "top"} ELSE {"embedded", "top"}
CoreOf(out, kind) == CASE kind = "embedded" -> out \o <<"core">>
                       [] kind = "sibling"  -> Front(out) \o <<"core">>
                       [] OTHER             -> <<"shared_core">>
MkTree(out, kind) ==
  LET core == CoreOf(out, kind) IN
  [out |-> out, core |-> core, kind |-> kind,
   mods |-> ClientMods(out) \cup CoreMods(core) \cup {Mod(a, TRUE) : a \in Ancestors(Front(out)) \cup Ancestors(Front(core))}]

Paths(t) == {m.path : m \in t.mods}
IsPkg(t, p) == Mod(p, TRUE) \in t.mods

\* external modules the scenarios mention (they exist in the interpreter of the sampled executions)
ExtMods == {<<"typing">>, <<"os">>, <<"json">>, <<"datetime">>, <<"uuid">>, <<"httpx">>, <<"collections">>,
            <<"collections", "abc">>, <<"dataclasses">>, <<"__future__">>}
Universe(t) == Paths(t) \cup ExtMods

\* A context = one (RenderContext | ImportCollector) positioned on one file of one tree.
\*   api     "context"   RenderContext.set_current_file + add_* + render_imports
\*           "collector" ImportCollector.set_current_file_context_for_rendering + add_* + get_*
\*   where   "client" (a module of the output package) | "core" (exception_aliases.py written by ExceptionsEmitter:
\*           package_root = the core directory, no output_package_name)
\*   root    package whose directory is package_root_for_generated_code
\*   pkgname what get_current_package_name_for_generated_code() answers
\*   outpkg  output_package_name (<<>> = None)
\*   mat     the tree exists on disk when the calls are made (the code looks at the file system)
MkCx(out, kind, api, where, cur, curpkg, mat) ==
  LET t == MkTree(out, kind) IN
  [tree |-> t, api |-> api, where |-> where, cur |-> cur, curpkg |-> curpkg, mat |-> mat, core |-> t.core,
   root |-> IF where = "client" THEN out ELSE t.core,
   pkgname |-> IF where = "client" THEN out ELSE <<Last(t.core)>>,
   outpkg |-> IF where = "client" THEN out ELSE <<>>]

ClientCurs(out) == {Mod(out, TRUE), Mod(out \o <<"client">>, FALSE), Mod(out \o <<"models">>, TRUE),
                    Mod(out \o <<"models", "pet">>, FALSE), Mod(out \o <<"endpoints", "pets">>, FALSE),
                    Mod(out \o <<"mocks", "endpoints", "mock_pets">>, FALSE)}

ContextsOf(out, mats) ==
  UNION {
     {MkCx(out, kind, "context", "client", m.path, m.pkg, mat) : m \in ClientCurs(out), mat \in mats}
     \cup {MkCx(out, kind, "context", "core", CoreOf(out, kind) \o <<"exception_aliases">>, FALSE, mat) : mat \in mats}
     \cup {MkCx(out, kind, "collector", "client", m.path, m.pkg, FALSE) : m \in ClientCurs(out)}
   : kind \in CoreKinds(out)}

\* ------------------------------------------------------------------ 2. Python
\* __package__ of the module whose body executes
PkgOf(cur, curpkg) == IF curpkg THEN cur ELSE Front(cur)

\* importlib._bootstrap._resolve_name(name, package, level):
\*   bits = package.rsplit('.', level - 1); if len(bits) < level: ImportError('attempted relative import beyond
\*   top-level package'); base = bits[0]; return f'{base}.{name}' if name else base
Resolve(pkg, level, tail) ==
  IF level = 0 THEN [ok |-> TRUE, mod |-> tail]
  ELSE IF Len(pkg) < level THEN [ok |-> FALSE, mod |-> <<>>]
  ELSE [ok |-> TRUE, mod |-> TakeN(pkg, Len(pkg) - (level - 1)) \o tail]

\* A rendered statement: [kind : "from" | "import", level, tail, names : SUBSET STRING, grp, cond, idx]
StmtModule(cx, s) == IF s.kind = "import" THEN [ok |-> TRUE, mod |-> s.tail] ELSE Resolve(PkgOf(cx.cur, cx.curpkg), s.level, s.tail)

\* What happens when the block executes, statement by statement, at the top of module cx.cur (every module of the tree
\* answers every attribute).  `ns` = the names the earlier statements bound in cx.cur, with the module they came from:
\* the module itself is only partially initialised while its body runs, so `from <itself> import n` finds n only if an
\* earlier statement already bound it.
Outcome(cx, s, ns) ==
  LET r == StmtModule(cx, s) IN
  IF ~r.ok THEN "beyond"
  ELSE IF r.mod \notin Universe(cx.tree) THEN "notfound"
  ELSE IF r.mod = cx.cur /\ s.kind = "from" /\ ~(s.names \subseteq {b.n : b \in ns}) THEN "self"
  ELSE "ok"
RECURSIVE RunBlock(_, _, _, _)
RunBlock(cx, S, i, acc) ==      \* S : Seq(statement); acc = [outs : Seq(outcome), ns : set of [n, t]]
  IF i > Len(S) THEN acc
  ELSE LET s == S[i]
           o == IF s.cond # "" THEN "skipped" ELSE Outcome(cx, s, acc.ns)
           t == StmtModule(cx, s).mod
           ns2 == IF o = "ok" /\ s.kind = "from" /\ t # cx.cur
                  THEN {b \in acc.ns : b.n \notin s.names} \cup {[n |-> n, t |-> t] : n \in s.names} ELSE acc.ns
       IN RunBlock(cx, S, i + 1, [outs |-> Append(acc.outs, o), ns |-> ns2])
Run(cx, S) == RunBlock(cx, S, 1, [outs |-> <<>>, ns |-> {}])

\* one provider per (statement, imported name); `import a.b` provides the module itself under the name ""
Providers(cx, stmts) ==
  UNION {LET r == StmtModule(cx, s) IN
         IF s.kind = "import" THEN {[t |-> s.tail, ok |-> TRUE, n |-> "", idx |-> s.idx, level |-> 0, cond |-> s.cond, kind |-> "import"]}
         ELSE {[t |-> r.mod, ok |-> r.ok, n |-> n, idx |-> s.idx, level |-> s.level, cond |-> s.cond, kind |-> "from"] : n \in s.names}
         : s \in stmts}

\* ------------------------------------------------------------------ 3. the collector
\* what the CODE believes is standard library (context/import_collector.py COMMON_STDLIB) - as-is side only
CodeStdlib == {"typing", "os", "sys", "re", "json", "collections", "datetime", "enum", "pathlib", "abc", "contextlib",
               "functools", "itertools", "logging", "math", "decimal", "dataclasses", "asyncio", "tempfile", "subprocess", "textwrap"}
PreferPlain == {"os", "sys", "re", "json", "contextlib", "functools", "itertools", "logging", "math", "asyncio", "tempfile", "subprocess", "textwrap"}
KnownThird == {"httpx", "pydantic"}
\* names add_typing_imports_for_type knows (render_context.py known_typing_constructs) - as-is side only
CodeTyping == {"List", "Optional", "Dict", "Set", "Tuple", "Union", "Any", "AsyncIterator", "Iterator", "Sequence", "Mapping",
               "Type", "Literal", "TypedDict", "DefaultDict", "Deque", "Counter", "ChainMap", "NoReturn", "Generator", "Awaitable",
               "Callable", "Protocol", "runtime_checkable", "Self", "ClassVar", "Final", "Required", "NotRequired", "Annotated",
               "TypeGuard", "SupportsIndex", "SupportsAbs", "SupportsBytes", "SupportsComplex", "SupportsFloat", "SupportsInt",
               "SupportsRound", "TypeAlias"}
\* PYTHON's typing module (typing.__all__ of 3.12, the part the scenarios can mention; the harness checks the pool against the interpreter)
PyTyping == CodeTyping \cup {"IO", "Iterable", "FrozenSet", "AsyncGenerator", "Coroutine", "Collection", "MutableMapping",
               "TypeVar", "Generic", "cast", "overload", "TYPE_CHECKING", "NamedTuple", "Never", "LiteralString"}
\* schemas of the scenarios: class name -> module stem under <out>.models
Models == ("Pet" :> "pet") @@ ("Owner" :> "owner")

Empty == [abs |-> {}, rel |-> {}, plain |-> {}, cond |-> {}]

\* ImportCollector.add_import
ColAdd(st, m, n) ==
  IF Len(m) = 1 /\ m[1] = n /\ n \in PreferPlain THEN [st EXCEPT !.plain = @ \cup {m}]
  ELSE [st EXCEPT !.abs = @ \cup {<<m, n>>}]
ColAddOrPlain(st, m, n) == IF n = "" THEN [st EXCEPT !.plain = @ \cup {m}] ELSE ColAdd(st, m, n)

\* directory arithmetic of calculate_relative_path_for_internal_module: `dir` is the directory of the current file,
\* the target is a directory (package) or a .py file; the result is (dots, remaining components)
RelDir(dir, tp)  == LET L == CPL(dir, tp) IN [level |-> Len(dir) - L + 1, tail |-> DropN(tp, L)]
RelFile(dir, tp) == LET L == CPL(dir, Front(tp)) IN [level |-> Len(dir) - L + 1, tail |-> DropN(tp, L)]

\* "incomplete path" completion of add_import / add_conditional_import (business.models.x -> pyapis.business.models.x).
\* as-is (since 6686a9c): when the module starts with the suffix and does not start with "<output package>." - the
\* output package ITSELF still counts as incomplete; as it should be: only when it is not already complete
Complete(cx, m, q) ==
  IF Len(cx.outpkg) >= 2 /\ SPfx(Tail(cx.outpkg), m) /\ (IF q THEN ~SPfx(cx.outpkg, m) ELSE ~Pfx(cx.outpkg, m))
  THEN <<Head(cx.outpkg)>> \o m ELSE m

\* RenderContext.add_import(logical_module, name)  (name "" = None)
CtxAdd(cx, st, m0, n, q) ==
  IF m0 = <<>> THEN st ELSE
  LET m == Complete(cx, m0, q) IN
  IF Pfx(cx.core, m) THEN ColAddOrPlain(st, m, n)                                  \* core: absolute
  ELSE IF m[1] \in CodeStdlib \/ m[1] \in KnownThird THEN ColAddOrPlain(st, m, n)  \* stdlib / third party
  ELSE IF Pfx(cx.pkgname, m) THEN                                                   \* internal
    IF m = cx.cur THEN st
    ELSE LET mr    == IF m = cx.pkgname THEN (IF q THEN m ELSE <<>>) ELSE DropN(m, Len(cx.pkgname))
             tp    == cx.root \o mr
             asDir == IF q THEN cx.mat /\ IsPkg(cx.tree, tp) ELSE IsPkg(cx.tree, tp)
             dir   == PkgOf(cx.cur, cx.curpkg)
             rel   == IF asDir THEN RelDir(dir, tp) ELSE RelFile(dir, tp)
         IN IF ~asDir /\ tp = cx.cur /\ ~cx.curpkg THEN ColAddOrPlain(st, m, n)   \* the target FILE is the current file
            ELSE IF n = "" THEN (IF q THEN st ELSE [st EXCEPT !.plain = @ \cup {m}])
            ELSE [st EXCEPT !.rel = @ \cup {<<rel.level, rel.tail, n>>}]
  ELSE ColAddOrPlain(st, m, n)

\* RenderContext.add_typing_imports_for_type(text): ids = free names, quals \subseteq {"date","datetime"} = uses of datetime.<x>
TypeAdd(cx, st, ids, quals, q) ==
  LET s1 == IF q THEN FoldSet(LAMBDA x, acc : CtxAdd(cx, acc, <<"datetime">>, x, q), st, quals) ELSE st
      words == IF quals = {} THEN ids ELSE ids \ ({"date", "datetime"} \cup {"datetime"})
      known == IF q THEN CodeTyping ELSE PyTyping
      s2 == FoldSet(LAMBDA x, acc : ColAdd(acc, <<"typing">>, x), s1, words \cap known)
      \* (the model's own module is recognised before add_import completes "incomplete" paths)
      s3 == FoldSet(LAMBDA x, acc : CtxAdd(cx, acc, cx.pkgname \o <<"models", Models[x]>>, x, q), s2,
                    {x \in (words \ known) \cap DOMAIN Models : cx.pkgname \o <<"models", Models[x]>> # cx.cur})
  IN IF q \/ quals = {} THEN s3 ELSE [s3 EXCEPT !.plain = @ \cup {<<"datetime">>}]

\* RenderContext.get_core_import_path(submodule) and the import of `name` from the path it answers.  As-is: a core
\* package name with a dot is absolute, otherwise a file-system relative path from the current directory to
\* <project root>/<core>/<submodule> is turned into dots (_calculate_relative_core_path).  As it should be: a relative
\* import cannot leave the top-level package, so a core outside it is absolute.
CorePathAdd(cx, st, sub, n, q) ==
  LET tp == cx.core \o sub  dir == PkgOf(cx.cur, cx.curpkg)  rel == RelDir(dir, tp) IN
  IF q /\ Len(cx.core) = 1 THEN [st EXCEPT !.rel = @ \cup {<<rel.level, rel.tail, n>>}] ELSE ColAdd(st, tp, n)

\* A call: [op, mod, name, level, ids, quals, text]   (every field always present)
Apply(cx, st, c, q) ==
  CASE c.op = "ctx_import"   -> CtxAdd(cx, st, c.mod, c.name, q)
    [] c.op = "ctx_plain"    -> [st EXCEPT !.plain = @ \cup {c.mod}]
    [] c.op = "ctx_type"     -> TypeAdd(cx, st, c.ids, c.quals, q)
    [] c.op = "ctx_cond"     -> [st EXCEPT !.cond = @ \cup {<<c.text, Complete(cx, c.mod, q), c.name>>}]
    [] c.op = "ctx_core_path" -> CorePathAdd(cx, st, c.mod, c.name, q)
    [] c.op = "col_import"   -> ColAdd(st, c.mod, c.name)
    [] c.op = "col_relative" -> [st EXCEPT !.rel = @ \cup {<<c.level, c.mod, c.name>>}]
    [] c.op = "col_typing"   -> ColAdd(st, <<"typing">>, c.name)
    [] c.op = "col_plain"    -> [st EXCEPT !.plain = @ \cup {c.mod}]
ApplyAll(cx, calls, q) == FoldSet(LAMBDA c, acc : Apply(cx, acc, c, q), Empty, calls)

\* make_relative_import(current_module_dot_path, target) of import_collector.py (as-is: the current module is always
\* treated as a plain module of its parent package)
MakeRel(cur, tgt) ==
  LET dir == Front(cur)  L == CPL(dir, tgt)  up == Len(dir) - L IN
  IF up = 0 THEN [level |-> 1, tail |-> IF SPfx(cur, tgt) THEN DropN(tgt, Len(cur)) ELSE DropN(tgt, L)]
  ELSE [level |-> up + 1, tail |-> DropN(tgt, L)]

Stmt(kind, level, tail, names, grp, cond) == [kind |-> kind, level |-> level, tail |-> tail, names |-> names, grp |-> grp, cond |-> cond, idx |-> 0]
Number(S) == LET q0 == SetToSeq(S) IN {[q0[i] EXCEPT !.idx = q0[i].grp * 100 + i] : i \in 1..Len(q0)}

\* entries of the collector as [level, tail, n]
Entries(st) == {[level |-> 0, tail |-> e[1], n |-> e[2]] : e \in st.abs} \cup {[level |-> e[1], tail |-> e[2], n |-> e[3]] : e \in st.rel}

\* render: "render_imports" | "get_formatted_imports" | "get_import_statements"
Render(cx, st0, render, q) ==
  LET guard == render = "render_imports" /\ \E c \in st0.cond : c[1] = "TYPE_CHECKING"
      st == IF guard THEN ColAdd(st0, <<"typing">>, "TYPE_CHECKING") ELSE st0
      pkg == PkgOf(cx.cur, cx.curpkg)
      \* get_import_statements turns absolute names of the package into relative ones
      conv(e) == IF render = "get_import_statements" /\ e.level = 0 /\ ~Pfx(cx.core, e.tail) /\ e.tail[1] \notin CodeStdlib /\ SPfx(cx.pkgname, e.tail)
                 THEN (IF q THEN [level |-> MakeRel(cx.cur, e.tail).level, tail |-> MakeRel(cx.cur, e.tail).tail, n |-> e.n, was |-> 0]
                       ELSE [level |-> RelDir(pkg, e.tail).level, tail |-> RelDir(pkg, e.tail).tail, n |-> e.n, was |-> 0])
                 ELSE [level |-> e.level, tail |-> e.tail, n |-> e.n, was |-> e.level]
      E0 == {conv(e) : e \in Entries(st)}
      tgt(e) == Resolve(pkg, e.level, e.tail).mod
      \* as it should be: a module never imports itself and a (module, name) is provided once
      E1 == IF q THEN E0 ELSE
            LET live == {e \in E0 : tgt(e) # cx.cur} IN
            {e \in live : \A e2 \in live : (tgt(e2) = tgt(e) /\ e2.n = e.n) => (e = CHOOSE x \in {y \in live : tgt(y) = tgt(e) /\ y.n = e.n} : TRUE)}
      grpOf(e) == IF render = "get_import_statements" THEN (IF e.was = 0 THEN 2 ELSE 3)
                  ELSE IF e.level > 0 THEN 4
                  ELSE IF ~q /\ e.tail = <<"__future__">> THEN 0
                  ELSE IF e.tail[1] \in CodeStdlib THEN 1 ELSE 2
      keys == {<<e.level, e.tail, grpOf(e)>> : e \in E1}
      froms == {Stmt("from", k[1], k[2], {e.n : e \in {x \in E1 : x.level = k[1] /\ x.tail = k[2] /\ grpOf(x) = k[3]}}, k[3], "") : k \in keys}
      plains == {Stmt("import", 0, m, {}, IF render = "get_import_statements" THEN 1 ELSE 3, "") : m \in st.plain}
      conds == IF render = "render_imports"
               THEN {Stmt("from", 0, k[2], {c[3] : c \in {x \in st.cond : x[1] = k[1] /\ x[2] = k[2]}}, 5, k[1]) : k \in {<<c[1], c[2]>> : c \in st.cond}}
               ELSE {}
  IN Number(froms \cup plains \cup conds)

\* ------------------------------------------------------------------ 4. what is asked for
\* why = the method that asked ("guard": the TYPE_CHECKING name a conditional block needs)
Req(t, n, cond, why) == [t |-> t, n |-> n, cond |-> cond, why |-> why]
Intent(cx, c) ==
  CASE c.op = "ctx_import"   -> {Req(Complete(cx, c.mod, FALSE), c.name, "", c.op)}
    [] c.op = "ctx_core_path" -> {Req(cx.core \o c.mod, c.name, "", c.op)}
    [] c.op = "ctx_plain"    -> {Req(c.mod, "", "", c.op)}
    [] c.op = "col_plain"    -> {Req(c.mod, "", "", c.op)}
    [] c.op = "col_import"   -> {Req(c.mod, c.name, "", c.op)}
    [] c.op = "col_typing"   -> {Req(<<"typing">>, c.name, "", c.op)}
    [] c.op = "col_relative" -> {Req(Resolve(PkgOf(cx.cur, cx.curpkg), c.level, c.mod).mod, c.name, "", c.op)}
    [] c.op = "ctx_cond"     -> {Req(Complete(cx, c.mod, FALSE), c.name, c.text, c.op)}
                                \cup (IF c.text = "TYPE_CHECKING" THEN {Req(<<"typing">>, "TYPE_CHECKING", "", "guard")} ELSE {})
    [] c.op = "ctx_type"     -> {Req(<<"typing">>, x, "", c.op) : x \in c.ids \cap PyTyping}
                                \cup {Req(cx.pkgname \o <<"models", Models[x]>>, x, "", c.op) : x \in (c.ids \ PyTyping) \cap DOMAIN Models}
                                \cup (IF c.quals # {} THEN {Req(<<"datetime">>, "", "", c.op)} ELSE {})
Reqs(cx, calls) == UNION {Intent(cx, c) : c \in calls}

\* ------------------------------------------------------------------ 5. the judge
TargetKind(cx, m) == IF Pfx(cx.core, m) THEN "core:" \o cx.tree.kind ELSE IF m = cx.tree.out THEN "root" ELSE IF Pfx(cx.tree.out, m) THEN "internal" ELSE "external"
Locus(cx, render, via, target, form, got, delta, name) ==
  [api |-> cx.api, render |-> render, via |-> via, cur |-> IF cx.curpkg THEN "package" ELSE "module", target |-> target, form |-> form, got |-> got, delta |-> delta, name |-> name]
Form(p) == IF p.kind = "import" THEN "plain" ELSE IF p.level = 0 THEN "absolute" ELSE "relative"
Got(cx, p) == IF ~p.ok THEN "beyond_top" ELSE IF p.t \notin Universe(cx.tree) THEN "nonexistent" ELSE IF p.t = cx.cur THEN "self" ELSE "other_module"
Delta(cx, p, r) == IF ~p.ok THEN "" ELSE IF p.t = cx.tree.out \o r.t THEN "root_prepended"
                   ELSE IF p.t = <<cx.tree.out[1]>> \o r.t THEN "head_prepended" ELSE "other"

Sat(p, r) == p.ok /\ p.n = r.n /\ p.t = r.t /\ p.cond = r.cond

Judge(cx, reqs0, stmts, render) ==
  LET P    == Providers(cx, stmts)
      reqs == {r \in reqs0 : r.t # cx.cur /\ (render = "render_imports" \/ r.cond = "")}
      unsat == {r \in reqs : ~\E p \in P : Sat(p, r)}
      orphan == {p \in P : ~\E r \in reqs : Sat(p, r)}                    \* statements nobody asked for
      cand(r) == {p \in orphan : p.n = r.n /\ p.cond = r.cond /\ (p.kind = "import") = (r.n = "")}
      first(S) == CHOOSE p \in S : \A p2 \in S : p.idx <= p2.idx
      \* the candidate that explains the request best: one whose module is the asked module with something prepended
      one(S, r) == LET near == {p \in S : Delta(cx, p, r) \notin {"", "other"}} IN IF near # {} THEN first(near) ELSE first(S)
      name(r) == IF r.n = "" THEN r.t[Len(r.t)] ELSE r.n
      \* resolves / core_form / typing_complete / no_loss
      A == {LET C == cand(r)
                cl == IF r.why = "ctx_type" THEN "typing_complete" ELSE IF C = {} THEN "no_loss" ELSE IF Pfx(cx.core, r.t) THEN "core_form" ELSE "resolves" IN
            [clause |-> cl,
             locus |-> IF C = {} THEN Locus(cx, render, r.why, TargetKind(cx, r.t), IF r.n = "" THEN "plain" ELSE "", "missing", "", IF r.why = "ctx_type" \/ TargetKind(cx, r.t) = "external" THEN name(r) ELSE "")
                       ELSE Locus(cx, render, r.why, TargetKind(cx, r.t), Form(one(C, r)), Got(cx, one(C, r)), Delta(cx, one(C, r), r), IF r.why = "ctx_type" THEN name(r) ELSE "")]
            : r \in unsat}
      \* no_spurious: a statement on a module of the tree (or on a module that does not exist) that answers no request
      \* and is not the (mis-resolved) answer to an unsatisfied one
      deltaAny(p) == LET R == {r \in reqs0 \cup {Req(cx.cur, p.n, "", "self")} : r.n = p.n /\ Delta(cx, p, r) \notin {"", "other"}} IN
                     IF R = {} THEN "other" ELSE Delta(cx, p, CHOOSE r \in R : TRUE)
      B == {[clause |-> "no_spurious", locus |-> Locus(cx, render, "", "", Form(p), Got(cx, p), deltaAny(p), p.n)]
            : p \in {x \in orphan : x.t # cx.cur /\ x.t \notin ExtMods /\ ~\E r \in unsat : x \in cand(r)}}
      \* within_top: no relative import climbs above the top-level package
      askers(p) == {r \in reqs0 : r.n = p.n}
      viaOf(p) == IF askers(p) = {} THEN "" ELSE (CHOOSE r \in askers(p) : TRUE).why
      tgtOf(p) == IF askers(p) = {} THEN "" ELSE TargetKind(cx, (CHOOSE r \in askers(p) : TRUE).t)
      W == {[clause |-> "within_top", locus |-> Locus(cx, render, viaOf(p), tgtOf(p), "relative", "beyond_top", "", "")] : p \in {x \in P : ~x.ok}}
      \* no_self
      D == {[clause |-> "no_self", locus |-> Locus(cx, render, "", "", Form(p), "self", "", "")] : p \in {x \in P : x.ok /\ x.t = cx.cur /\ x.kind = "from" /\ x.cond = ""}}
      \* once
      E == {[clause |-> "once", locus |-> Locus(cx, render, "", "", IF pp[1].level = 0 \/ pp[2].level = 0 THEN (IF pp[1].level = pp[2].level THEN "absolute+absolute" ELSE "absolute+relative") ELSE "relative+relative", "duplicate", "", "")]
            : pp \in {x \in P \X P : x[1].idx < x[2].idx /\ x[1].ok /\ x[2].ok /\ x[1].t = x[2].t /\ x[1].n = x[2].n /\ x[1].cond = x[2].cond /\ x[1].kind = x[2].kind}}
      \* grouped: the order of the kinds of statements the docstrings promise; __future__ before everything else
      U == {s \in stmts : s.cond = ""}
      class(s) == IF render = "get_import_statements" THEN (IF s.kind = "import" THEN 1 ELSE 2)
                  ELSE IF s.kind = "import" THEN 2 ELSE IF s.level = 0 THEN 1 ELSE 3
      fut(s) == s.kind = "from" /\ s.level = 0 /\ s.tail = <<"__future__">>
      F == (IF \E s1 \in U, s2 \in U : s1.idx < s2.idx /\ ~fut(s1) /\ ~fut(s2) /\ class(s1) > class(s2)
            THEN {[clause |-> "grouped", locus |-> Locus(cx, render, "", "", "", "kind_order", "", "")]} ELSE {})
           \cup (IF render # "get_import_statements" /\ \E s1 \in U, s2 \in U : s1.grp = s2.grp /\ ~fut(s1) /\ ~fut(s2) /\ class(s1) # class(s2)
            THEN {[clause |-> "grouped", locus |-> Locus(cx, render, "", "", "", "mixed_block", "", "")]} ELSE {})
           \cup (IF \E s1 \in U, s2 \in U : s1.idx < s2.idx /\ ~fut(s1) /\ fut(s2)
            THEN {[clause |-> "grouped", locus |-> Locus(cx, render, "", "external", "absolute", "future_not_first", "", "__future__")]} ELSE {})
  IN A \cup B \cup W \cup D \cup E \cup F

Clauses == {"resolves", "core_form", "typing_complete", "no_loss", "no_spurious", "within_top", "no_self", "once", "grouped"}

\* ------------------------------------------------------------------ call pool of a context (scenario family)
Call(op, mod, name, level, ids, quals, text) == [op |-> op, mod |-> mod, name |-> name, level |-> level, ids |-> ids, quals |-> quals, text |-> text]
C2(op, mod, name) == Call(op, mod, name, 0, {}, {}, "")
\* the type strings (text, free names, datetime.<x> uses)
Types == {<<"List[Optional[Pet]]", {"List", "Optional", "Pet"}, {}>>,
          <<"Dict[str, Any]", {"Dict", "str", "Any"}, {}>>,
          <<"Pet | None", {"Pet", "None"}, {}>>,
          <<"Union[Pet, Owner]", {"Union", "Pet", "Owner"}, {}>>,
          <<"Literal['a', 'b']", {"Literal"}, {}>>,
          <<"AsyncIterator[Dict[str, Any]]", {"AsyncIterator", "Dict", "str", "Any"}, {}>>,
          <<"Tuple[int, UUID]", {"Tuple", "int", "UUID"}, {}>>,
          <<"Optional[datetime]", {"Optional", "datetime"}, {}>>,
          <<"Optional[datetime.date]", {"Optional", "datetime"}, {"date"}>>,
          <<"dict[str, IO[Any]]", {"dict", "str", "IO", "Any"}, {}>>}

Pool(cx) ==
  LET out == cx.tree.out  core == cx.core
      ext == {C2("col_typing", <<>>, "List"), C2("ctx_plain", <<"json">>, ""), C2("ctx_import", <<"typing">>, "Any"),
              C2("ctx_import", <<"os">>, ""), C2("ctx_import", <<"datetime">>, "date"), C2("ctx_import", <<"uuid">>, "UUID"),
              C2("ctx_import", <<"httpx">>, "Response"), C2("ctx_import", <<"collections", "abc">>, "ValuesView"),
              C2("ctx_plain", <<"collections", "abc">>, ""), C2("ctx_import", <<"__future__">>, "annotations")}
      cor == {C2("ctx_import", core, "HTTPError"), C2("ctx_import", core \o <<"http_transport">>, "HttpTransport"),
              C2("ctx_import", core \o <<"auth", "plugins">>, "ApiKeyAuth")}
      cpath == {C2("ctx_core_path", <<"config">>, "ClientConfig")}
      int == {C2("ctx_import", out \o <<"models", "pet">>, "Pet"), C2("ctx_import", out \o <<"models", "owner">>, "Owner"),
              C2("ctx_import", out \o <<"models", "owner">>, "Pet"), C2("ctx_import", out \o <<"models">>, "Thing"),
              C2("ctx_import", out \o <<"endpoints", "pets">>, "PetsClient"), C2("ctx_import", out \o <<"client">>, "APIClient"),
              C2("ctx_import", out, "Root"), C2("ctx_import", out \o <<"mocks", "endpoints", "mock_pets">>, "MockPetsClient"),
              C2("ctx_import", out \o <<"models", "owner">>, ""),
              Call("ctx_cond", out \o <<"models", "pet">>, "Pet", 0, {}, {}, "TYPE_CHECKING")}
              \cup (IF Len(out) >= 2 THEN {C2("ctx_import", Tail(out) \o <<"models", "pet">>, "Pet")} ELSE {})
      \* relative imports handed straight to the collector (client_visitor does that); only well-formed ones (through a
      \* RenderContext also never the module itself: add_import is the guarded way in; the bare collector is told its
      \* current module and its get_import_statements says it leaves self-imports out; and spelled the way RenderContext
      \* spells the module - the collector keys on the spelling)
      rel == {c \in {Call("col_relative", <<"endpoints", "pets">>, "PetsClient", 1, {}, {}, ""),
                     Call("col_relative", <<"models", "pet">>, "Pet", 2, {}, {}, ""),
                     Call("col_relative", <<"owner">>, "Owner", 1, {}, {}, "")} :
                LET r == Resolve(PkgOf(cx.cur, cx.curpkg), c.level, c.mod) IN
                /\ r.ok /\ r.mod \in Paths(cx.tree)
                /\ cx.api = "context" => /\ r.mod # cx.cur
                                         /\ RelFile(PkgOf(cx.cur, cx.curpkg), r.mod) = [level |-> c.level, tail |-> c.mod]}
      typ == {Call("ctx_type", <<>>, "", 0, ty[2], ty[3], ty[1]) : ty \in Types}
      col == {C2("col_import", out \o <<"models", "pet">>, "Pet"), C2("col_import", out \o <<"models", "owner">>, "Owner"),
              C2("col_import", out \o <<"models">>, "Thing"), C2("col_import", out \o <<"endpoints", "pets">>, "PetsClient"),
              C2("col_import", out \o <<"client">>, "APIClient"), C2("col_import", out, "Root"),
              C2("col_import", core \o <<"http_transport">>, "HttpTransport"), C2("col_import", <<"typing">>, "Any"),
              C2("col_import", <<"httpx">>, "Response"), C2("col_import", <<"uuid">>, "UUID"), C2("col_typing", <<>>, "List"),
              C2("col_plain", <<"os">>, ""), C2("col_plain", <<"collections", "abc">>, "")}
  IN IF cx.api = "collector" THEN col \cup rel
     ELSE IF cx.where = "core" THEN ext \cup cor \cup {c \in typ : c.ids \cap DOMAIN Models = {}}
     ELSE ext \cup cor \cup cpath \cup int \cup rel \cup typ

Renders(cx) == IF cx.api = "context" THEN {"render_imports"} ELSE {"get_import_statements", "get_formatted_imports"}
=============================================================================
