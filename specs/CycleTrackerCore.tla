--------------------------- MODULE CycleTrackerCore -------------------------
(***************************************************************************)
(* Implementation-shaped model of                                          *)
(*   src/pyopenapi_gen/core/parsing/unified_cycle_detection.py             *)
(*     unified_enter_schema / unified_cycle_check / unified_exit_schema    *)
(*                                                                         *)
(* The step functions EnterF / ExitF are constant-level operators over a   *)
(* configuration record c and a tracker state record s, so that the same   *)
(* definitions serve                                                       *)
(*   - the design model (actions Enter / Exit below, checked by TLC),       *)
(*   - the big-step parser model (SchemaParse), and                        *)
(*   - the trace monitor (Trace_CycleTracker) which has one configuration  *)
(*     per recorded trace.                                                 *)
(* The string heuristics the code keys its placeholder-storage policy on   *)
(* are fields of c, computed by the harness with plain string operations.  *)
(*                                                                         *)
(*   c == [maxDepth, synthetic, hasChildren, hasChildItem, nestedOf]       *)
(*   s == [stack, st, depth, reg]                                          *)
(***************************************************************************)
EXTENDS Naturals, Sequences, FiniteSets

NoName == "__none__"     \* the anonymous schema name (None in the code)

States == {"NS", "IP", "DONE", "PH_CYCLE", "PH_DEPTH", "PH_SELF"}
PH     == {"PH_CYCLE", "PH_DEPTH", "PH_SELF"}

InSeq(x, s) == \E i \in 1..Len(s) : s[i] = x
FirstIdx(x, s) == CHOOSE i \in 1..Len(s) : s[i] = x /\ \A j \in 1..(i-1) : s[j] # x
RemoveFirst(x, s) ==
  IF ~InSeq(x, s) THEN s
  ELSE LET i == FirstIdx(x, s) IN SubSeq(s, 1, i-1) \o SubSeq(s, i+1, Len(s))
SeqSet(s) == {s[i] : i \in 1..Len(s)}

StOf(s, n) == IF n \in DOMAIN s.st THEN s.st[n] ELSE "NS"
SetSt(s, n, v) == [m \in (DOMAIN s.st) \cup {n} |-> IF m = n THEN v ELSE s.st[m]]

\* analyze_cycle: cycle_path = stack[idx:] + [n]
CyclePath(n, stk) == SubSeq(stk, FirstIdx(n, stk), Len(stk)) \o <<n>>
Direct(n, stk)    == Len(CyclePath(n, stk)) = 2

\* should_store_placeholder, unified_cycle_detection.py:213-237
ShouldStore(c, n, stk) ==
  LET p == SeqSet(CyclePath(n, stk)) IN
     \/ n \in c.synthetic
     \/ Direct(n, stk)
     \/ (p \cap c.hasChildren # {} /\ p \cap c.hasChildItem # {})
     \/ (n \in DOMAIN c.nestedOf /\ p \cap c.nestedOf[n] # {})

\* unified_cycle_check, evaluated after recursion_depth was incremented to d
Outcome(c, s, n, d) ==
  IF n = NoName THEN "continue"
  ELSE IF StOf(s, n) = "DONE" THEN "existing"
  ELSE IF StOf(s, n) \in PH THEN "placeholder"
  ELSE IF d > c.maxDepth THEN "create_depth"
  ELSE IF InSeq(n, s.stack) THEN "create_cycle"
  ELSE "continue"

\* unified_enter_schema(n) with context.allow_self_reference = allowSelf
EnterF(c, s, n, allowSelf) ==
  LET d == s.depth + 1
      o == Outcome(c, s, n, d)
      base == [s EXCEPT !.depth = d]
  IN CASE o = "continue" /\ n # NoName ->
            [stack |-> Append(s.stack, n), st |-> SetSt(s, n, "IP"), depth |-> d, reg |-> s.reg, o |-> o, stored |-> FALSE]
       [] o = "create_depth" ->
            [stack |-> s.stack, st |-> SetSt(s, n, "PH_DEPTH"), depth |-> d, reg |-> s.reg \cup {n}, o |-> o, stored |-> TRUE]
       [] o = "create_cycle" ->
            IF ShouldStore(c, n, s.stack)
              THEN [stack |-> s.stack,
                    st |-> SetSt(s, n, IF allowSelf /\ Direct(n, s.stack) THEN "PH_SELF" ELSE "PH_CYCLE"),
                    depth |-> d, reg |-> s.reg \cup {n}, o |-> o, stored |-> TRUE]
              ELSE [stack |-> s.stack, st |-> s.st, depth |-> d, reg |-> s.reg, o |-> o, stored |-> FALSE]
       [] OTHER ->
            [stack |-> s.stack, st |-> s.st, depth |-> d, reg |-> s.reg, o |-> o, stored |-> FALSE]

\* unified_exit_schema(n)
ExitF(s, n) ==
  [stack |-> IF n # NoName THEN RemoveFirst(n, s.stack) ELSE s.stack,
   st    |-> IF n # NoName /\ StOf(s, n) = "IP" THEN SetSt(s, n, "DONE") ELSE s.st,
   depth |-> IF s.depth > 0 THEN s.depth - 1 ELSE 0,
   reg   |-> s.reg]

\* rest-state predicate of C08 on a state record
AtRestS(s) == s.depth = 0 /\ s.stack = <<>> /\ \A n \in DOMAIN s.st : s.st[n] # "IP"

=============================================================================
