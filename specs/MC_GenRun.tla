------------------------------ MODULE MC_GenRun ------------------------------
(* Exhaustive design check of GenRun plus emission of one SCEN line per behaviour:
   the scenario, the result and the clauses the MODELLED implementation violates. *)
EXTENDS GenRun, Json
VARIABLE printed
MCInit == Init /\ printed = FALSE
Emit == /\ Done /\ ~printed /\ printed' = TRUE /\ UNCHANGED vars
        /\ PrintT("SCEN " \o ToJson([sc |-> sc, result |-> result, viol |-> viol, touched |-> touched, tmpUsed |-> tmpUsed]))
MCNext == (Next /\ UNCHANGED printed) \/ Emit
MCSpec == MCInit /\ [][MCNext]_<<vars, printed>>
TypeOK == pc \in 1..(Len(Stages) + 1) /\ touched \subseteq RootClasses /\ result \in {"running", "ok", "raised"}
=============================================================================
