-------------------------- MODULE Gen_RenderFamily --------------------------
(***************************************************************************)
(* X02, second layer: the bounded family of inputs handed to               *)
(* PythonConstructRenderer.render_dataclass / render_enum / render_alias / *)
(* render_class (one SCEN line each).  "NONE" = None.                      *)
(***************************************************************************)
EXTENDS Naturals, Sequences, FiniteSets, TLC, Json

CONSTANTS MaxFields,     \* longest field / member list
          Rich           \* TRUE: the larger pools (thorough tier)

Long == "https://example.org/a/very/long/reference/that/does/not/fit/on/a/docstring/line/of/eighty/eight/columns"
Descs == {"NONE", "A pet.", "First line.\n\nSecond paragraph, after an empty line.",
          "A description that is rather long and goes on and on and on, well beyond the width of eighty-eight characters for sure."}
         \cup (IF Rich THEN {"", "See " \o Long \o " for details.", "  padded  "} ELSE {})

Field(n, t, d, c) == [name |-> n, type |-> t, default |-> d, desc |-> c]
FieldPool == {Field("id_", "str", "NONE", "Maps from 'id'"),
              Field("tags", "List[str] | None", "field(default_factory=list)", "the tags\nof it"),
              Field("n", "int", "3", ""),
              Field("owner", "Dict[str, Any]", "NONE", "who owns\nit")}
             \cup (IF Rich THEN {Field("kind", "str | None", "None", "kind of pet # not a comment")} ELSE {})
\* injective sequences over a pool, up to a length
RECURSIVE InjSeqs(_, _)
InjSeqs(S, n) == IF n = 0 THEN {<<>>} ELSE
  LET shorter == InjSeqs(S, n - 1)
  IN shorter \cup UNION {{Append(q, x) : x \in S \ {q[i] : i \in 1..Len(q)}} : q \in {p \in shorter : Len(p) = n - 1}}
Mappings == {<<>>, <<<<"id", "id_">>, <<"petTags", "tags">>>>}

Dataclasses == {[kind |-> "dataclass", name |-> nm, fields |-> fs, desc |-> d, mapping |-> m] :
                  nm \in {"Pet"} \cup (IF Rich THEN {"HTTPError2"} ELSE {}), fs \in InjSeqs(FieldPool, MaxFields), d \in Descs, m \in Mappings}

Member(n, v) == [name |-> n, value |-> v]
StrMembers == {Member("RED", "red"), Member("DARK_BLUE", "dark blue"), Member("VALUE_1", "1")}
IntMembers == {Member("VALUE_1", "1"), Member("VALUE_200", "200"), Member("MINUS_1", "-1")}
Enums == {[kind |-> "enum", name |-> "Color", base |-> "str", members |-> ms, desc |-> d] : ms \in InjSeqs(StrMembers, MaxFields), d \in Descs}
         \cup {[kind |-> "enum", name |-> "Level", base |-> "int", members |-> ms, desc |-> d] : ms \in InjSeqs(IntMembers, MaxFields), d \in Descs}

Aliases == {[kind |-> "alias", name |-> nm, target |-> t, desc |-> d] :
              nm \in {"UserId", "PetList"}, t \in {"str", "List[Pet]", "Dict[str, Any] | None", "Union[Cat, Dog]"}, d \in Descs}

Bodies == {<<>>, <<"x = 1">>, <<"def f(self) -> int:", "    return 1">>,
           <<"def __init__(self, response: Response) -> None:", "    \"\"\"Initialise.", "", "    Args:", "        response: The response", "    \"\"\"", "    super().__init__(response=response)">>,
           <<"x = 1", "", "y = 2">>}
Classes == {[kind |-> "class", name |-> "NotFoundError", bases |-> b, doc |-> d, body |-> body] :
              b \in {<<>>, <<"ClientError">>, <<"A", "B">>}, d \in {"NONE", "", "HTTP 404.", "HTTP 404 Not Found.\n\nRaised when the server responds with a 404 status code."},
              body \in Bodies}

All == Dataclasses \cup Enums \cup Aliases \cup Classes
VARIABLES x, done
Init == x \in All /\ done = FALSE
Emit == ~done /\ done' = TRUE /\ UNCHANGED x /\ PrintT("SCEN " \o ToJson(x))
Spec == Init /\ [][Emit]_<<x, done>>
=============================================================================
