------------------------------- MODULE Codec -------------------------------
(***************************************************************************)
(* The bundled cattrs converter (core/cattrs_converter.py) and the         *)
(* convenience serialiser (core/utils.py DataclassSerializer).             *)
(*                                                                         *)
(* 1. an abstract TYPE LANGUAGE for mapped dataclasses                     *)
(* 2. constant-level reference semantics: Conforms / Instances / Decode /  *)
(*    Encode, the round-trip LAWS with their tolerances, the family of     *)
(*    non-conforming inputs (Mutants) and what an error must say           *)
(* 3. the REGISTRY state machine: the module-global converter whose hooks  *)
(*    are registered lazily by structure_from_dict / unstructure_to_dict   *)
(* 4. the SERIALISER over instance graphs (cycles, shared references)      *)
(*                                                                         *)
(* Every operator takes the class table `cl` explicitly                    *)
(*   cl : class name -> [meta, extends ("" = none),                        *)
(*                        fields : Seq([py, wire, ty, req])]                *)
(* so that generators (Gen_Codec), the design model (MC_Codec) and the     *)
(* monitor (Trace_Codec) share one definition.                             *)
(*                                                                         *)
(* JSON values are TAGGED TREES (TLC refuses to compare values of          *)
(* different types):                                                       *)
(*   [t |-> "s"|"i"|"f"|"b", v |-> <string>]   leaf, v is the spelling     *)
(*   [t |-> "n"]                               null                        *)
(*   [t |-> "l", items |-> Seq(tree)]          array                       *)
(*   [t |-> "o", f |-> [key -> tree]]          object                      *)
(*   [t |-> "x", v |-> ...]                    not a JSON value (observed) *)
(* Python values (what structure_from_dict returns) are VALUE TREES:       *)
(*   [t |-> "leaf", c |-> <python class>, w |-> <normal form>]             *)
(*   [t |-> "none"] [t |-> "list", items] [t |-> "dict", f]                *)
(*   [t |-> "obj", cls, f |-> [python field name -> value]]                *)
(*   [t |-> "err", what, steps]     the reference decoder's failure        *)
(***************************************************************************)
EXTENDS Naturals, Sequences, FiniteSets, TLC, SequencesExt, FiniteSetsExt

----------------------------------------------------------------------------
(* 1. type language *)

Leafs == {"str", "int", "float", "bool", "bytes", "date", "datetime"}

LeafT(p) == [k |-> "leaf", p |-> p]
ClsT(n)  == [k |-> "cls", name |-> n]
ListT(t) == [k |-> "list", of |-> t]
DictT(t) == [k |-> "dict", of |-> t]
OptT(t)  == [k |-> "opt", of |-> t]

Fld(py, wire, ty, req) == [py |-> py, wire |-> wire, ty |-> ty, req |-> req]

\* one more level of wrapping (Optional[Optional[T]] is Optional[T] in Python: not generated)
Wrap(S) == {ListT(t) : t \in S} \cup {DictT(t) : t \in S} \cup {OptT(t) : t \in {u \in S : u.k # "opt"}}

\* the type a field really has in the dataclass: a non-required field is `Optional[T] = None`
EffTy(f) == IF f.req \/ f.ty.k = "opt" THEN f.ty ELSE OptT(f.ty)

\* CLASS HIERARCHIES.  An entry may carry `extends` (key of its parent: single inheritance, chains of any depth) and
\* `mixin` (a field-less extra base class).  `fields` lists the OWN fields; a field whose python name equals an
\* inherited one overrides it (type / default).  The python meaning of the inner `Meta` class decides the wire keys
\* of inherited fields: meta = "inherit" (no own Meta: the parent's maps apply, new fields are unmapped),
\* "extend" (Meta = parent's maps + own entries), "own" (Meta lists only the own entries: inherited fields that are
\* not overridden fall back to their python names).  Fs(cl, n) = all fields of n, inherited first.
\* every entry carries `extends` ("" = no parent).  (Testing `"extends" \in DOMAIN cl[n]` instead is pathologically
\* slow in TLC's -coverage mode.)
HasParent(cl, n) == cl[n].extends # ""
RECURSIVE FsRec(_, _)
FsRec(cl, n) ==
  IF ~HasParent(cl, n) THEN cl[n].fields
  ELSE LET own == cl[n].fields
           inh == FsRec(cl, cl[n].extends)
           ownAt(py) == own[CHOOSE i \in 1..Len(own) : own[i].py = py]
           adj(f) == IF \E i \in 1..Len(own) : own[i].py = f.py THEN ownAt(f.py)
                     ELSE IF cl[n].meta = "own" THEN [f EXCEPT !.wire = f.py] ELSE f
       IN [i \in 1..Len(inh) |-> adj(inh[i])]
          \o SelectSeq(own, LAMBDA f : ~\E i \in 1..Len(inh) : inh[i].py = f.py)
\* (non-recursive front: TLC's -coverage mode makes every application of a RECURSIVE operator very expensive)
Fs(cl, n) == IF HasParent(cl, n) THEN FsRec(cl, n) ELSE cl[n].fields
\* the same table with every hierarchy resolved (each class lists all of its fields, no `extends`): what the
\* semantic operators below are applied to (Fs of a flat table is a plain field access)
Flat(cl) == [n \in DOMAIN cl |->
               [meta |-> cl[n].meta, extends |-> "", pyname |-> cl[n].pyname, where |-> cl[n].where, fields |-> Fs(cl, n)]]
RECURSIVE Ancestors(_, _)
Ancestors(cl, n) == IF HasParent(cl, n) THEN {cl[n].extends} \cup Ancestors(cl, cl[n].extends) ELSE {}

\* Class identity is the table key.  DISTINCT classes may share their python name (`__module__` + `__qualname__`):
\* models returned by a factory (`page_of(User)` / `page_of(Order)` are both `page_of.<locals>.Page`),
\* `make_dataclass` under a fixed name, a reloaded model module.  Every entry carries `pyname` ("" = its key).
PyClsName(cl, n) == IF cl[n].pyname = "" THEN n ELSE cl[n].pyname
\* WHERE a class is declared is part of its identity as python sees it: `where` = "module" (qualname = name),
\* "nested" (declared inside another class: `Outer.Name`), "local" (inside a function: `factory.<locals>.Name`).
\* Nothing in the reference semantics depends on it - which is the point: the laws and the error-naming clause
\* hold for every declaration place.
QualName(cl, n) == CASE cl[n].where = "nested" -> "Outer." \o PyClsName(cl, n)
                     [] cl[n].where = "local"  -> "factory.<locals>." \o PyClsName(cl, n)
                     [] OTHER -> PyClsName(cl, n)

\* what the harness needs to BUILD the class: whether it has an own Meta and the (wire, python) pairs in it
MetaPairs(cl, n) ==
  LET own == cl[n].fields
      pairsOf(fs, all) == [i \in 1..Len(fs) |-> <<fs[i].wire, fs[i].py>>]
      differing(fs) == SelectSeq(fs, LAMBDA f : f.wire # f.py)
  IN CASE cl[n].meta \in {"none", "inherit"} -> <<>>
       [] cl[n].meta = "full"   -> pairsOf(own, TRUE)
       [] cl[n].meta = "diff"   -> pairsOf(differing(own), TRUE)
       [] cl[n].meta = "extend" -> pairsOf(Fs(cl, n), TRUE)
       [] cl[n].meta = "own"    -> pairsOf(own, TRUE)
WithBuild(cl) == [n \in DOMAIN cl |-> cl[n] @@ [build |-> [hasmeta |-> cl[n].meta \notin {"none", "inherit"}, pairs |-> MetaPairs(cl, n),
                                                           qualname |-> QualName(cl, n)]]]

RECURSIVE Tops(_)
Tops(T) ==        \* classes named by the annotation itself (through list / dict / Optional wrappers only)
  CASE T.k = "leaf" -> {}
    [] T.k \in {"list", "dict", "opt"} -> Tops(T.of)
    [] T.k = "cls" -> {T.name}

\* The classes of a table form a GRAPH (a field of P may mention Q and a field of Q may mention P: mutual
\* recursion through list / dict / Optional / direct links), not only a tree: reachability is a fixpoint.
FieldTops(cl, n) == UNION {Tops(Fs(cl, n)[i].ty) : i \in 1..Len(Fs(cl, n))}
RECURSIVE ReachFix(_, _)
ReachFix(cl, S) == LET nxt == S \cup UNION {FieldTops(cl, n) : n \in S} IN IF nxt = S THEN S ELSE ReachFix(cl, nxt)
Reach(cl, T) == ReachFix(cl, Tops(T))   \* classes reachable through the annotation (what hook registration must cover)
OnTypeCycle(cl, n) == n \in ReachFix(cl, FieldTops(cl, n))
CyclicTable(cl) == \E n \in DOMAIN cl : OnTypeCycle(cl, n)

RECURSIVE TyDepthF(_, _, _)
TyDepthF(cl, T, fuel) ==
  CASE T.k = "leaf" -> 1
    [] T.k \in {"list", "dict", "opt"} -> 1 + TyDepthF(cl, T.of, fuel)
    [] T.k = "cls" -> IF fuel = 0 THEN 1
                      ELSE 1 + Max({0} \cup {TyDepthF(cl, Fs(cl, T.name)[i].ty, fuel - 1) : i \in 1..Len(Fs(cl, T.name))})
TyDepth(cl, T) == TyDepthF(cl, T, 4)     \* for a cyclic table: depth of the unfolding used for instances

\* key styles: (python name, wire key) per field position, per class role.  Keyword-like keys, camelCase
\* vs snake_case, keys that collide after case-folding, keys that are ANOTHER field's python name (swap),
\* partially mapped (diff) and identity-mapped (ident) Meta.
StyleTab ==
  [A |-> [plain |-> << <<"first", "first">>,    <<"second", "second">>,     <<"third", "third">> >>,
          camel |-> << <<"user_id", "userId">>, <<"page_size", "pageSize">>, <<"is_ok", "isOk">> >>,
          kw    |-> << <<"class_", "class">>,   <<"from_", "from">>,         <<"id_", "id">> >>,
          fold  |-> << <<"user_id", "userId">>, <<"userid", "userid">>,      <<"user_i_d", "userID">> >>,
          swap  |-> << <<"alpha", "beta">>,     <<"beta", "alpha">>,         <<"gamma", "gamma">> >>,
          diff  |-> << <<"x_val", "xVal">>,     <<"plain2", "plain2">>,      <<"y_val", "yVal">> >>,
          ident |-> << <<"one", "one">>,        <<"two", "two">>,            <<"three", "three">> >>],
   D |-> [plain |-> << <<"dnum", "dnum">>,      <<"dtext", "dtext">>,        <<"dchild", "dchild">> >>,
          camel |-> << <<"d_num", "dNum">>,     <<"note_text", "noteText">>, <<"d_child", "dChild">> >>,
          kw    |-> << <<"import_", "import">>, <<"return_", "return">>,     <<"type_", "type">> >>,
          swap  |-> << <<"left", "right">>,     <<"right", "left">>,         <<"middle", "middle">> >>,
          fold  |-> << <<"d_num", "dNum">>,     <<"dnum", "dnum">>,          <<"dn_um", "dnUm">> >>],
   E |-> [plain |-> << <<"deep", "deep">>,         <<"deeper", "deeper">> >>,
          camel |-> << <<"deep_val", "deepVal">>, <<"deep_link", "deepLink">> >>,
          kw    |-> << <<"while_", "while">>,     <<"for_", "for">> >>]]
StyleMeta == [plain |-> "none", camel |-> "full", kw |-> "full", fold |-> "full", swap |-> "full", diff |-> "diff", ident |-> "full"]
PyName(role, style, i)   == StyleTab[role][style][i][1]
WireName(role, style, i) == StyleTab[role][style][i][2]

\* a key map is usable only when it is a bijection between python names and wire keys (the property's quantifier)
KeysBijective(cl, n) ==
  LET fs == Fs(cl, n) IN \A i, j \in 1..Len(fs) : i # j => (fs[i].py # fs[j].py /\ fs[i].wire # fs[j].wire)
MetaConsistent(cl, n) ==
  LET own == cl[n].fields IN
  IF HasParent(cl, n)
  THEN cl[n].meta \in {"inherit", "extend", "own"}
       /\ (cl[n].meta = "inherit" =>
             \A i \in 1..Len(own) : LET inh == Fs(cl, cl[n].extends)
                                         same == {k \in 1..Len(inh) : inh[k].py = own[i].py}
                                     IN own[i].wire = (IF same = {} THEN own[i].py ELSE inh[CHOOSE k \in same : TRUE].wire))
  ELSE cl[n].meta \in {"none", "full", "diff"} /\ (cl[n].meta = "none" => \A i \in 1..Len(own) : own[i].py = own[i].wire)

----------------------------------------------------------------------------
(* leaf universe: two distinguishable values per leaf type.  Spell = wire spellings denoting the value (the   *)
(* first is canonical = what the reference encoder writes); Norm = the python-side normal form the harness     *)
(* abstraction prints (datetimes as UTC instants: they compare as instants; bytes as base64 of the octets).    *)

WireTag(p) == CASE p = "int" -> "i" [] p = "float" -> "f" [] p = "bool" -> "b" [] OTHER -> "s"

Spell(p, i) ==
  CASE p = "str"      -> IF i = 1 THEN <<"alpha">> ELSE <<"be ta">>
    [] p = "int"      -> IF i = 1 THEN <<"7">> ELSE <<"11">>
    [] p = "float"    -> IF i = 1 THEN <<"1.5">> ELSE <<"2.25">>
    [] p = "bool"     -> IF i = 1 THEN <<"true">> ELSE <<"false">>
    [] p = "bytes"    -> IF i = 1 THEN <<"aGk=">> ELSE <<"AAEC/w==">>
    [] p = "date"     -> IF i = 1 THEN <<"2024-01-02">> ELSE <<"1999-12-31">>
    [] p = "datetime" -> IF i = 1 THEN <<"2024-01-02T03:04:05Z", "2024-01-02T03:04:05+00:00">>
                                  ELSE <<"2023-06-07T08:09:10+02:00", "2023-06-07T06:09:10+00:00", "2023-06-07T06:09:10Z">>
Norm(p, i) ==
  CASE p = "datetime" -> IF i = 1 THEN "2024-01-02T03:04:05Z" ELSE "2023-06-07T06:09:10Z"
    [] OTHER -> Spell(p, i)[1]
Canon(p, i) == Spell(p, i)[1]

LeafIdx(p, v) == IF \E n \in 1..Len(Spell(p, 1)) : Spell(p, 1)[n] = v THEN 1
                 ELSE IF \E n \in 1..Len(Spell(p, 2)) : Spell(p, 2)[n] = v THEN 2 ELSE 0
NormIdx(p, w) == IF w = Norm(p, 1) THEN 1 ELSE IF w = Norm(p, 2) THEN 2 ELSE 0

WLeaf(tag, v) == [t |-> tag, v |-> v]
WNull         == [t |-> "n"]
WList(items)  == [t |-> "l", items |-> items]
WObj(f)       == [t |-> "o", f |-> f]

VLeaf(c, w)   == [t |-> "leaf", c |-> c, w |-> w]
VNone         == [t |-> "none"]
VList(items)  == [t |-> "list", items |-> items]
VDict(f)      == [t |-> "dict", f |-> f]
VObj(c, f)    == [t |-> "obj", cls |-> c, f |-> f]
VErr(what, steps) == [t |-> "err", what |-> what, steps |-> steps]
IsErr(v) == v.t = "err"

\* a path step: a field (with both of its names) or a wrapper
FStep(f)  == [kind |-> "field", py |-> f.py, wire |-> f.wire]
WStep(k)  == [kind |-> k, py |-> "", wire |-> ""]

----------------------------------------------------------------------------
(* 2. reference semantics *)

FieldIdx(fs, key, useWire) == {i \in 1..Len(fs) : (IF useWire THEN fs[i].wire ELSE fs[i].py) = key}

RECURSIVE Conforms(_, _, _)
Conforms(cl, j, T) ==
  CASE T.k = "leaf" -> j.t = WireTag(T.p) /\ LeafIdx(T.p, j.v) # 0
    [] T.k = "opt"  -> j.t = "n" \/ Conforms(cl, j, T.of)
    [] T.k = "list" -> j.t = "l" /\ \A i \in 1..Len(j.items) : Conforms(cl, j.items[i], T.of)
    [] T.k = "dict" -> j.t = "o" /\ \A key \in DOMAIN j.f : Conforms(cl, j.f[key], T.of)
    [] T.k = "cls"  -> j.t = "o" /\ LET fs == Fs(cl, T.name) IN
                         \A i \in 1..Len(fs) :
                            IF fs[i].wire \in DOMAIN j.f THEN Conforms(cl, j.f[fs[i].wire], EffTy(fs[i]))
                            ELSE ~fs[i].req

\* m-th representative instance of a type (m in 1..3): 1 = everything present, first values;
\* 2 = only what is required, second values; 3 = everything present, optionals null, empty containers.
\* fuel = number of class levels still to unfold (recursive class tables have no finite "everything present"
\* instance): at fuel 0 containers are empty, optionals null / absent, only required fields present.  A cycle of
\* the class graph must therefore pass through a list, dict or Optional link (otherwise no finite instance exists).
RECURSIVE RepF(_, _, _, _)
RepF(cl, T, m, fuel) ==
  CASE T.k = "leaf" -> WLeaf(WireTag(T.p), Canon(T.p, IF m = 2 THEN 2 ELSE 1))
    [] T.k = "opt"  -> IF m = 3 \/ fuel = 0 THEN WNull ELSE RepF(cl, T.of, m, fuel)
    [] T.k = "list" -> IF fuel = 0 THEN WList(<<>>)
                       ELSE IF m = 1 THEN WList(<<RepF(cl, T.of, 1, fuel), RepF(cl, T.of, 2, fuel)>>)
                       ELSE IF m = 2 THEN WList(<<RepF(cl, T.of, 2, fuel)>>) ELSE WList(<<>>)
    [] T.k = "dict" -> IF fuel = 0 THEN WObj(<<>>)
                       ELSE IF m = 1 THEN WObj([key \in {"k1", "class"} |-> IF key = "k1" THEN RepF(cl, T.of, 1, fuel) ELSE RepF(cl, T.of, 2, fuel)])
                       ELSE IF m = 2 THEN WObj([key \in {"userId"} |-> RepF(cl, T.of, 2, fuel)]) ELSE WObj(<<>>)
    [] T.k = "cls"  -> LET fs == Fs(cl, T.name)
                           sub == IF fuel = 0 THEN 0 ELSE fuel - 1
                           present == {i \in 1..Len(fs) : (m # 2 /\ fuel # 0) \/ fs[i].req}
                           at(w) == CHOOSE i \in present : fs[i].wire = w
                       IN WObj([w \in {fs[i].wire : i \in present} |-> RepF(cl, EffTy(fs[at(w)]), m, sub)])
RepFuel(cl) == IF CyclicTable(cl) THEN Cardinality(DOMAIN cl) + 1 ELSE 6   \* cyclic: once around the cycle and back in
Rep(cl, T, m) == RepF(cl, T, m, RepFuel(cl))

\* instances of the TOP type: every presence subset of the optional fields, each present field ranging over the
\* representatives of its type (nested positions use the three representatives)
Choice(cl, f) == {[present |-> TRUE, j |-> Rep(cl, EffTy(f), m)] : m \in 1..3}
                   \cup (IF f.req THEN {} ELSE {[present |-> FALSE, j |-> WNull]})
Instances(cl, T) ==
  IF T.k = "cls" THEN
    LET fs == Fs(cl, T.name)
        n  == Len(fs)
        all == UNION {Choice(cl, fs[i]) : i \in 1..n}
        \* up to 3 fields: the full product; wider classes: the three representatives of the class plus every
        \* single-field variation of the all-present instance (every choice of every field occurs)
        g0 == [i \in 1..n |-> [present |-> TRUE, j |-> Rep(cl, EffTy(fs[i]), 1)]]
        combos == IF n <= 3 THEN {g \in [1..n -> all] : \A i \in 1..n : g[i] \in Choice(cl, fs[i])}
                  ELSE {g0} \cup UNION {{[g0 EXCEPT ![i] = c] : c \in Choice(cl, fs[i])} : i \in 1..n}
        at(w) == CHOOSE i \in 1..n : fs[i].wire = w
    IN {WObj([w \in {fs[i].wire : i \in {x \in 1..n : g[x].present}} |-> g[at(w)].j]) : g \in combos}
       \cup (IF n <= 3 THEN {} ELSE {Rep(cl, T, m) : m \in 1..3})
  ELSE {Rep(cl, T, m) : m \in 1..3}

\* hk = set of class names whose hook is registered; a class without a hook falls to cattrs' default for
\* dataclasses, which knows nothing about Meta: it uses the python field names as keys.
\* The reference decoder/encoder is the one where every class has its hook.
AllHooks(cl) == DOMAIN cl

RECURSIVE Dec(_, _, _, _)
Dec(cl, hk, T, j) ==
  CASE T.k = "leaf" ->
         IF j.t = WireTag(T.p) /\ LeafIdx(T.p, j.v) # 0 THEN VLeaf(T.p, Norm(T.p, LeafIdx(T.p, j.v)))
         ELSE VErr("badleaf", <<>>)
    [] T.k = "opt" -> IF j.t = "n" THEN VNone
                      ELSE LET r == Dec(cl, hk, T.of, j) IN IF IsErr(r) THEN VErr(r.what, <<WStep("opt")>> \o r.steps) ELSE r
    [] T.k = "list" ->
         IF j.t # "l" THEN VErr("notlist", <<>>)
         ELSE LET rs == [i \in 1..Len(j.items) |-> Dec(cl, hk, T.of, j.items[i])]
                  bad == {i \in 1..Len(rs) : IsErr(rs[i])}
              IN IF bad = {} THEN VList(rs) ELSE VErr(rs[Min(bad)].what, <<WStep("list")>> \o rs[Min(bad)].steps)
    [] T.k = "dict" ->
         IF j.t # "o" THEN VErr("notdict", <<>>)
         ELSE LET rs == [key \in DOMAIN j.f |-> Dec(cl, hk, T.of, j.f[key])]
                  bad == {key \in DOMAIN rs : IsErr(rs[key])}
              IN IF bad = {} THEN VDict(rs)
                 ELSE LET b == CHOOSE key \in bad : TRUE IN VErr(rs[b].what, <<WStep("dict")>> \o rs[b].steps)
    [] T.k = "cls" ->
         IF j.t # "o" THEN VErr(IF j.t = "n" THEN "null" ELSE "notobj", <<>>)
         ELSE LET fs == Fs(cl, T.name)
                  key(i) == IF T.name \in hk THEN fs[i].wire ELSE fs[i].py
                  one(i) == IF key(i) \in DOMAIN j.f THEN Dec(cl, hk, EffTy(fs[i]), j.f[key(i)])
                            ELSE IF fs[i].req THEN VErr("missing", <<>>) ELSE VNone
                  rs == [i \in 1..Len(fs) |-> one(i)]
                  bad == {i \in 1..Len(fs) : IsErr(rs[i])}
                  at(p) == CHOOSE i \in 1..Len(fs) : fs[i].py = p
              IN IF bad = {} THEN VObj(T.name, [p \in {fs[i].py : i \in 1..Len(fs)} |-> rs[at(p)]])
                 ELSE VErr(rs[Min(bad)].what, <<FStep(fs[Min(bad)])>> \o rs[Min(bad)].steps)

Decode(cl, T, j) == Dec(cl, AllHooks(cl), T, j)

RECURSIVE Enc(_, _, _, _)
Enc(cl, hk, T, v) ==
  CASE T.k = "leaf" -> WLeaf(WireTag(T.p), Canon(T.p, NormIdx(T.p, v.w)))
    [] T.k = "opt"  -> IF v.t = "none" THEN WNull ELSE Enc(cl, hk, T.of, v)
    [] T.k = "list" -> WList([i \in 1..Len(v.items) |-> Enc(cl, hk, T.of, v.items[i])])
    [] T.k = "dict" -> WObj([key \in DOMAIN v.f |-> Enc(cl, hk, T.of, v.f[key])])
    [] T.k = "cls"  -> LET fs == Fs(cl, T.name)
                           key(i) == IF T.name \in hk THEN fs[i].wire ELSE fs[i].py
                           at(w) == CHOOSE i \in 1..Len(fs) : key(i) = w
                       IN WObj([w \in {key(i) : i \in 1..Len(fs)} |-> Enc(cl, hk, EffTy(fs[at(w)]), v.f[fs[at(w)].py])])

Encode(cl, T, v) == Enc(cl, AllHooks(cl), T, v)

\* the python values of a type = what the reference decoder makes of its instances
Values(cl, T) == {Decode(cl, T, j) : j \in Instances(cl, T)}

----------------------------------------------------------------------------
(* laws and their tolerances *)

\* type-directed equality of an input tree `a` and an output tree `b`.  Returns "ok" or what differs first.
\*  - leaves: same JSON kind and same denoted value (datetimes as instants: Z == +00:00 == shifted offset)
\*  - an optional property that is absent (or null) in `a` may be absent or null in `b`
\*  - ser = TRUE (serialiser output): null-valued keys are dropped everywhere, so a null may come back absent
\*    also in dict-typed data
RECURSIVE Diff(_, _, _, _, _)
Diff(cl, T, a, b, ser) ==
  CASE b.t = "x" -> "not_json"
    [] T.k = "leaf" -> IF a.t = b.t /\ (a.v = b.v \/ (LeafIdx(T.p, a.v) # 0 /\ LeafIdx(T.p, a.v) = LeafIdx(T.p, b.v)))
                       THEN "ok" ELSE "leaf:" \o T.p
    [] T.k = "opt"  -> IF a.t = "n" \/ b.t = "n" THEN (IF a.t = b.t THEN "ok" ELSE "null_vs_value") ELSE Diff(cl, T.of, a, b, ser)
    [] T.k = "list" -> IF b.t # "l" THEN "shape"
                       ELSE IF Len(a.items) # Len(b.items) THEN "list_length"
                       ELSE LET bad == {i \in 1..Len(a.items) : Diff(cl, T.of, a.items[i], b.items[i], ser) # "ok"}
                            IN IF bad = {} THEN "ok" ELSE Diff(cl, T.of, a.items[Min(bad)], b.items[Min(bad)], ser)
    [] T.k = "dict" -> IF b.t # "o" THEN "shape"
                       ELSE LET want == IF ser THEN {key \in DOMAIN a.f : a.f[key].t # "n"} ELSE DOMAIN a.f
                            IN IF DOMAIN b.f # want THEN "dict_keys"
                               ELSE LET bad == {key \in want : Diff(cl, T.of, a.f[key], b.f[key], ser) # "ok"}
                                    IN IF bad = {} THEN "ok" ELSE LET k0 == CHOOSE key \in bad : TRUE IN Diff(cl, T.of, a.f[k0], b.f[k0], ser)
    [] T.k = "cls"  -> IF b.t # "o" THEN "shape"
                       ELSE LET fs == Fs(cl, T.name)
                                wires == {fs[i].wire : i \in 1..Len(fs)}
                                one(i) == LET w == fs[i].wire IN
                                   IF w \in DOMAIN a.f /\ a.f[w].t # "n"
                                     THEN IF w \in DOMAIN b.f THEN Diff(cl, EffTy(fs[i]), a.f[w], b.f[w], ser) ELSE "key_lost"
                                   ELSE IF w \in DOMAIN b.f
                                     THEN IF b.f[w].t = "n" THEN "ok" ELSE "value_invented"
                                     ELSE IF w \in DOMAIN a.f /\ fs[i].req /\ ~ser THEN "key_lost" ELSE "ok"
                                bad == {i \in 1..Len(fs) : one(i) # "ok"}
                            IN IF ~(DOMAIN b.f \subseteq wires) THEN "key_invented"
                               ELSE IF bad = {} THEN "ok" ELSE one(Min(bad))

RoundTripOK(cl, T, jIn, jOut) == Diff(cl, T, jIn, jOut, FALSE) = "ok"
SerialisedOK(cl, T, jIn, out) == Diff(cl, T, jIn, out, TRUE) = "ok"

\* the laws, stated for the reference codec (what `Laws` checks for every generated type tree)
DecEnc(cl, T) == \A j \in Instances(cl, T) :
                    LET v == Decode(cl, T, j) IN ~IsErr(v) /\ RoundTripOK(cl, T, j, Encode(cl, T, v))
EncDec(cl, T) == \A v \in Values(cl, T) : Decode(cl, T, Encode(cl, T, v)) = v

RECURSIVE NullKeys(_)
NullKeys(j) ==    \* number of null-valued keys anywhere in a tree
  CASE j.t = "l" -> MapThenSumSet(LAMBDA i : NullKeys(j.items[i]), 1..Len(j.items))
    [] j.t = "o" -> MapThenSumSet(LAMBDA key : (IF j.f[key].t = "n" THEN 1 ELSE 0) + NullKeys(j.f[key]), DOMAIN j.f)
    [] OTHER -> 0

RECURSIVE IsJson(_)
IsJson(j) ==
  CASE j.t = "x" -> FALSE
    [] j.t = "l" -> \A i \in 1..Len(j.items) : IsJson(j.items[i])
    [] j.t = "o" -> \A key \in DOMAIN j.f : IsJson(j.f[key])
    [] OTHER -> TRUE

----------------------------------------------------------------------------
(* non-conforming inputs: every single-point corruption of a conforming instance for which decoding cannot   *)
(* succeed.  Python's str() / bool() / int("5") accept almost anything, so only UNCOERCIBLE corruptions are   *)
(* listed (the property speaks about failures that happen, not about which inputs must fail):                 *)
(*   missing  - a required key removed                    badleaf - a leaf replaced by text no parser takes   *)
(*   null     - null for a required int/float/date/datetime/list/dict/object                                  *)
(*   notobj / notlist / notdict - the number 5 where a container is expected                                  *)
(* A mutant carries the steps to the offending position; the OFFENDING FIELD is the last field step.          *)

BadLeaf(p) ==
  CASE p \in {"int", "float"} -> {WLeaf("s", "bad")}
    [] p = "date"     -> {WLeaf("s", "nope"), WLeaf("i", "5")}
    [] p = "datetime" -> {WLeaf("s", "nope")}
    [] p = "bytes"    -> {WLeaf("s", "a")}
    [] OTHER -> {}

NullRejected(T) == (T.k = "leaf" /\ T.p \in {"int", "float", "date", "datetime"}) \/ T.k \in {"list", "dict", "cls"}

Mu(j, what, p, steps) == [j |-> j, what |-> what, p |-> p, steps |-> steps]
Under(step, m, rebuilt) == [m EXCEPT !.j = rebuilt, !.steps = <<step>> \o m.steps]

RECURSIVE Mut(_, _, _)
Mut(cl, T, j) ==
  CASE T.k = "leaf" -> {Mu(b, "badleaf", T.p, <<>>) : b \in BadLeaf(T.p)}
    [] T.k = "opt"  -> IF j.t = "n" THEN {} ELSE {Under(WStep("opt"), m, m.j) : m \in Mut(cl, T.of, j)}
    [] T.k = "list" -> {Mu(WLeaf("i", "5"), "notlist", "", <<>>)}
                       \cup (IF Len(j.items) = 0 THEN {}
                             ELSE {Under(WStep("list"), m, WList([j.items EXCEPT ![1] = m.j])) : m \in Mut(cl, T.of, j.items[1])})
    [] T.k = "dict" -> {Mu(WLeaf("i", "5"), "notdict", "", <<>>)}
                       \cup (IF DOMAIN j.f = {} THEN {}
                             ELSE LET k0 == CHOOSE key \in DOMAIN j.f : TRUE
                                  IN {Under(WStep("dict"), m, WObj([j.f EXCEPT ![k0] = m.j])) : m \in Mut(cl, T.of, j.f[k0])})
    [] T.k = "cls"  -> LET fs == Fs(cl, T.name)
                           here == {i \in 1..Len(fs) : fs[i].wire \in DOMAIN j.f}
                           drop(w) == WObj([x \in (DOMAIN j.f) \ {w} |-> j.f[x]])
                       IN {Mu(WLeaf("i", "5"), "notobj", "", <<>>)}
                          \cup {Mu(drop(fs[i].wire), "missing", "", <<FStep(fs[i])>>) : i \in {x \in here : fs[x].req}}
                          \cup {Mu(WObj([j.f EXCEPT ![fs[i].wire] = WNull]), "null", "", <<FStep(fs[i])>>) :
                                  i \in {x \in here : fs[x].req /\ NullRejected(fs[x].ty)}}
                          \cup UNION {{Under(FStep(fs[i]), m, WObj([j.f EXCEPT ![fs[i].wire] = m.j])) :
                                          m \in Mut(cl, EffTy(fs[i]), j.f[fs[i].wire])} : i \in here}

Mutants(cl, T) == Mut(cl, T, Rep(cl, T, 1))

FieldSteps(steps) == SelectSeq(steps, LAMBDA s : s.kind = "field")

\* the reference decoder rejects every mutant, at the mutant's own position
MutantsRejected(cl, T) == \A m \in Mutants(cl, T) :
   /\ ~Conforms(cl, m.j, T)
   /\ LET r == Decode(cl, T, m.j) IN IsErr(r) /\ FieldSteps(r.steps) = FieldSteps(m.steps)

\* what an error report must contain: `words` = identifier tokens of the message
NamesField(words, step) == step.py \in words \/ step.wire \in words
OffenderNamed(words, steps) == LET fsq == FieldSteps(steps) IN fsq = <<>> \/ NamesField(words, fsq[Len(fsq)])
\* does the way to the offending field lead through an Optional[...] annotation (the union hook)?
BelowOptional(steps) ==
  LET fi == {i \in 1..Len(steps) : steps[i].kind = "field"}
  IN fi # {} /\ \E i \in 1..Max(fi) : steps[i].kind = "opt"
\* where the reported path was cut: kind of the step right after the deepest named field ("none": nothing named)
CutAt(words, steps) ==
  LET named == {i \in 1..Len(steps) : steps[i].kind = "field" /\ NamesField(words, steps[i])}
  IN IF named = {} THEN "none" ELSE IF Max(named) = Len(steps) THEN "end" ELSE steps[Max(named) + 1].kind

----------------------------------------------------------------------------
(* 3. the registry: a module-global converter mutated on first use of each class *)

VARIABLES hooks,   \* set of <<"s" | "u", class name>>: classes whose structure / unstructure hook is registered
          hist,    \* ids of the calls made so far
          last     \* the last call and what it returned

NoCall == [t |-> "nocall"]
RegInit == hooks = {} /\ hist = <<>> /\ last = NoCall

\* a call: [id, op : "S" | "U", ty, arg]   (arg: wire tree for S, value tree for U)
Registered(cl, dir, hk) == {n \in DOMAIN cl : <<dir, n>> \in hk}

\* nested = TRUE: the design (hooks for the class and everything reachable);
\* nested = FALSE: a defective design that registers the top class only (kept to show the invariants bite)
Targets(cl, T, nested) == IF nested THEN Reach(cl, T) ELSE Tops(T)

ResultOf(cl, hk, c) == IF c.op = "S" THEN Dec(cl, Registered(cl, "s", hk), c.ty, c.arg)
                       ELSE Enc(cl, Registered(cl, "u", hk), c.ty, c.arg)
RefResult(cl, c) == IF c.op = "S" THEN Decode(cl, c.ty, c.arg) ELSE Encode(cl, c.ty, c.arg)

Structure(cl, c, nested) ==
  /\ c.op = "S"
  /\ hooks' = hooks \cup {<<"s", n>> : n \in Targets(cl, c.ty, nested)}
  /\ last'  = [t |-> "call", id |-> c.id, res |-> ResultOf(cl, hooks', c)]
  /\ hist'  = Append(hist, c.id)

\* unstructure_to_dict registers hooks only when the instance itself is a dataclass
Unstructure(cl, c, nested) ==
  /\ c.op = "U"
  /\ hooks' = hooks \cup (IF c.ty.k = "cls" THEN {<<"u", n>> : n \in Targets(cl, c.ty, nested)} ELSE {})
  /\ last'  = [t |-> "call", id |-> c.id, res |-> ResultOf(cl, hooks', c)]
  /\ hist'  = Append(hist, c.id)

\* A DEFECTIVE design kept to show that HistoryIndependent bites on same-named classes: the structure function is
\* cached under the class's python NAME, so a class is decoded with the definition of the first same-named class
\* any earlier (or this) structure call registered.
FirstNamed(cl, calls, h, n) ==
  LET same(m) == PyClsName(cl, m) = PyClsName(cl, n)
      callOf(i) == CHOOSE x \in calls : x.id = h[i]
      hits == {i \in 1..Len(h) : callOf(i).op = "S" /\ \E m \in Reach(cl, callOf(i).ty) : same(m)}
  IN IF hits = {} THEN n
     ELSE LET ms == {m \in Reach(cl, callOf(Min(hits)).ty) : same(m)}
          IN IF n \in ms THEN n ELSE CHOOSE m \in ms : TRUE
ByName(cl, calls, h) == [n \in DOMAIN cl |-> cl[FirstNamed(cl, calls, h, n)]]
StructureByName(cl, calls, c) ==
  /\ c.op = "S"
  /\ hooks' = hooks \cup {<<"s", n>> : n \in Reach(cl, c.ty)}
  /\ hist'  = Append(hist, c.id)
  /\ last'  = [t |-> "call", id |-> c.id, res |-> Dec(ByName(cl, calls, hist'), Registered(cl, "s", hooks'), c.ty, c.arg)]

HooksOnlyGrow == [][hooks \subseteq hooks']_<<hooks, hist, last>>

\* the result of a call does not depend on the calls made before it
HistoryIndependent(cl, calls) ==
  last.t = "call" => LET c == CHOOSE x \in calls : x.id = last.id IN last.res = RefResult(cl, c)

----------------------------------------------------------------------------
(* 4. the convenience serialiser over INSTANCE GRAPHS of one node class                                       *)
(*   class Node: name: str; nf, nr: Optional[Node]; kf, kr: Optional[List[Node]];                             *)
(*               mr: Optional[Dict[str, Node]]; av: Any                                                       *)
(* `..f` fields are annotated with a forward reference cattrs cannot resolve (function-local class, as in the *)
(* repository's unit tests), `..r` fields with the resolved class (module-level class / PEP 563 annotations). *)
(* g == [n, edges : SUBSET [from, kind, to], root : "node" | "list"]                                          *)

\* container NESTING between two instances is a dimension too (all with unresolvable forward references unless `r`):
\*   ll : Optional[List[List[Node]]]   llr : the same, resolved      dl  : Optional[Dict[str, List[Node]]]
\*   ldl: Optional[List[Dict[str, List[Node]]]]                      tu  : Optional[Tuple[Node, ...]]
EdgeKinds == {"nf", "nr", "kf", "kr", "mr", "av", "ll", "llr", "dl", "ldl", "tu"}
SingleKinds == {"nf", "nr", "av"}
ResolvedKinds == {"nr", "kr", "mr", "av", "llr"}      \* cattrs itself follows these references

GraphOK(g) == \A e1, e2 \in g.edges : (e1.from = e2.from /\ e1.kind = e2.kind /\ e1.kind \in SingleKinds) => e1 = e2

RECURSIVE Closure(_, _, _)
Closure(E, S, fuel) == LET nxt == S \cup {e.to : e \in {x \in E : x.from \in S}}
                       IN IF fuel = 0 \/ nxt = S THEN S ELSE Closure(E, nxt, fuel - 1)
OnCycle(E, n, fuel) == n \in Closure(E, {e.to : e \in {x \in E : x.from = n}}, fuel)
Roots(g) == IF g.root = "node" THEN {1} ELSE 1..g.n
Reachable(g) == Closure(g.edges, Roots(g), g.n + 1)
Cyclic(g) == \E n \in Reachable(g) : OnCycle(g.edges, n, g.n + 1)
ResolvableCycle(g) == LET E == {e \in g.edges : e.kind \in ResolvedKinds}
                      IN \E n \in Reachable(g) : OnCycle(E, n, g.n + 1)
\* some node is referenced twice without any cycle (a DAG that is not a tree, or a root list repeating a node)
Shared(g) == \E n \in Reachable(g) : Cardinality({e \in g.edges : e.to = n /\ e.from \in Reachable(g)}) + (IF g.root = "list" THEN (IF n = 1 THEN 2 ELSE 1) ELSE 0) >= 2

NodeName(n) == "n" \o ToString(n)
RECURSIVE NodeTree(_, _, _)
NodeTree(g, n, fuel) ==   \* expected serialisation of an ACYCLIC graph below node n: None-valued keys are left out
  LET out(k) == {e.to : e \in {x \in g.edges : x.from = n /\ x.kind = k}}
      sub(m) == IF fuel = 0 THEN WNull ELSE NodeTree(g, m, fuel - 1)
      keys == {"name"} \cup {k \in EdgeKinds : out(k) # {}}
      val(k) == IF k = "name" THEN WLeaf("s", NodeName(n))
                ELSE IF k \in SingleKinds THEN sub(CHOOSE m \in out(k) : TRUE)
                ELSE IF k = "mr" THEN WObj([key \in {NodeName(m) : m \in out(k)} |-> sub(CHOOSE m \in out(k) : NodeName(m) = key)])
                ELSE LET items == WList([i \in 1..Cardinality(out(k)) |-> sub(SetToSortSeq(out(k), <)[i])])
                     IN CASE k \in {"ll", "llr"} -> WList(<<items>>)
                          [] k = "dl"  -> WObj([key \in {"k"} |-> items])
                          [] k = "ldl" -> WList(<<WObj([key \in {"k"} |-> items])>>)
                          [] OTHER -> items      \* kf, kr, tu (a tuple is written as an array)
  IN WObj([k \in keys |-> val(k)])

\* root "list": serialize([node 1, ..., node n, node 1])
SerExpected(g) == IF g.root = "node" THEN NodeTree(g, 1, g.n + 1)
                  ELSE WList([i \in 1..(g.n + 1) |-> NodeTree(g, IF i = g.n + 1 THEN 1 ELSE i, g.n + 1)])

=============================================================================
