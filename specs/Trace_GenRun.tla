---------------------------- MODULE Trace_GenRun ----------------------------
(***************************************************************************)
(* Monitor for real generation runs (C10, and the rerun part of C09).      *)
(*   trace == [id, sc : scenario as in GenRun, result, fault_fired,        *)
(*             ev : Seq([k, op|kind, cls, stage]), expect : [result, viol]]*)
(* Events: k = "op" (audit-hook operation while the run executes) and      *)
(* k = "delta" (difference between the before / after snapshots, which     *)
(* also sees what sub-processes did).  Path classes as in GenRun, plus     *)
(* "ancestorDir" (creating the directories of the package path itself).    *)
(***************************************************************************)
EXTENDS Naturals, Sequences, FiniteSets, TLC, Json, IOUtils, SequencesExt

Traces == ndJsonDeserialize(IOEnv.TRACE_FILE)
VARIABLES tid, done

TempPath(s) == ~s.force /\ s.existing # "absent"
Under == {"inOut", "inCore", "ancestorInit", "ancestorDir", "rootOther"}
AllowedCls == {"inOut", "inCore", "ancestorInit", "ancestorDir"}

JudgeEv(t, e) ==
  LET noforce == TempPath(t.sc) IN
  CASE e.k = "op" /\ e.cls \in Under ->
         (IF noforce THEN {[clause |-> IF e.op \in {"remove", "rmtree"} THEN "C10.noforce_delete" ELSE "C10.noforce_write",
                            locus |-> [cls |-> e.cls, stage |-> e.stage, via |-> "inprocess", head |-> e.head]]} ELSE {})
         \cup (IF e.cls \notin AllowedCls
                 THEN {[clause |-> IF e.op \in {"remove", "rmtree"} THEN "C10.escaped_delete" ELSE "C10.escaped_write",
                        locus |-> [cls |-> e.cls, stage |-> e.stage, via |-> "inprocess", head |-> e.head]]} ELSE {})
    [] e.k = "delta" /\ e.cls \in Under ->
         (IF noforce THEN {[clause |-> CASE e.kind = "deleted" -> "C10.noforce_delete" [] e.kind = "touched" -> "C10.noforce_mtime" [] OTHER -> "C10.noforce_write",
                            locus |-> [cls |-> e.cls, stage |-> "snapshot", via |-> e.kind, head |-> e.head]]} ELSE {})
         \cup (IF e.cls \notin AllowedCls
                 THEN {[clause |-> IF e.kind = "deleted" THEN "C10.escaped_delete" ELSE "C10.escaped_write",
                        locus |-> [cls |-> e.cls, stage |-> "snapshot", via |-> e.kind, head |-> e.head]]} ELSE {})
    [] OTHER -> {}

JudgeEnd(t) ==
  (IF t.result = "ok" /\ t.fault_fired
     THEN {[clause |-> "C10.fault_swallowed", locus |-> [cls |-> "none", stage |-> t.sc.fault, via |-> "result"]]} ELSE {})
  \cup (IF TempPath(t.sc) /\ t.sc.fault = "none" /\ t.sc.existing = "equal" /\ t.result # "ok"
     THEN {[clause |-> "C09.rerun_failed", locus |-> [cls |-> t.sc.core, stage |-> "diff", via |-> IF t.sc.pp THEN "postprocess" ELSE "plain"]]} ELSE {})
  \cup (IF TempPath(t.sc) /\ t.sc.fault = "none" /\ t.sc.existing \notin {"equal", "stale_extra"} /\ t.result = "ok"
     THEN {[clause |-> "C09.diff_missed", locus |-> [cls |-> "none", stage |-> "diff", via |-> t.sc.existing]]} ELSE {})

JudgeTouched(t) ==
  IF TempPath(t.sc) /\ t.sc.existing = "equal" /\ t.result = "ok"
     /\ \E i \in 1..Len(t.ev) : t.ev[i].k = "delta" /\ t.ev[i].cls \in {"inOut", "inCore", "ancestorInit"}
  THEN {[clause |-> "C09.rerun_touched", locus |-> [cls |-> "output", stage |-> "snapshot", via |-> "delta"]]} ELSE {}

Fails(t) == UNION {JudgeEv(t, t.ev[i]) : i \in 1..Len(t.ev)} \cup JudgeEnd(t) \cup JudgeTouched(t)

Init == tid \in 1..Len(Traces) /\ done = FALSE
Judge ==
  /\ ~done /\ done' = TRUE /\ UNCHANGED tid
  /\ LET t == Traces[tid] IN
       PrintT("VERDICT " \o ToJson([id |-> t.id, fails |-> SetToSeq(Fails(t)), nev |-> Len(t.ev),
                                    conforms |-> (t.result = t.expect.result)]))
Spec == Init /\ [][Judge]_<<tid, done>>
=============================================================================
