------------------------------ MODULE MC_OpLoad ------------------------------
(***************************************************************************)
(* X05 design level.  One behaviour per document of the design family:     *)
(* the document is judged (OpLoad!Judge) against three loaders given as    *)
(* operators - Ideal (read off Meaning), AsIs (the shape of the code) and  *)
(* Leaky (a cache of parsed component responses).                          *)
(*  - the reference semantics has the properties the statements rest on    *)
(*    (MeaningOnePerKey, EffectiveUnique, EffectiveOverride,               *)
(*    MeaningRefTransparent, MeaningLocal, MeaningOrderFree);              *)
(*  - the seven named statements hold of the Ideal loader on every         *)
(*    document (they are jointly satisfiable);                             *)
(*  - the AsIs loader fails them exactly inside KnownRegion, a predicate   *)
(*    on the DOCUMENT (override, reference chains), with the failures      *)
(*    listed in Known (mirrors findings/X05.jsonl);                        *)
(*  - the Leaky loader is caught (NoCrossTalk, ResponseTable).             *)
(***************************************************************************)
EXTENDS OpLoad, Json
CONSTANTS Tier, Wide
VARIABLES doc, phase, fi, fa, fl

Docs == Core(Tier) \cup (IF Wide THEN FamB1(Tier, 2) ELSE {})

ItOp(x) == <<doc.items[x[1]], doc.items[x[1]].ops[x[2]]>>
ChainParam(d) == \E x \in DeclIdx(d) : OpParamVia(d.items[x[1]], d.items[x[1]].ops[x[2]]) = "chain"
ChainBody(d) == \E x \in DeclIdx(d) : LET b == d.items[x[1]].ops[x[2]].body IN BVia(b) = "chain" /\ DerefB(b).cts # <<>>
ChainResp(d) == \E x \in DeclIdx(d) : \E e \in Range(d.items[x[1]].ops[x[2]].resps) : RVia(e.r) = "chain" /\ DerefR(e.r).cts # <<>>
Override(d) == \E x \in DeclIdx(d) : Overridden(d.items[x[1]], d.items[x[1]].ops[x[2]]) # {}
ContentParam(d) == \E x \in DeclIdx(d) : \E p \in Range(EffParams(d.items[x[1]], d.items[x[1]].ops[x[2]])) : p.sch.k = "content"
KnownRegion(d) == ChainParam(d) \/ ChainBody(d) \/ ChainResp(d) \/ Override(d) \/ ContentParam(d)

Known(f) ==
  \/ f.clause = "EffectiveParams" /\ f.what = "overridden_kept"
  \/ f.clause = "EffectiveParams" /\ f.what = "schema" /\ f.kk = "content"
  \/ f.clause = "OneIROpPerDeclaredOp" /\ f.what = "dropped_with_warning" /\ f.via = "chain" /\ f.msg = "Parameter node must have a name"
  \/ f.clause = "RefTransparent" /\ f.what \in {"op_dropped", "body_lost", "content_lost"} /\ f.via = "chain"
  \/ f.clause = "BodyContent" /\ f.what = "body_lost" /\ f.via = "chain"
  \/ f.clause = "ResponseTable" /\ f.what = "content_lost" /\ f.via = "chain"

(* ---- the reference semantics *)
FamilyWellFormed == WellFormed(doc) /\ ParamsValid(doc)
MeaningOnePerKey == /\ Cardinality(Meaning(doc)) = NOps(doc)
                    /\ \A a, b \in Meaning(doc) : (a.path = b.path /\ a.m = b.m) => a = b
EffectiveUnique == \A o \in Meaning(doc) : \A a, b \in 1..Len(o.params) : a # b => PKey(o.params[a]) # PKey(o.params[b])
\* nothing declared at either level is lost, and the operation's own declaration wins
EffectiveOverride ==
  \A x \in DeclIdx(doc) :
    LET it == ItOp(x)[1]  op == ItOp(x)[2]  eff == EffParams(it, op) IN
    /\ {PKey(DerefP(p)) : p \in Range(it.params) \cup Range(op.params)} = {PKey(eff[i]) : i \in 1..Len(eff)}
    /\ \A p \in Range(op.params) : PMean(DerefP(p)) \in Range(eff)
MeaningRefTransparent == Meaning(Inline(doc)) = Meaning(doc) /\ ~DocHasRef(Inline(doc))
MeaningLocal == \A x \in DeclIdx(doc) : Meaning(Only(doc, x[1], x[2])) = {OpMeaning(ItOp(x)[1], ItOp(x)[2])}
MeaningOrderFree == Meaning(RevItems(doc)) = Meaning(doc) /\ Meaning(RevKeys(doc)) = Meaning(doc) /\ Meaning(SwingParams(doc)) = Meaning(doc)
VariantsWellFormed == \A v \in Range(Variants(doc)) : WellFormed(v.doc)

(* ---- the named statements, on the reference loader *)
J == phase = "judged"
OneIROpPerDeclaredOp == J => Holds("OneIROpPerDeclaredOp", fi)
EffectiveParams == J => Holds("EffectiveParams", fi)
RefTransparent == J => Holds("RefTransparent", fi)
NoCrossTalk == J => Holds("NoCrossTalk", fi)
ResponseTable == J => Holds("ResponseTable", fi)
BodyContent == J => Holds("BodyContent", fi)
Total == J => Holds("Total", fi)

(* ---- the implementation-shaped loader *)
AsIsOnlyKnown == J => \A f \in fa : Known(f)
AsIsCleanOutside == J /\ ~KnownRegion(doc) => fa = {}
AsIsKnownIsReal == J /\ KnownRegion(doc) => fa # {}
\* the code keeps no state between operations: the as-is loader never fails NoCrossTalk
AsIsNoCrossTalk == J => Holds("NoCrossTalk", fa)

(* ---- the statements have teeth *)
LeakAcrossOps(d) == \E x \in DeclIdx(d) : LET it == d.items[x[1]]  op == it.ops[x[2]] IN LeakyOp(d, it, op) # LeakyOp(Only(d, x[1], x[2]), it, op)
LeakyIsCaught == J => /\ (LeakyLoad(doc) # IdealLoad(doc) => ~Holds("ResponseTable", fl))
                      /\ (LeakAcrossOps(doc) => ~Holds("NoCrossTalk", fl))

Init == doc \in Docs /\ phase = "fresh" /\ fi = {} /\ fa = {} /\ fl = {}
JudgeDoc == /\ phase = "fresh" /\ phase' = "judged" /\ UNCHANGED doc
            /\ fi' = Judge(doc, RunsBy(doc, IdealLoad))
            /\ fa' = Judge(doc, RunsBy(doc, AsIsLoad))
            /\ fl' = Judge(doc, RunsBy(doc, LeakyLoad))
            /\ PrintT("REGION " \o ToJson([chainparam |-> ChainParam(doc), chainbody |-> ChainBody(doc), chainresp |-> ChainResp(doc),
                                            override |-> Override(doc), contentparam |-> ContentParam(doc), leak |-> LeakAcrossOps(doc), strict |-> Strict(doc), nops |-> NOps(doc),
                                            asis |-> Cardinality(fa'), leaky |-> Cardinality(fl')]))
Spec == Init /\ [][JudgeDoc]_<<doc, phase, fi, fa, fl>>
=============================================================================
