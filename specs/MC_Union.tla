------------------------------ MODULE MC_Union ------------------------------
(***************************************************************************)
(* C14 design check + scenario generation in one exhaustive TLC run.       *)
(* One state per union of the family; its Emit step evaluates, for EVERY   *)
(* conforming payload of every variant, the code-shaped ImplChoose against *)
(* the reference ChooseVariant through Judge (a verdict, not an INVARIANT, *)
(* so one run yields the whole counterexample relation) and prints         *)
(*   SCEN {u, cases: [{p, exp, verdict, locus, impl}]}                     *)
(* The harness replays exactly these (union, payload) pairs on the real    *)
(* converter.                                                              *)
(***************************************************************************)
EXTENDS UnionCodec, Json
CONSTANTS Family,        \* "obj" | "obj2" | "mixed" | "disc"
          MinVars, MaxVars
VARIABLES u, done

M3 == {"abs", "opt", "req"}
ObjTypes3 == {Obj(<<x, y, z>>) : x \in M3, y \in M3, z \in M3}
ObjTypes2 == {Obj(<<x, y, "abs">>) : x \in M3, y \in M3}
MixedTypes == {Prim("str"), Prim("int"), Prim("float"), Prim("bool"),
               ListOf("str"), ListOf("int"), MapOf("str"), MapOf("int"), AnyMap,
               Obj(<<"req", "abs", "abs">>), Obj(<<"opt", "abs", "abs">>), Obj(<<"req", "req", "abs">>)}

InjSeqs(Sx, n) == {s \in [1..n -> Sx] : \A i, j \in 1..n : i # j => s[i] # s[j]}
Sizes == MinVars..MaxVars

NoDisc == [mode |-> "none", prop |-> "-", mapping |-> <<>>]
Tag(i) == "t" \o ToString(i)
FullMap(n) == [i \in 1..n |-> <<Tag(i), i>>]
Discs(n) == {[mode |-> "complete", prop |-> "kind", mapping |-> FullMap(n)]}
            \cup {[mode |-> "partial", prop |-> "kind", mapping |-> SelectSeq(FullMap(n), LAMBDA e : e[2] # k)] : k \in 1..n}

Unions ==
  CASE Family = "obj"   -> {[vars |-> s, nullable |-> FALSE, disc |-> NoDisc] : s \in UNION {InjSeqs(ObjTypes3, n) : n \in Sizes}}
    [] Family = "obj2"  -> {[vars |-> s, nullable |-> FALSE, disc |-> NoDisc] : s \in UNION {InjSeqs(ObjTypes2, n) : n \in Sizes}}
    [] Family = "mixed" -> {[vars |-> s, nullable |-> nl, disc |-> NoDisc] : s \in UNION {InjSeqs(MixedTypes, n) : n \in Sizes}, nl \in BOOLEAN}
    [] Family = "disc"  -> UNION {{[vars |-> s, nullable |-> FALSE, disc |-> d] : s \in InjSeqs(ObjTypes2, n), d \in Discs(n)} : n \in Sizes}

\* ---- conforming instances of a variant (canonical: exactly its declared keys, every subset of the optional ones)
ObjPayload(K, dp, tag) ==
  O(SelectSeq(<<KV("a", S("va")), KV("b", S("vb")), KV("c", S("vc"))>>, LAMBDA e : e.k \in K)
    \o (IF dp = "-" THEN <<>> ELSE <<KV(dp, S(tag))>>))

Instances(T, dp, tag) ==
  CASE T.k = "obj"   -> {ObjPayload(WithMode(T, "req") \cup X, dp, tag) : X \in SUBSET WithMode(T, "opt")}
    [] T.k = "str"   -> {S("va"), S("5")}
    [] T.k = "int"   -> {I(0), I(7)}
    [] T.k = "float" -> {F(15), F(20)}
    [] T.k = "bool"  -> {B(TRUE), B(FALSE)}
    [] T.k = "list"  -> IF T.of = "str" THEN {L(<<>>), L(<<S("va")>>), L(<<S("5")>>)} ELSE {L(<<>>), L(<<I(7)>>)}
    [] T.k = "map"   -> IF T.of = "str" THEN {O(<<>>), O(<<KV("x", S("va"))>>), O(<<KV("a", S("va"))>>)}
                        ELSE {O(<<KV("x", I(7))>>)}
    [] T.k = "anymap" -> {O(<<KV("x", I(7))>>), O(<<KV("a", S("va")), KV("x", B(TRUE))>>)}

Payloads(un) ==
  LET n == Len(un.vars) IN
  IF un.disc.mode = "none"
    THEN UNION {Instances(un.vars[i], "-", "-") : i \in 1..n} \cup (IF un.nullable THEN {Null} ELSE {})
    ELSE UNION {Instances(un.vars[i], un.disc.prop, Tag(j)) : i \in 1..n, j \in 1..n}

Case(p, un) ==
  LET o == ImplChoose(p, un)
      e == ChooseVariant(p, un)
      v == JudgeE(p, un, o, e)
  IN [p |-> p, exp |-> e.exp, verdict |-> v,
      locus |-> IF v = "ok" THEN <<>> ELSE LocusE(p, un, o, e),
      impl |-> [out |-> o.out, chosen |-> o.chosen, ekind |-> o.ekind]]

Init == u \in Unions /\ done = FALSE
Emit == /\ ~done
        /\ done' = TRUE
        /\ UNCHANGED u
        /\ LET ps == SetToSeq(Payloads(u))
           IN PrintT("SCEN " \o ToJson([u |-> u, cases |-> [i \in 1..Len(ps) |-> Case(ps[i], u)]]))
Spec == Init /\ [][Emit]_<<u, done>>
=============================================================================
