------------------------------ MODULE MC_Union ------------------------------
(***************************************************************************)
(* C14 design check + scenario generation in one exhaustive TLC run.       *)
(* One state per union of the family; its Emit step evaluates, for EVERY   *)
(* conforming payload of every variant, the code-shaped ImplChoose against *)
(* the reference ChooseVariant through Judge (a verdict, not an INVARIANT, *)
(* so one run yields the whole counterexample relation) and prints         *)
(*   SCEN {u, cases: [{p, exp, verdict, locus, impl}]}                     *)
(* The harness replays exactly these (union, payload) pairs on the real    *)
(* converter.                                                              *)
(***************************************************************************)
EXTENDS UnionCodec, Json
CONSTANTS Family,        \* "obj" | "obj2" | "mixed" | "disc" | "extra"
          MinVars, MaxVars,
          WithExtra      \* BOOLEAN: additionally emit the 2-variant unions of the "extra" family in this run
VARIABLES u, done

M3 == {"abs", "opt", "req"}
ObjTypes3 == {Obj(<<x, y, z>>) : x \in M3, y \in M3, z \in M3}
ObjTypes2 == {Obj(<<x, y, "abs">>) : x \in M3, y \in M3}
MixedTypes == {Prim("str"), Prim("int"), Prim("float"), Prim("bool"),
               ListOf("str"), ListOf("int"), MapOf("str"), MapOf("int"), AnyMap,
               Obj(<<"req", "abs", "abs">>), Obj(<<"opt", "abs", "abs">>), Obj(<<"req", "req", "abs">>)}

\* required-and-nullable fields: object types over {a,b} with modes abs/opt/req/rnul
M4 == M3 \cup {"rnul"}
ObjNullTypes == {Obj(<<x, y, "abs">>) : x \in M4, y \in M4}
HasRnul(T) == \E i \in 1..3 : T.f[i] = "rnul"
\* annotated properties (default on required / optional, inline enum, format: date): what the emitted field accepts
MA == {"abs", "opt", "req", "reqdef", "optdef", "reqenum", "reqdate"}
MB == {"abs", "req", "reqdef"}
ObjAnnTypes == {Obj(<<x, y, "abs">>) : x \in MA, y \in MB}
HasAnn(T) == \E i \in 1..3 : T.f[i] \in {"reqdef", "optdef", "reqenum", "reqdate"}

InjSeqs(Sx, n) == {s \in [1..n -> Sx] : \A i, j \in 1..n : i # j => s[i] # s[j]}
Sizes == MinVars..MaxVars

NoDisc == [mode |-> "none", prop |-> "-", mapping |-> <<>>]
Tag(i) == "t" \o ToString(i)
FullMap(n) == [i \in 1..n |-> <<Tag(i), i>>]
Discs(n) == {[mode |-> "complete", prop |-> "kind", mapping |-> FullMap(n)]}
            \cup {[mode |-> "partial", prop |-> "kind", mapping |-> SelectSeq(FullMap(n), LAMBDA e : e[2] # k)] : k \in 1..n}

\* a mapping need not be injective: "multi" maps a second value (listed last) to the first variant
MultiDisc(n) == [mode |-> "multi", prop |-> "kind", mapping |-> FullMap(n) \o <<<<"t1b", 1>>>>]

\* the "extra" family: (a) undiscriminated object unions in which at least one variant has a required nullable field,
\* (b) discriminated unions with a non-injective mapping, (c) undiscriminated object unions in which at least one
\* variant has an annotated property
ExtraUnions(sizes) ==
  {[vars |-> s, nullable |-> FALSE, disc |-> NoDisc] :
      s \in {x \in UNION {InjSeqs(ObjNullTypes, n) : n \in sizes} : \E i \in 1..Len(x) : HasRnul(x[i])}}
  \cup {[vars |-> s, nullable |-> FALSE, disc |-> NoDisc] :
      s \in {x \in UNION {InjSeqs(ObjAnnTypes, n) : n \in sizes} : \E i \in 1..Len(x) : HasAnn(x[i])}}
  \cup UNION {{[vars |-> s, nullable |-> FALSE, disc |-> MultiDisc(n)] : s \in InjSeqs(ObjTypes2, n)} : n \in sizes}
  \* (d) the union schema's own modifiers: a discriminated union that is itself NULLABLE (null decodes to None, every
  \*     other payload as the discriminator says)
  \cup UNION {{[vars |-> s, nullable |-> TRUE, disc |-> d] : s \in InjSeqs(ObjTypes2, n), d \in Discs(n)} : n \in sizes}

BaseUnions ==
  CASE Family = "obj"   -> {[vars |-> s, nullable |-> FALSE, disc |-> NoDisc] : s \in UNION {InjSeqs(ObjTypes3, n) : n \in Sizes}}
    [] Family = "obj2"  -> {[vars |-> s, nullable |-> FALSE, disc |-> NoDisc] : s \in UNION {InjSeqs(ObjTypes2, n) : n \in Sizes}}
    [] Family = "mixed" -> {[vars |-> s, nullable |-> nl, disc |-> NoDisc] : s \in UNION {InjSeqs(MixedTypes, n) : n \in Sizes}, nl \in BOOLEAN}
    [] Family = "disc"  -> UNION {{[vars |-> s, nullable |-> FALSE, disc |-> d] : s \in InjSeqs(ObjTypes2, n), d \in Discs(n)} : n \in Sizes}
    [] Family = "extra" -> ExtraUnions(Sizes)
Unions == BaseUnions \cup (IF WithExtra THEN ExtraUnions({2}) ELSE {})

\* ---- conforming instances of a variant (canonical: exactly its declared keys, every subset of the optional ones).
\* TLC cannot build a SET of trees of different JSON types (it would have to compare them), so instances are
\* enumerated as homogeneous descriptors [kind, keys, tag] and turned into trees one at a time.
\* keys in N carry an explicit null, keys in D a date string (the value a `format: date` property conforms to)
FieldVal(k, N, D) == IF k \in N THEN Null ELSE IF k \in D THEN S("2020-01-02") ELSE S("v" \o k)
ObjPayload(K, N, D, dp, tag) ==
  O(SelectSeq(<<KV("a", FieldVal("a", N, D)), KV("b", FieldVal("b", N, D)), KV("c", FieldVal("c", N, D))>>, LAMBDA e : e.k \in K)
    \o (IF dp = "-" THEN <<>> ELSE <<KV(dp, S(tag))>>))

ObjIdND(K, N, D, tag) == [kind |-> "obj", keys |-> K, nulls |-> N, dates |-> D, tag |-> tag]
ObjIdN(K, N, tag) == ObjIdND(K, N, {}, tag)
ObjId(K, tag) == ObjIdN(K, {}, tag)
Lit(x)        == [kind |-> "lit", keys |-> {}, nulls |-> {}, dates |-> {}, tag |-> x]
LitTree(x) ==
  CASE x = "s:va" -> S("va")  [] x = "s:5" -> S("5")
    [] x = "i:0" -> I(0)      [] x = "i:7" -> I(7)
    [] x = "f:1.5" -> F(15)   [] x = "f:2.0" -> F(20)
    [] x = "b:T" -> B(TRUE)   [] x = "b:F" -> B(FALSE)
    [] x = "l:" -> L(<<>>)    [] x = "l:va" -> L(<<S("va")>>)  [] x = "l:5" -> L(<<S("5")>>)  [] x = "l:i7" -> L(<<I(7)>>)
    [] x = "m:" -> O(<<>>)    [] x = "m:x=va" -> O(<<KV("x", S("va"))>>)  [] x = "m:a=va" -> O(<<KV("a", S("va"))>>)
    [] x = "m:x=7" -> O(<<KV("x", I(7))>>)  [] x = "m:a=va,x=T" -> O(<<KV("a", S("va")), KV("x", B(TRUE))>>)
    [] x = "null" -> Null
Tree(id, dp) == IF id.kind = "obj" THEN ObjPayload(id.keys, id.nulls, id.dates, IF id.tag = "-" THEN "-" ELSE dp, id.tag) ELSE LitTree(id.tag)

Instances(T, tag) ==
  CASE T.k = "obj"   -> {ObjIdND(Required(T, "-") \cup X, N, WithMode(T, "reqdate"), tag) :
                           X \in SUBSET WithModes(T, OptModes), N \in SUBSET WithMode(T, "rnul")}
    [] T.k = "str"   -> {Lit("s:va"), Lit("s:5")}
    [] T.k = "int"   -> {Lit("i:0"), Lit("i:7")}
    [] T.k = "float" -> {Lit("f:1.5"), Lit("f:2.0")}
    [] T.k = "bool"  -> {Lit("b:T"), Lit("b:F")}
    [] T.k = "list"  -> IF T.of = "str" THEN {Lit("l:"), Lit("l:va"), Lit("l:5")} ELSE {Lit("l:"), Lit("l:i7")}
    [] T.k = "map"   -> IF T.of = "str" THEN {Lit("m:"), Lit("m:x=va"), Lit("m:a=va")} ELSE {Lit("m:x=7")}
    [] T.k = "anymap" -> {Lit("m:x=7"), Lit("m:a=va,x=T")}

\* plus payloads that (mostly) conform to no variant: an object with an unknown key, and for discriminated unions a
\* body without the discriminator property - only C14.not_a_variant is judged on those
PayloadIds(un) ==
  LET n == Len(un.vars) IN
  IF un.disc.mode = "none"
    THEN UNION {Instances(un.vars[i], "-") : i \in 1..n} \cup (IF un.nullable THEN {Lit("null")} ELSE {}) \cup {Lit("m:x=7")}
    ELSE UNION {Instances(un.vars[i], tg) : i \in 1..n, tg \in {Tag(j) : j \in 1..n} \cup {un.disc.mapping[m][1] : m \in 1..Len(un.disc.mapping)}}
         \cup {Lit("m:x=7"), ObjId({"a"}, "-")} \cup (IF un.nullable THEN {Lit("null")} ELSE {})

Case(p, un) ==
  LET o == ImplChoose(p, un)
      e == ChooseVariant(p, un)
      v == JudgeE(p, un, o, e)
  IN [p |-> p, exp |-> e.exp, verdict |-> v,
      locus |-> IF v = "ok" THEN <<>> ELSE LocusE(p, un, o, e),
      impl |-> [out |-> o.out, chosen |-> o.chosen, ekind |-> o.ekind]]

Init == u \in Unions /\ done = FALSE
Emit == /\ ~done
        /\ done' = TRUE
        /\ UNCHANGED u
        /\ LET ps == SetToSeq(PayloadIds(u))
           IN PrintT("SCEN " \o ToJson([u |-> u, cases |-> [i \in 1..Len(ps) |-> Case(Tree(ps[i], DiscProp(u)), u)]]))
Spec == Init /\ [][Emit]_<<u, done>>
=============================================================================
