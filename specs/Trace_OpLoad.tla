----------------------------- MODULE Trace_OpLoad -----------------------------
(***************************************************************************)
(* X05 monitor.  One trace = one document of the family (as Gen_OpLoad     *)
(* printed it) with what the REAL `load_ir_from_spec` did for each of its  *)
(* variants (harness/w_opload.py): `runs` = Seq [kind, arg, obs].          *)
(* Total: every trace gets one VERDICT line with                           *)
(*   fails  every failing clause (OpLoad!Judge - the same operator the     *)
(*          design check uses), with what / via / key kind / message and   *)
(*          the operation it was observed at;                              *)
(*   drift  where the implementation-shaped loader (OpLoad!AsIsLoad) run   *)
(*          on the same variant differs from the observation ("none");     *)
(*   ev     how many instances of each statement were evaluated.           *)
(***************************************************************************)
EXTENDS OpLoad, Json, IOUtils, SequencesExt

Traces == ndJsonDeserialize(IOEnv.TRACE_FILE)
VARIABLES tid, done

\* comparison with the as-is model: invented schema names and invented operation ids are not modelled
\* (nor is the schema registry keyed by invented names: operations that share an operationId are compared without schemas)
BlankCts(cts) == Map(cts, LAMBDA c : [c EXCEPT !.sch = SBlank])
NoSchemas(o) == [o EXCEPT !.params = Map(o.params, LAMBDA p : [p EXCEPT !.sch = SBlank]), !.bcts = BlankCts(o.bcts),
                          !.resps = Map(o.resps, LAMBDA r : [r EXCEPT !.cts = BlankCts(r.cts)])]
DriftOp(doc, o) == LET n == [NormOp(o) EXCEPT !.opid = IF o.opid \in DeclaredIds(doc) THEN o.opid ELSE "auto"] IN
                   IF o.opid \in DupIds(doc) THEN NoSchemas(n) ELSE n
Skips(obs) == {<<obs.skips[i].m, obs.skips[i].path, obs.skips[i].msg>> : i \in 1..Len(obs.skips)}
DriftRun(doc, vdoc, obs) ==
  LET model == AsIsLoad(vdoc) IN
  IF obs.exc # "" THEN "exception:" \o obs.exc
  ELSE IF Skips(obs) # Skips(model) THEN "skips"
  ELSE IF Len(obs.ops) # Len(model.ops) THEN "number_of_operations"
  ELSE LET bad == {i \in 1..Len(obs.ops) : DriftOp(doc, obs.ops[i]) # DriftOp(doc, model.ops[i])} IN
       IF bad = {} THEN "none"
       ELSE LET i == CHOOSE i \in bad : TRUE
                x == DriftOp(doc, obs.ops[i])  y == DriftOp(doc, model.ops[i]) IN
            IF <<x.path, x.m>> # <<y.path, y.m>> THEN "order_of_operations"
            ELSE IF x.params # y.params THEN "params"
            ELSE IF x.resps # y.resps THEN "responses"
            ELSE IF <<x.hasbody, x.breq, x.bcts>> # <<y.hasbody, y.breq, y.bcts>> THEN "body"
            ELSE "identity"
Drift(t) ==
  LET vs == Variants(t.doc) IN
  IF Map(vs, LAMBDA v : <<v.kind, v.arg>>) # Map(t.runs, LAMBDA r : <<r.kind, r.arg>>) THEN "variants"
  ELSE LET ds == [i \in 1..Len(vs) |-> DriftRun(t.doc, vs[i].doc, t.runs[i].obs)]
           bad == {i \in 1..Len(vs) : ds[i] # "none"} IN
       IF bad = {} THEN "none" ELSE LET i == CHOOSE i \in bad : \A j \in bad : i <= j IN vs[i].kind \o ":" \o ds[i]

Ev(t) ==
  LET d == t.doc  xs == DeclIdx(d)
      sum(f(_)) == Cardinality(UNION {{<<x, i>> : i \in 1..f(x)} : x \in xs}) IN
  [ops |-> Cardinality(xs),
   params |-> sum(LAMBDA x : Len(EffParams(d.items[x[1]], d.items[x[1]].ops[x[2]]))),
   overrides |-> sum(LAMBDA x : Cardinality(Overridden(d.items[x[1]], d.items[x[1]].ops[x[2]]))),
   bodies |-> sum(LAMBDA x : IF d.items[x[1]].ops[x[2]].body.decl = "none" THEN 0 ELSE 1),
   resps |-> sum(LAMBDA x : Len(d.items[x[1]].ops[x[2]].resps)),
   refops |-> sum(LAMBDA x : IF OpHasRef(d.items[x[1]], d.items[x[1]].ops[x[2]]) THEN 1 ELSE 0),
   twin |-> Len(RunsOf(t.runs, "twin")), alone |-> Len(RunsOf(t.runs, "alone")), perm |-> Len(RunsOf(t.runs, "perm")),
   strict |-> Strict(d), rejected |-> MainObs(t.runs).exc # ""]

Verdict(t) == [id |-> t.id, fails |-> SetToSeq(Judge(t.doc, t.runs)), drift |-> Drift(t), ev |-> Ev(t)]

Init == tid \in 1..Len(Traces) /\ done = FALSE
JudgeTrace == /\ ~done /\ done' = TRUE /\ UNCHANGED tid
              /\ PrintT("VERDICT " \o ToJson(Verdict(Traces[tid])))
Spec == Init /\ [][JudgeTrace]_<<tid, done>>
=============================================================================
