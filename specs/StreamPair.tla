----------------------------- MODULE StreamPair -----------------------------
(***************************************************************************)
(* C18, more than one stream.  Two decoders (StreamCore step functions),   *)
(* each with ITS OWN carried state, are fed chunk by chunk in every        *)
(* interleaving the event loop can produce; stream 1 may additionally be   *)
(* abandoned (transport error) after any of its chunks, possibly in the    *)
(* middle of an event.  Sequential histories (stream 1 fully or partly     *)
(* consumed, then stream 2) are the interleavings without alternation.     *)
(*                                                                         *)
(* StreamsIndependent: whatever the history, a stream that ends normally   *)
(* has delivered exactly its own whole-stream meaning, an abandoned one a  *)
(* prefix of it.                                                           *)
(*                                                                         *)
(* The schedule (history variable `sched`) makes every behaviour a state,  *)
(* so the same TLC run that checks the design also prints every schedule   *)
(* (tag SCHED) for replay on the real helpers.                             *)
(***************************************************************************)
EXTENDS StreamCore, Json, TLC

CONSTANTS
  PairScenarios,  \* set of [a : [mode, bytes], b : [mode, bytes]]
  PairMaxCuts,    \* cut sets: <= PairMaxCuts key cuts, plus the cut-at-every-line-boundary chunking
  AllowAbort      \* stream 1 may be abandoned after >= 1 chunk

VARIABLES
  sc,      \* the pair
  cutsOf,  \* <<cuts of stream 1, cuts of stream 2>>
  p,       \* <<decoder 1, decoder 2>> : [pos, carry, st, fin : "open" | "closed" | "aborted"]
  sched,   \* history: sequence of 10 * stream + (0 deliver | 1 close | 2 abort)
  mid,     \* ghost: some step of one stream happened while the other stream's event was partly received
  done

vars == <<sc, cutsOf, p, sched, mid, done>>

Str(i) == IF i = 1 THEN sc.a ELSE sc.b
Other(i) == 3 - i

\* cut positions that matter for interference: everywhere but inside a line, plus right after a field's colon
KeyCuts(s) == {c \in 1..(Len(s.bytes) - 1) : CutKind(s.mode, s.bytes, c) # "in_line" \/ s.bytes[c] = COLON}
LineCuts(s) == {c \in 1..(Len(s.bytes) - 1) : CutKind(s.mode, s.bytes, c) \in {"between_lines", "before_blank", "at_rest"}}
PairCutSets(s) == UNION {KSubsets(KeyCuts(s), k) : k \in 0..PairMaxCuts} \cup {LineCuts(s)}

D0 == [pos |-> 0, carry |-> <<>>, st |-> S0, fin |-> "open"]

Init ==
  /\ sc \in PairScenarios
  /\ cutsOf \in {<<x, y>> : x \in PairCutSets(sc.a), y \in PairCutSets(sc.b)}
  /\ p = <<D0, D0>>
  /\ sched = <<>>
  /\ mid = FALSE
  /\ done = FALSE

NextCut(i) == LET later == {c \in cutsOf[i] : c > p[i].pos} IN
              IF later = {} THEN Len(Str(i).bytes) ELSE CHOOSE c \in later : \A d \in later : c <= d

\* the other stream is open and holds a partly received event / record / character
OtherMid(i) == LET q == p[Other(i)] IN
               q.fin = "open" /\ (q.carry # <<>> \/ q.st.ln # <<>> \/ q.st.bl # <<>>)

Step(i, code, d) ==
  /\ p' = [p EXCEPT ![i] = d]
  /\ sched' = Append(sched, 10 * i + code)
  /\ mid' = (mid \/ OtherMid(i))
  /\ UNCHANGED <<sc, cutsOf, done>>

Deliver(i) ==
  /\ p[i].fin = "open"
  /\ p[i].pos < Len(Str(i).bytes)
  /\ LET nxt == NextCut(i)
         d == DecodeChunk(p[i].carry, SubSeq(Str(i).bytes, p[i].pos + 1, nxt))
     IN Step(i, 0, [pos |-> nxt, carry |-> d.carry, st |-> FeedAll(Str(i).mode, p[i].st, d.chars), fin |-> "open"])

Close(i) ==
  /\ p[i].fin = "open"
  /\ p[i].pos = Len(Str(i).bytes)
  /\ Step(i, 1, [p[i] EXCEPT !.st = FlushF(Str(i).mode, p[i].st, p[i].carry), !.carry = <<>>, !.fin = "closed"])

Abort(i) ==
  /\ AllowAbort
  /\ i = 1
  /\ p[i].fin = "open"
  /\ p[i].pos > 0
  /\ Step(i, 2, [p[i] EXCEPT !.fin = "aborted"])

Emit ==
  /\ ~done
  /\ p[1].fin # "open" /\ p[2].fin # "open"
  /\ done' = TRUE
  /\ UNCHANGED <<sc, cutsOf, p, sched, mid>>
  /\ PrintT("SCHED " \o ToJson([am |-> sc.a.mode, ab |-> sc.a.bytes, bm |-> sc.b.mode, bb |-> sc.b.bytes,
                                c1 |-> SortedSeq(cutsOf[1]), c2 |-> SortedSeq(cutsOf[2]),
                                sched |-> sched, mid |-> mid]))

Next == (\E i \in {1, 2} : Deliver(i) \/ Close(i) \/ Abort(i)) \/ Emit
Spec == Init /\ [][Next]_vars

----------------------------------------------------------------------------
IsPrefixOf(x, y) == Len(x) <= Len(y) /\ SubSeq(y, 1, Len(x)) = x

StreamsIndependent ==
  done => \A i \in {1, 2} :
    /\ p[i].fin = "closed" => p[i].st.o = Expected(Str(i).mode, Str(i).bytes)
    /\ p[i].fin = "aborted" => IsPrefixOf(p[i].st.o, Expected(Str(i).mode, Str(i).bytes))
=============================================================================
