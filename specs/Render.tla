------------------------------- MODULE Render -------------------------------
(***************************************************************************)
(* C19: two runs on the same abstract document, concretised differently.   *)
(*   Variant == [rendering, schemas, paths, props]                         *)
(*     rendering \in {"json","jsonSorted","yamlBlock","yamlFlow",         *)
(*                    "yamlBareKeys","yamlMixedKeys","yamlCapBool"}        *)
(*                    (sorted keys; number-like keys written bare - all of *)
(*                    them, or every other one next to quoted neighbours;  *)
(*                    numeric status keys; booleans written True/False)    *)
(*     schemas / paths / props \in {"id","rev","rot"} (how the entries of  *)
(*     components.schemas, paths, and each object's properties are         *)
(*     permuted; "id" = as declared)                                       *)
(* Meaning(variant A) = Meaning(variant B) by construction, so             *)
(*   SameClient == Manifest(runA) = Manifest(runB)                         *)
(*   SameBytes  == pure re-rendering (no permutation) => equal file trees  *)
(* Gen: every variant paired with the reference variant (json, id,id,id).  *)
(***************************************************************************)
EXTENDS Naturals, Sequences, FiniteSets, TLC, Json

CONSTANTS Renderings, Perms
VARIABLES v, done

\* pathitem: order of the keys INSIDE every path item (methods and the shared `parameters` entry)
Variants == [rendering : Renderings, schemas : Perms, paths : Perms, props : Perms, pathitem : Perms]
\* sorted-key JSON reorders every mapping: it is a permutation of all dimensions, not a pure re-rendering
Pure(x) == x.schemas = "id" /\ x.paths = "id" /\ x.props = "id" /\ x.pathitem = "id" /\ x.rendering # "jsonSorted"
Reference == [rendering |-> "json", schemas |-> "id", paths |-> "id", props |-> "id", pathitem |-> "id"]
\* one dimension at a time plus the all-permuted corner (the full product adds nothing the pairs do not show)
Interesting(x) == x # Reference /\
  (Pure(x) \/ Cardinality({d \in {"schemas", "paths", "props", "pathitem"} : x[d] # "id"}) = 1
           \/ (x.schemas = x.paths /\ x.paths = x.props /\ x.props = x.pathitem))

Init == v \in {x \in Variants : Interesting(x)} /\ done = FALSE
Emit == ~done /\ done' = TRUE /\ UNCHANGED v /\ PrintT("SCEN " \o ToJson([variant |-> v, pure |-> Pure(v)]))
Spec == Init /\ [][Emit]_<<v, done>>

\* the judge used by Trace_Render (per pair of runs): which clause fails, if any
Clause(o) ==
  IF ~o.accepted_a \/ ~o.accepted_b THEN (IF o.accepted_a # o.accepted_b THEN "C19.acceptance_differs" ELSE "ok")
  ELSE IF ~o.same_models THEN "C19.models_differ"
  ELSE IF ~o.same_fields THEN "C19.fields_differ"
  ELSE IF ~o.same_ops THEN "C19.operations_differ"
  ELSE IF ~o.same_sigs THEN "C19.signatures_differ"
  ELSE IF o.pure /\ ~o.same_bytes THEN "C19.bytes_differ"
  ELSE "ok"
=============================================================================
