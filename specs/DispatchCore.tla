---------------------------- MODULE DispatchCore ----------------------------
(***************************************************************************)
(* C06 - constant-level part of the status-dispatch specification.         *)
(*                                                                         *)
(*  * the scenario vocabulary: a DECLARATION is the set of response keys   *)
(*    of one operation; a member is                                        *)
(*       [k : "code" | "default" | "range", code : Nat, content : BOOLEAN] *)
(*    (code = the status for "code", the hundreds digit for "range" - the  *)
(*    OpenAPI keys "4XX" / "5XX" -, 0 for "default"; content = the         *)
(*    response declares a JSON body); the document lists the responses in  *)
(*    some ORDER, of which the generator uses exactly one fact: which      *)
(*    response is listed FIRST (`first`, the fallback of the primary-      *)
(*    response choice) - a scenario is the pair (decl, first);             *)
(*  * the BODY the server answers with is a call dimension: a JSON object  *)
(*    that fits the declared schema (also very long, also without content *)
(*    type), a JSON array, a JSON string, JSON null, an empty body,        *)
(*    whitespace, an HTML page, bytes that are not UTF-8 (Bodies); so are  *)
(*    the HEADERS of the answer (HeaderSets: Retry-After, Content-Type     *)
(*    variants, WWW-Authenticate, Location, repeated / very long / non-    *)
(*    ASCII header values) - no outcome function depends on them;          *)
(*  * the way the document writes the responses down (Modes: inline, by    *)
(*    reference to components/responses, one shared component for several  *)
(*    status codes and operations) is a rendering dimension: no outcome    *)
(*    function depends on it, the replay varies it;                        *)
(*  * IMPLEMENTATION-SHAPED outcome functions, one per place where the     *)
(*    code decides (variant "as_is"):                                      *)
(*      TransportExc     http_transport.py:193-202 - for status < 200 or   *)
(*                       >= 300 HttpxTransport raises ClientError (4xx),   *)
(*                       ServerError (5xx) or the base HTTPError, each with*)
(*                       (status_code=, message=, response=) [repaired by  *)
(*                       84403d5; it used to raise the base class always]; *)
(*      Primary          endpoint_utils._get_primary_response: 200, 201,   *)
(*                       202, 204, other 2xx, `default`, else THE FIRST    *)
(*                       LISTED response (an error response then decides   *)
(*                       the method's return type);                        *)
(*      PrimaryCase      response_handler_generator.py:436-453 - the       *)
(*                       primary response gets the value-returning first   *)
(*                       `case` only when its key is a numeric 2xx;        *)
(*      DeclaredOutcome  response_handler_generator.py:457-489 - one       *)
(*                       `case <code>:` per numeric key; 2xx returns, every*)
(*                       4xx/5xx code raises the alias class               *)
(*                       `<Alias>(response=response)`, a 1xx/3xx code the  *)
(*                       base HTTPError with status and response; aliases  *)
(*                       exist only                                        *)
(*                       for 4xx (base ClientError) and 5xx (base          *)
(*                       ServerError) (exception_visitor.py:44-57), their  *)
(*                       __init__ passes status_code=response.status_code  *)
(*                       and response=response to HTTPError;               *)
(*      Importable       TRUE since 5b87475: a declared 1xx/3xx key raises *)
(*                       the base HTTPError(response=, message=,           *)
(*                       status_code=) instead of importing an alias that  *)
(*                       does not exist (aliases: 4xx/5xx only);           *)
(*      RangeHit         "4XX".isdigit() is False: NO case is emitted for a*)
(*                       range key (line 458), the key is silently ignored;*)
(*      DefaultOutcome   lines 494-505 - `case _:` of a declared default:  *)
(*                       when the default response has content AND the     *)
(*                       operation's return type is not None the status is *)
(*                       ignored and the body is parsed and RETURNED with  *)
(*                       the PRIMARY response's type (a non-object body    *)
(*                       makes that parse raise - Broken); otherwise base  *)
(*                       HTTPError(response=, message=, status_code=);     *)
(*      CatchAllOutcome  lines 506-514 - base HTTPError(response=,         *)
(*                       message=, status_code=response.status_code);      *)
(*    and the variant "fixed" (class chosen by status range everywhere,    *)
(*    range keys dispatched, default never returns a non-2xx, 1xx/3xx keys *)
(*    raise the base class) that shows the property is satisfiable;        *)
(*  * `ModelOutcome` - their composition (what Dispatch.tla's machine      *)
(*    reaches, invariant MachineIsModel);                                  *)
(*  * the judge `Failures(decl, transport, status, outcome)`: the set of   *)
(*    failing C06 clauses, each with the locus computed from the event.    *)
(*                                                                         *)
(* An outcome is [kind : "return" | "raise" | "unimportable",              *)
(*                mro  : SUBSET {"HTTPError","ClientError","ServerError"}  *)
(*                       (the package's OWN classes among the exception's  *)
(*                       ancestors),                                       *)
(*                status : Nat (the exception's .status_code, 0 = none),   *)
(*                hasResponse : BOOLEAN (.response is the httpx response), *)
(*                exc : STRING (observed exception type, "" in the model)] *)
(***************************************************************************)
EXTENDS Naturals, Sequences, FiniteSets, FiniteSetsExt

\* ---------------------------------------------------------------------------------------------
\* vocabulary

CodeKey(c, hasContent) == [k |-> "code", code |-> c, content |-> hasContent]
DefaultKey(hasContent) == [k |-> "default", code |-> 0, content |-> hasContent]
RangeKey(digit)        == [k |-> "range", code |-> digit, content |-> FALSE]

\* the family of the design check and of the replay.  Numeric keys come in SLOTS; the members of one slot are variants
\* of the same kind of response:
\*   ok   200 (JSON body)          nocontent 204
\*   i1   declared informational   100, 101, 103 (with a body)          - valid inputs since /repo 5b87475
\*   r3   declared redirection     301 (with a body), 302, 304
\*   e4   client error, no body    404 (registered, named alias), 419 (not in http.HTTPStatus, alias Error419)
\*   e4c  client error WITH a body 410
\*   e5   server error, no body    500, 520 (not in http.HTTPStatus)
\* plus `default` with / without content and the range keys 4XX, 5XX
Universe == {CodeKey(200, TRUE), CodeKey(204, FALSE),
             CodeKey(100, FALSE), CodeKey(101, FALSE), CodeKey(103, TRUE),
             CodeKey(301, TRUE), CodeKey(302, FALSE), CodeKey(304, FALSE),
             CodeKey(404, FALSE), CodeKey(419, FALSE), CodeKey(410, TRUE),
             CodeKey(500, FALSE), CodeKey(520, FALSE),
             DefaultKey(TRUE), DefaultKey(FALSE), RangeKey(4), RangeKey(5)}

\* 404 / 500 are registered statuses with a named alias class; 419 / 520 are valid HTTP statuses that are NOT in the
\* IANA registry / Python's http.HTTPStatus (alias `Error419`); the served statuses (MC_Dispatch!MCStatusReps) likewise mix
\* registered and unregistered codes and the borders of every class

\* what the fake server puts into the response: the property holds WHATEVER the body is.  "object" a JSON object that
\* fits the declared schema; "long" the same with a 8 kB string; "json_noctype" the same without a content-type header;
\* "array", "string", "null" other JSON; "empty" no body and no content type; "whitespace"; "html"; "nonutf8" bytes that
\* are not UTF-8.  Only the first three can be parsed into the declared model
Bodies == {"object", "long", "json_noctype", "array", "string", "null", "empty", "whitespace", "html", "nonutf8"}
Parses(b) == b \in {"object", "long", "json_noctype"}

Is2xx(s) == s \in 200..299
Is4xx(s) == s \in 400..499
Is5xx(s) == s \in 500..599

CodeMembers(d) == {m \in d : m.k = "code"}
Codes(d)       == {m.code : m \in CodeMembers(d)}
Defaults(d)    == {m \in d : m.k = "default"}
Ranges(d)      == {m.code : m \in {x \in d : x.k = "range"}}
HasDefault(d)  == Defaults(d) # {}
DefaultContent(d) == \E m \in Defaults(d) : m.content

\* one response per key (a JSON/YAML mapping), at least one response (OpenAPI requires it)
WellFormed(d) ==
  /\ d # {}
  /\ Cardinality(Defaults(d)) <= 1
  /\ \A m, n \in CodeMembers(d) : m.code = n.code => m = n
  /\ \A m \in CodeMembers(d) : m.code \in 100..599
  /\ \A r \in Ranges(d) : r \in 1..5

\* canonical listing order: numeric keys ascending, then range keys, then default
Rank(m) == (CASE m.k = "code" -> 0 [] m.k = "range" -> 10000 [] OTHER -> 20000) + 2 * m.code + (IF m.content THEN 1 ELSE 0)
CanonFirst(d) == CHOOSE m \in d : \A n \in d : Rank(m) <= Rank(n)
HasSuccess(d) == \E c \in Codes(d) : Is2xx(c)
SumRank(d) == FoldSet(LAMBDA m, acc : acc + Rank(m), 0, d)
\* one listing order other than the canonical one: the other member of a pair, the second or the third (in canonical
\* order, picked by a weight of the declaration) of a triple
AltFirst(d) ==
  LET rest == d \ {CanonFirst(d)}
      lo   == CHOOSE m \in rest : \A n \in rest : Rank(m) <= Rank(n)
      hi   == CHOOSE m \in rest : \A n \in rest : Rank(m) >= Rank(n)
  IN  IF rest = {} THEN CanonFirst(d) ELSE IF SumRank(d) % 2 = 0 THEN lo ELSE hi
\* ---- the declarations of the family ------------------------------------------------------------------------
SlotOf(m) ==
  CASE m.k = "default" -> "default"
    [] m.k = "range"   -> IF m.code = 4 THEN "r4" ELSE "r5"
    [] m.code = 200    -> "ok"
    [] m.code = 204    -> "nocontent"
    [] m.code \in 100..199 -> "i1"
    [] m.code \in 300..399 -> "r3"
    [] m.code = 410    -> "e4c"
    [] m.code \in 400..499 -> "e4"
    [] OTHER           -> "e5"
SlotNum(sl) == CASE sl = "ok" -> 1 [] sl = "nocontent" -> 2 [] sl = "i1" -> 3 [] sl = "r3" -> 4 [] sl = "e4" -> 5
                 [] sl = "e4c" -> 6 [] sl = "e5" -> 7 [] sl = "default" -> 8 [] sl = "r4" -> 9 [] OTHER -> 10
Rotated == {"i1", "r3", "e4", "e5"}
\* at most one variant of a slot per declaration
OnePerSlot(d) == \A m, n \in d : SlotOf(m) = SlotOf(n) => m = n
VariantsOf(members, sl) == {m \in members : SlotOf(m) = sl}
Idx(members, m) == Cardinality({n \in VariantsOf(members, SlotOf(m)) : Rank(n) < Rank(m)})
SlotWeight(d) == FoldSet(LAMBDA m, acc : acc + SlotNum(SlotOf(m)), 0, d)
\* stratification of the quick tier: singles and pairs take EVERY variant (every declared 1xx / 3xx / registered and
\* unregistered error code alone and next to every other kind of response); for a triple of slots ONE combination of
\* variants, rotated by a weight of the slots.  The full family (thorough) takes every combination
Chosen(members, d) ==
  \A m \in d : SlotOf(m) \in Rotated =>
      Idx(members, m) = (SlotWeight(d) + SlotNum(SlotOf(m))) % Cardinality(VariantsOf(members, SlotOf(m)))
\* the stratified family: what the quick tier runs, and the part of the full family that gets the full treatment
Core(members, d) == Cardinality(d) < 3 \/ Chosen(members, d)
DeclSets(members, max, full) ==
  {d \in UNION {kSubset(n, members) : n \in 1..max} : WellFormed(d) /\ OnePerSlot(d) /\ (full \/ Core(members, d))}

\* which response is listed first: the canonical one, and for the documents that declare no success response at all
\* (the ones for which "first listed" is a documented fallback rule) a second order; in the full family every choice
\* for the declarations of the stratified family
Firsts(members, d, full) ==
  IF full /\ Core(members, d) THEN d ELSE IF ~HasSuccess(d) THEN {CanonFirst(d), AltFirst(d)} ELSE {CanonFirst(d)}

\* `full`: every variant combination (thorough); otherwise the stratified family
Scenarios(members, max, full) ==
  UNION {{[d |-> d, first |-> f] : f \in Firsts(members, d, full)} : d \in DeclSets(members, max, full)}

\* the HEADERS of the server's answer are the third dimension of "whatever the server answers" (after status and body).
\* No outcome function below takes them: the property demands the same status-carrying, class-correct error whatever
\* they are; the replay rotates this alphabet over the served responses (one header set per call):
\*   "none"; Retry-After as delta-seconds / HTTP-date / garbage / negative / sent twice; Content-Type with a charset /
\*   with an unknown charset / in upper case / missing; WWW-Authenticate; Location; a header sent twice (Set-Cookie); an
\*   8 kB header value; a non-ASCII (latin-1) header value
HeaderSets == {"none", "retry_seconds", "retry_date", "retry_garbage", "retry_negative", "retry_twice", "ctype_charset",
               "ctype_unknown_charset", "ctype_upper", "ctype_missing", "www_authenticate", "location", "duplicate",
               "long_value", "latin1"}

\* HOW the document writes the responses down is a rendering dimension the outcome must not depend on (none of the
\* outcome functions below takes it): "inline" = every response object in place; "ref" = every response is a `$ref` to
\* its own `#/components/responses/...` entry; "shared" = all responses with the same body (none / JSON body) are `$ref`s to
\* ONE shared entry, which a second operation of the document references as well (state carried from one response's
\* parse to the next, and from one operation's to the next)
Modes == <<"inline", "ref", "shared">>
\* stratification: every scenario gets a rotation 0..2; rendering of the k-th package generated for it = Modes[(rot+k)%3+1]
Rot(sc) == (SumRank(sc.d) + Rank(sc.first)) % 3

ClassName(s) == CASE s \in 100..199 -> "1xx" [] s \in 200..299 -> "2xx" [] s \in 300..399 -> "3xx"
                  [] s \in 400..499 -> "4xx" [] s \in 500..599 -> "5xx" [] OTHER -> "other"

\* how the DOCUMENT covers a status (OpenAPI precedence: explicit code, then range, then default)
Coverage(d, s) ==
  IF s \in Codes(d) THEN "declared"
  ELSE IF (s \div 100) \in Ranges(d) THEN "range"
  ELSE IF DefaultContent(d) THEN "default_with_content"
  ELSE IF HasDefault(d) THEN "default_no_content"
  ELSE "undeclared"

\* ---------------------------------------------------------------------------------------------
\* outcomes

Names  == {"HTTPError", "ClientError", "ServerError"}
Base   == {"HTTPError"}
Client == {"HTTPError", "ClientError"}
Server == {"HTTPError", "ServerError"}
ByRange(s) == IF Is4xx(s) THEN Client ELSE IF Is5xx(s) THEN Server ELSE Base

Raise(mro, s, r) == [kind |-> "raise", mro |-> mro, status |-> s, hasResponse |-> r, exc |-> ""]
Return           == [kind |-> "return", mro |-> {}, status |-> 0, hasResponse |-> FALSE, exc |-> ""]
\* an exception that is not the package's HTTPError at all (json / cattrs / TypeError / ...)
Broken           == [kind |-> "raise", mro |-> {}, status |-> 0, hasResponse |-> FALSE, exc |-> ""]
Unimportable     == [kind |-> "unimportable", mro |-> {}, status |-> 0, hasResponse |-> FALSE, exc |-> ""]
NoOutcome        == [kind |-> "none", mro |-> {}, status |-> 0, hasResponse |-> FALSE, exc |-> ""]

\* `return structure_from_dict(response.json(), <Model>)`: a value iff the body is a JSON object of the model's shape
Parsed(b) == IF Parses(b) THEN Return ELSE Broken

Project(o) == [kind |-> o.kind, mro |-> o.mro, status |-> o.status, hasResponse |-> o.hasResponse]

Variants == {"as_is", "fixed"}

\* _get_primary_response / ResponseStrategyResolver._get_primary_response, rule by rule (Dispatch.tla has one action
\* per rule): 200, 201, 202, 204, any other 2xx key (document order; the family has at most 200 and 204) ...
SuccessPrimary(d) ==
  LET two == {m \in CodeMembers(d) : Is2xx(m.code)}
      pick(c) == CHOOSE m \in two : m.code = c
  IN  IF 200 \in Codes(d) THEN pick(200)
      ELSE IF 201 \in Codes(d) THEN pick(201)
      ELSE IF 202 \in Codes(d) THEN pick(202)
      ELSE IF 204 \in Codes(d) THEN pick(204)
      ELSE pick(Min({m.code : m \in two}))
\* ... then `default` ...
DefaultPrimary(d) == CHOOSE m \in Defaults(d) : TRUE
\* ... finally "the first listed response if any": an ERROR response becomes the primary response and its body
\* schema the method's return type
Primary(d, first) ==
  IF HasSuccess(d) THEN SuccessPrimary(d)
  ELSE IF HasDefault(d) THEN DefaultPrimary(d)
  ELSE first
\* strategy.return_type != "None"
ReturnsValue(d, first) == Primary(d, first).content

\* since /repo 5b87475 a declared 1xx/3xx key no longer imports a non-existent alias (it raises the base HTTPError, see
\* DeclaredOutcome / ByRange): every package of the family can be imported.  (Before: v = "fixed" \/ every numeric key is
\* 2xx, 4xx or 5xx.)
Importable(v, d) == TRUE

\* the bundled transport honours "raise for status < 200 or >= 300"; a pass-through transport never raises
TransportRaises(t, s) == t = "bundled" /\ ~Is2xx(s)
\* http_transport.py:193-202 (since 84403d5): ClientError for 400..499, ServerError for 500..599, the base HTTPError for
\* every other status outside 200..299 - the same class choice in both variants
TransportExc(v, s)    == Raise(ByRange(s), s, TRUE)

\* the primary response gets the first, value-returning case only when it is a numeric 2xx key
\* (response_handler_generator.py:438-453); a primary picked by the fallback rules is handled like any other response
PrimaryCase(p)       == p.k = "code" /\ Is2xx(p.code)
PrimaryHit(d, f, s)  == PrimaryCase(Primary(d, f)) /\ s = Primary(d, f).code
PrimaryOutcome(p, b) == IF p.content THEN Parsed(b) ELSE Return

DeclaredHit(d, s)     == s \in Codes(d)
MemberOf(d, s)        == CHOOSE m \in CodeMembers(d) : m.code = s
\* `case <code>:` of a non-primary response: a 2xx key returns (None without content), a 4xx/5xx key raises its alias
\* (ClientError / ServerError subclass), a 1xx/3xx key the base HTTPError - whether or not the response declares a body
DeclaredOutcome(v, d, s, b) ==
  IF Is2xx(s) THEN (IF MemberOf(d, s).content THEN Parsed(b) ELSE Return) ELSE Raise(ByRange(s), s, TRUE)

RangeHit(v, d, s)     == v = "fixed" /\ ~DeclaredHit(d, s) /\ (s \div 100) \in Ranges(d)
RangeOutcome(s, b)    == IF Is2xx(s) THEN Parsed(b) ELSE Raise(ByRange(s), s, TRUE)

DefaultOutcome(v, d, f, s, b) ==
  IF v = "as_is"
    THEN IF DefaultContent(d) /\ ReturnsValue(d, f) THEN Parsed(b) ELSE Raise(Base, s, TRUE)
    ELSE IF Is2xx(s) /\ DefaultContent(d) /\ ReturnsValue(d, f) THEN Parsed(b) ELSE Raise(ByRange(s), s, TRUE)

CatchAllOutcome(v, s) == Raise(IF v = "fixed" THEN ByRange(s) ELSE Base, s, TRUE)

MatchOutcome(v, d, f, s, b) ==
  IF PrimaryHit(d, f, s) THEN PrimaryOutcome(Primary(d, f), b)
  ELSE IF DeclaredHit(d, s) THEN DeclaredOutcome(v, d, s, b)
  ELSE IF RangeHit(v, d, s) THEN RangeOutcome(s, b)
  ELSE IF HasDefault(d) THEN DefaultOutcome(v, d, f, s, b)
  ELSE CatchAllOutcome(v, s)

ModelOutcome(v, d, f, t, s, b) ==
  IF ~Importable(v, d) THEN Unimportable
  ELSE IF TransportRaises(t, s) THEN TransportExc(v, s)
  ELSE MatchOutcome(v, d, f, s, b)

\* ---------------------------------------------------------------------------------------------
\* the property (C06) and its judge

IsHTTPError(o)   == "HTTPError" \in o.mro
IsClientError(o) == "ClientError" \in o.mro
IsServerError(o) == "ServerError" \in o.mro

\* the statement, for one finished call whose package could be imported
Holds(s, o) ==
  ~Is2xx(s) =>
     /\ o.kind = "raise"
     /\ IsHTTPError(o)
     /\ o.status = s
     /\ o.hasResponse
     /\ (Is4xx(s) => IsClientError(o))
     /\ (Is5xx(s) => IsServerError(o))

\* exc / body / hdr (the header set of the answer) are part of the locus only where they matter (an exception that is
\* not an HTTPError): "" otherwise
Locus(d, t, s, exc, body, hdr) == [transport |-> t, status_class |-> ClassName(s), coverage |-> Coverage(d, s), exc |-> exc, body |-> body, hdr |-> hdr]
F(c, d, t, s, exc, body, hdr)  == [clause |-> c, locus |-> Locus(d, t, s, exc, body, hdr)]

\* every failing clause of one call; an outcome that is not an HTTPError has no status / response / class to judge
Failures(d, t, s, b, h, o) ==
  IF Is2xx(s) \/ o.kind = "unimportable" THEN {}
  ELSE IF o.kind # "raise" THEN {F("C06.returned", d, t, s, "", "", "")}
  ELSE IF ~IsHTTPError(o) THEN {F("C06.not_http_error", d, t, s, o.exc, b, h)}
  ELSE (IF o.status # s THEN {F("C06.status_attr", d, t, s, "", "", "")} ELSE {})
       \cup (IF ~o.hasResponse THEN {F("C06.response_attr", d, t, s, "", "", "")} ELSE {})
       \cup (IF Is4xx(s) /\ ~IsClientError(o) THEN {F("C06.not_client_error", d, t, s, "", "", "")} ELSE {})
       \cup (IF Is5xx(s) /\ ~IsServerError(o) THEN {F("C06.not_server_error", d, t, s, "", "", "")} ELSE {})
=============================================================================
