---------------------------- MODULE DispatchCore ----------------------------
(***************************************************************************)
(* C06 - constant-level part of the status-dispatch specification.         *)
(*                                                                         *)
(*  * the scenario vocabulary: a DECLARATION is the set of response keys   *)
(*    of one operation; a member is                                        *)
(*       [k : "code" | "default" | "range", code : Nat, content : BOOLEAN] *)
(*    (code = the status for "code", the hundreds digit for "range" - the  *)
(*    OpenAPI keys "4XX" / "5XX" -, 0 for "default"; content = the         *)
(*    response declares a JSON body);                                      *)
(*  * IMPLEMENTATION-SHAPED outcome functions, one per place where the     *)
(*    code decides (variant "as_is"):                                      *)
(*      TransportExc     http_transport.py:189-191 - HttpxTransport raises *)
(*                       the BASE HTTPError(status_code=, message=,        *)
(*                       response=) for status < 200 or >= 300;            *)
(*      DeclaredOutcome  response_handler_generator.py:457-489 - one       *)
(*                       `case <code>:` per numeric key; 2xx returns, every*)
(*                       other code raises the alias class                 *)
(*                       `<Alias>(response=response)`; aliases exist only  *)
(*                       for 4xx (base ClientError) and 5xx (base          *)
(*                       ServerError) (exception_visitor.py:44-57), their  *)
(*                       __init__ passes status_code=response.status_code  *)
(*                       and response=response to HTTPError;               *)
(*      Importable       the endpoints module imports the alias of EVERY   *)
(*                       non-2xx numeric key from <core> (line 488); for a *)
(*                       1xx/3xx key that name does not exist;             *)
(*      RangeHit         "4XX".isdigit() is False: NO case is emitted for a*)
(*                       range key (line 458), the key is silently ignored;*)
(*      DefaultOutcome   lines 494-505 - `case _:` of a declared default:  *)
(*                       when the default response has content AND the     *)
(*                       operation's return type is not None the status is *)
(*                       ignored and the body is parsed and RETURNED with  *)
(*                       the PRIMARY response's type; otherwise the base   *)
(*                       HTTPError(response=, message=, status_code=);     *)
(*      CatchAllOutcome  lines 506-514 - base HTTPError(response=,         *)
(*                       message=, status_code=response.status_code);      *)
(*    and the variant "fixed" (class chosen by status range everywhere,    *)
(*    range keys dispatched, default never returns a non-2xx, 1xx/3xx keys *)
(*    raise the base class) that shows the property is satisfiable;        *)
(*  * `ModelOutcome` - their composition (what Dispatch.tla's machine      *)
(*    reaches, invariant MachineIsModel);                                  *)
(*  * the judge `Failures(decl, transport, status, outcome)`: the set of   *)
(*    failing C06 clauses, each with the locus computed from the event.    *)
(*                                                                         *)
(* An outcome is [kind : "return" | "raise" | "unimportable",              *)
(*                mro  : SUBSET {"HTTPError","ClientError","ServerError"}  *)
(*                       (the package's OWN classes among the exception's  *)
(*                       ancestors),                                       *)
(*                status : Nat (the exception's .status_code, 0 = none),   *)
(*                hasResponse : BOOLEAN (.response is the httpx response), *)
(*                exc : STRING (observed exception type, "" in the model)] *)
(***************************************************************************)
EXTENDS Naturals, Sequences, FiniteSets, FiniteSetsExt

\* ---------------------------------------------------------------------------------------------
\* vocabulary

CodeKey(c, hasContent) == [k |-> "code", code |-> c, content |-> hasContent]
DefaultKey(hasContent) == [k |-> "default", code |-> 0, content |-> hasContent]
RangeKey(digit)        == [k |-> "range", code |-> digit, content |-> FALSE]

\* the family of the design check and of the replay: 200 carries a JSON body, 204 and the error codes do not
Universe == {CodeKey(200, TRUE), CodeKey(204, FALSE), CodeKey(302, FALSE), CodeKey(404, FALSE), CodeKey(418, FALSE),
             CodeKey(500, FALSE), DefaultKey(TRUE), DefaultKey(FALSE), RangeKey(4), RangeKey(5)}

Is2xx(s) == s \in 200..299
Is4xx(s) == s \in 400..499
Is5xx(s) == s \in 500..599

CodeMembers(d) == {m \in d : m.k = "code"}
Codes(d)       == {m.code : m \in CodeMembers(d)}
Defaults(d)    == {m \in d : m.k = "default"}
Ranges(d)      == {m.code : m \in {x \in d : x.k = "range"}}
HasDefault(d)  == Defaults(d) # {}
DefaultContent(d) == \E m \in Defaults(d) : m.content

\* one response per key (a JSON/YAML mapping), at least one response (OpenAPI requires it); a non-2xx numeric
\* response declares no body in this family (so the "first listed response" fallback of the primary-response
\* choice, which is order dependent, cannot matter)
WellFormed(d) ==
  /\ d # {}
  /\ Cardinality(Defaults(d)) <= 1
  /\ \A m, n \in CodeMembers(d) : m.code = n.code => m = n
  /\ \A m \in CodeMembers(d) : m.code \in 100..599 /\ (m.content => Is2xx(m.code))
  /\ \A r \in Ranges(d) : r \in 1..5

DeclSets(members, max) == {d \in UNION {kSubset(n, members) : n \in 1..max} : WellFormed(d)}

ClassName(s) == CASE s \in 100..199 -> "1xx" [] s \in 200..299 -> "2xx" [] s \in 300..399 -> "3xx"
                  [] s \in 400..499 -> "4xx" [] s \in 500..599 -> "5xx" [] OTHER -> "other"

\* how the DOCUMENT covers a status (OpenAPI precedence: explicit code, then range, then default)
Coverage(d, s) ==
  IF s \in Codes(d) THEN "declared"
  ELSE IF (s \div 100) \in Ranges(d) THEN "range"
  ELSE IF DefaultContent(d) THEN "default_with_content"
  ELSE IF HasDefault(d) THEN "default_no_content"
  ELSE "undeclared"

\* ---------------------------------------------------------------------------------------------
\* outcomes

Names  == {"HTTPError", "ClientError", "ServerError"}
Base   == {"HTTPError"}
Client == {"HTTPError", "ClientError"}
Server == {"HTTPError", "ServerError"}
ByRange(s) == IF Is4xx(s) THEN Client ELSE IF Is5xx(s) THEN Server ELSE Base

Raise(mro, s, r) == [kind |-> "raise", mro |-> mro, status |-> s, hasResponse |-> r, exc |-> ""]
Return           == [kind |-> "return", mro |-> {}, status |-> 0, hasResponse |-> FALSE, exc |-> ""]
Unimportable     == [kind |-> "unimportable", mro |-> {}, status |-> 0, hasResponse |-> FALSE, exc |-> ""]
NoOutcome        == [kind |-> "none", mro |-> {}, status |-> 0, hasResponse |-> FALSE, exc |-> ""]

Project(o) == [kind |-> o.kind, mro |-> o.mro, status |-> o.status, hasResponse |-> o.hasResponse]

Variants == {"as_is", "fixed"}

\* _get_primary_response / ResponseStrategyResolver._get_primary_response: 200, 201, 202, 204, any other 2xx
\* key, then default, then the first listed response
Primary(d) ==
  LET two == {m \in CodeMembers(d) : Is2xx(m.code)}
      pick(c) == CHOOSE m \in two : m.code = c
  IN  IF 200 \in Codes(d) THEN pick(200)
      ELSE IF 201 \in Codes(d) THEN pick(201)
      ELSE IF 202 \in Codes(d) THEN pick(202)
      ELSE IF 204 \in Codes(d) THEN pick(204)
      ELSE IF two # {} THEN pick(Min({m.code : m \in two}))
      ELSE IF HasDefault(d) THEN CHOOSE m \in Defaults(d) : TRUE
      ELSE CHOOSE m \in d : TRUE
\* strategy.return_type != "None"
ReturnsValue(d) == Primary(d).content

Importable(v, d) == v = "fixed" \/ \A c \in Codes(d) : Is2xx(c) \/ Is4xx(c) \/ Is5xx(c)

\* the bundled transport honours "raise for status < 200 or >= 300"; a pass-through transport never raises
TransportRaises(t, s) == t = "bundled" /\ ~Is2xx(s)
TransportExc(v, s)    == Raise(IF v = "fixed" THEN ByRange(s) ELSE Base, s, TRUE)

DeclaredHit(d, s)     == s \in Codes(d)
DeclaredOutcome(v, s) == IF Is2xx(s) THEN Return ELSE Raise(ByRange(s), s, TRUE)

RangeHit(v, d, s)     == v = "fixed" /\ ~DeclaredHit(d, s) /\ (s \div 100) \in Ranges(d)
RangeOutcome(s)       == IF Is2xx(s) THEN Return ELSE Raise(ByRange(s), s, TRUE)

DefaultOutcome(v, d, s) ==
  IF v = "as_is"
    THEN IF DefaultContent(d) /\ ReturnsValue(d) THEN Return ELSE Raise(Base, s, TRUE)
    ELSE IF Is2xx(s) /\ DefaultContent(d) /\ ReturnsValue(d) THEN Return ELSE Raise(ByRange(s), s, TRUE)

CatchAllOutcome(v, s) == Raise(IF v = "fixed" THEN ByRange(s) ELSE Base, s, TRUE)

MatchOutcome(v, d, s) ==
  IF DeclaredHit(d, s) THEN DeclaredOutcome(v, s)
  ELSE IF RangeHit(v, d, s) THEN RangeOutcome(s)
  ELSE IF HasDefault(d) THEN DefaultOutcome(v, d, s)
  ELSE CatchAllOutcome(v, s)

ModelOutcome(v, d, t, s) ==
  IF ~Importable(v, d) THEN Unimportable
  ELSE IF TransportRaises(t, s) THEN TransportExc(v, s)
  ELSE MatchOutcome(v, d, s)

\* ---------------------------------------------------------------------------------------------
\* the property (C06) and its judge

IsHTTPError(o)   == "HTTPError" \in o.mro
IsClientError(o) == "ClientError" \in o.mro
IsServerError(o) == "ServerError" \in o.mro

\* the statement, for one finished call whose package could be imported
Holds(s, o) ==
  ~Is2xx(s) =>
     /\ o.kind = "raise"
     /\ IsHTTPError(o)
     /\ o.status = s
     /\ o.hasResponse
     /\ (Is4xx(s) => IsClientError(o))
     /\ (Is5xx(s) => IsServerError(o))

Locus(d, t, s, exc) == [transport |-> t, status_class |-> ClassName(s), coverage |-> Coverage(d, s), exc |-> exc]
F(c, d, t, s, exc)  == [clause |-> c, locus |-> Locus(d, t, s, exc)]

\* every failing clause of one call; an outcome that is not an HTTPError has no status / response / class to judge
Failures(d, t, s, o) ==
  IF Is2xx(s) \/ o.kind = "unimportable" THEN {}
  ELSE IF o.kind # "raise" THEN {F("C06.returned", d, t, s, "")}
  ELSE IF ~IsHTTPError(o) THEN {F("C06.not_http_error", d, t, s, o.exc)}
  ELSE (IF o.status # s THEN {F("C06.status_attr", d, t, s, "")} ELSE {})
       \cup (IF ~o.hasResponse THEN {F("C06.response_attr", d, t, s, "")} ELSE {})
       \cup (IF Is4xx(s) /\ ~IsClientError(o) THEN {F("C06.not_client_error", d, t, s, "")} ELSE {})
       \cup (IF Is5xx(s) /\ ~IsServerError(o) THEN {F("C06.not_server_error", d, t, s, "")} ELSE {})
=============================================================================
