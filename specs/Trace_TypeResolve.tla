-------------------------- MODULE Trace_TypeResolve --------------------------
(***************************************************************************)
(* X04 monitor.  One trace = what the REAL resolver answered for one shape *)
(* at one position (harness/w_typeresolve.py):                             *)
(*   shape, pos, hsig   the shape, where it stands, property names of Self *)
(*   exc, ann, parse, tree   exception type | annotation, parsed by `ast`  *)
(*   env     definitions of the class names, read from the emitted modules *)
(*   bound   [mod, name, status] registered imports, resolved by Python    *)
(*   probe   result of importing <rendered imports + annotation>           *)
(*   again, imps_again, mutated   repeated / interleaved resolutions       *)
(*   ir, req, cur, curstem   the IR node and context given to the resolver *)
(* The verdict names every failing clause; `drift` compares the            *)
(* implementation-shaped resolver of TypeResolve.tla, run on the observed  *)
(* IR node, with the real annotation and the real import registrations.    *)
(***************************************************************************)
EXTENDS TypeResolve, Json, IOUtils, SequencesExt

Traces == ndJsonDeserialize(IOEnv.TRACE_FILE)
VARIABLES tid, done

ImportErrors == {"NameError", "ImportError", "ModuleNotFoundError"}
BoundNames(t) == {t.bound[i].name : i \in {j \in 1..Len(t.bound) : t.bound[j].status = "ok"}}

Total(t) == t.exc = "none" /\ t.ann # "" /\ t.parse = "ok" /\ NoBad(t.tree)
ImportsOK(t) == ImportsClosed(Uses(t.tree, "code"), BoundNames(t), t.selfname) /\ t.probe \notin ImportErrors
EvaluableOK(t) == t.probe = "ok" \/ t.probe \in ImportErrors
StableOK(t) == (\A i \in 1..Len(t.again) : t.again[i] = t.ann) /\ t.imps_again /\ ~t.mutated
SoundOK(t) == Sound(t.shape, t.pos, t.hsig, t.tree, t.env)

Failing(t) ==
  IF ~Total(t) THEN <<"X04.Total">>
  ELSE SelectSeq(<<"X04.NoDoubleOptional", "X04.Imports", "X04.Evaluable", "X04.Stable", "X04.Sound">>,
                 LAMBDA c : CASE c = "X04.NoDoubleOptional" -> ~NoDoubleOptional(t.tree)
                              [] c = "X04.Imports" -> ~ImportsOK(t)
                              [] c = "X04.Evaluable" -> ~EvaluableOK(t)
                              [] c = "X04.Stable" -> ~StableOK(t)
                              [] c = "X04.Sound" -> ~SoundOK(t))

\* what the annotation is at its top: the kind of definition behind a class name, or the head of the expression
RECURSIVE Got(_, _)
Got(tr, env) ==
  CASE tr.k = "or" -> Got(tr.args[1], env)
    [] tr.k = "fwd" -> Got(tr.args[1], env)
    [] tr.k = "sub" -> tr.id
    [] tr.k = "name" -> IF Lookup(env, tr.id) = {} THEN tr.id ELSE env[CHOOSE i \in Lookup(env, tr.id) : TRUE].def
    [] OTHER -> tr.k

Drift(t) ==
  IF t.exc # "none" \/ t.ir = <<>> THEN "none"
  ELSE LET r == AsIs(t.ir[1], t.pos, t.req, [dir |-> t.cur, stem |-> t.curstem]) IN
       IF Render(r.t) # t.ann THEN "ann:" \o Render(r.t)
       ELSE IF r.imps # ToSet(t.imps) THEN "imps"
       ELSE "none"

Verdict(t) ==
  LET tot == Total(t) IN
  [id |-> t.id, failing |-> Failing(t),
   why |-> IF tot THEN SoundWhy(t.shape, t.pos, t.hsig, t.tree, t.env) ELSE "n/a",
   unbound |-> IF tot THEN SetToSeq(Unbound(Uses(t.tree, "code"), BoundNames(t), t.selfname)) ELSE <<>>,
   got |-> IF tot THEN Got(t.tree, t.env) ELSE "n/a",
   tight |-> IF tot THEN Tight(t.shape, t.hsig, t.tree, t.env) ELSE TRUE,
   drift |-> Drift(t)]

Init == tid \in 1..Len(Traces) /\ done = FALSE
Judge == /\ ~done /\ done' = TRUE /\ UNCHANGED tid
         /\ PrintT("VERDICT " \o ToJson(Verdict(Traces[tid])))
Spec == Init /\ [][Judge]_<<tid, done>>
=============================================================================
