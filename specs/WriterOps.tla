----------------------------- MODULE WriterOps -----------------------------
(***************************************************************************)
(* X02: what a sequence of calls on the code-writing layer DENOTES.        *)
(* Subject: src/pyopenapi_gen/core/writers/line_writer.py (LineWriter) and *)
(* code_writer.py (CodeWriter).  Pure operators only; Writer.tla turns them *)
(* into a state machine, Trace_Writer.tla judges what the real objects did.*)
(*                                                                         *)
(* Texts are TLA+ strings over a symbolic alphabet; the harness binds      *)
(*   "|" = "\n"   "^" = "\t"   "~" = U+2028 (a str.splitlines() boundary   *)
(*   that is NOT a line boundary for Python's tokenizer)   " " = space.    *)
(*                                                                         *)
(* A writer is  S = [level, lines, jn, mw]:                                *)
(*   level  indentation level (units of four spaces)                       *)
(*   lines  completed lines followed by the current (partial) line         *)
(*   jn     nothing was appended since the last newline ("just newlined")  *)
(*   mw     wrapping width in force                                        *)
(* The meaning given to each method is what its docstring promises:        *)
(*  - a line started by append/write_line carries 4*level spaces, level    *)
(*    taken when the line is STARTED;                                      *)
(*  - an EMPTY line is empty (write_block: "Each non-empty line is prefixed *)
(*    with the current indentation.  Preserves empty lines.");             *)
(*  - write_block splits at Python line boundaries only and is the same as *)
(*    writing the lines one by one;                                        *)
(*  - dedent never goes below zero; completed lines are never touched;     *)
(*  - wrapping keeps every non-blank character in order, keeps lines       *)
(*    within the width, aligns continuation lines at the column where the  *)
(*    text started; the layout is the greedy one (long words are broken,   *)
(*    tests/core/writers/test_line_writer.py::test_wrap_very_long_word).   *)
(***************************************************************************)
EXTENDS Integers, Sequences, FiniteSets, TLC, SequencesExt

\* ------------------------------------------------------------------ strings
Sub(s, a, b) == IF a > b \/ a > Len(s) THEN "" ELSE SubSeq(s, a, b)      \* TLC: SubSeq on a string wants a non-empty range
Ch(s, i) == SubSeq(s, i, i)
RECURSIVE Spaces(_)
Spaces(n) == IF n <= 0 THEN "" ELSE " " \o Spaces(n - 1)
WS == {" ", "^", "|"}

RECURSIVE FilterStr(_, _, _)
FilterStr(s, drop, i) == IF i > Len(s) THEN "" ELSE (IF Ch(s, i) \in drop THEN "" ELSE Ch(s, i)) \o FilterStr(s, drop, i + 1)
NS(s) == FilterStr(s, WS, 1)                      \* the non-blank characters of s, in order
HasAny(s, cs) == \E i \in 1..Len(s) : Ch(s, i) \in cs

RECURSIVE LeadFrom(_, _)
LeadFrom(s, i) == IF i <= Len(s) /\ Ch(s, i) = " " THEN 1 + LeadFrom(s, i + 1) ELSE 0
Lead(s) == LeadFrom(s, 1)
LStrip(s) == Sub(s, Lead(s) + 1, Len(s))
AllSpaces(s) == Lead(s) = Len(s)
StartsWith(s, p) == Len(s) >= Len(p) /\ Sub(s, 1, Len(p)) = p
PadTo(s, n) == s \o Spaces(n - Len(s))

RECURSIVE SplitFrom(_, _, _, _)
SplitFrom(s, sep, i, cur) ==
  IF i > Len(s) THEN <<cur>>
  ELSE IF Ch(s, i) = sep THEN <<cur>> \o SplitFrom(s, sep, i + 1, "")
  ELSE SplitFrom(s, sep, i + 1, cur \o Ch(s, i))
Split(s, sep) == SplitFrom(s, sep, 1, "")
\* physical lines of a block of Python text: boundaries are newlines only; a final newline ends the last line
PyLines(b) == LET p == Split(b, "|") IN IF p[Len(p)] = "" THEN SubSeq(p, 1, Len(p) - 1) ELSE p

RECURSIVE JoinFrom(_, _, _)
JoinFrom(q, sep, i) == IF i = Len(q) THEN q[i] ELSE q[i] \o sep \o JoinFrom(q, sep, i + 1)
Join(q, sep) == IF Len(q) = 0 THEN "" ELSE JoinFrom(q, sep, 1)
Cat(q) == Join(q, "")
RECURSIVE RStripNl(_)
RStripNl(s) == IF Len(s) > 0 /\ Ch(s, Len(s)) = "|" THEN RStripNl(Sub(s, 1, Len(s) - 1)) ELSE s

\* ------------------------------------------------------------------ the writer
Cur(S) == S.lines[Len(S.lines)]
Done(S) == SubSeq(S.lines, 1, Len(S.lines) - 1)
SetCur(S, s) == [S EXCEPT !.lines = Done(S) \o <<s>>]
Unstarted(S) == S.jn /\ Cur(S) = ""
New(mw) == [level |-> 0, lines |-> <<"">>, jn |-> TRUE, mw |-> mw]

Indent(S) == [S EXCEPT !.level = @ + 1]
Dedent(S) == [S EXCEPT !.level = IF @ = 0 THEN 0 ELSE @ - 1]
AppendT(S, t) == [SetCur(S, IF Unstarted(S) THEN Spaces(4 * S.level) \o t ELSE Cur(S) \o t) EXCEPT !.jn = FALSE]
Newline(S) == [S EXCEPT !.lines = Append(@, ""), !.jn = TRUE]
MoveTo(S, k) == IF Len(Cur(S)) < k THEN SetCur(S, Cur(S) \o Spaces(k - Len(Cur(S)) - 1)) ELSE S
ReplaceCur(S, s) == SetCur(S, s)

\* CodeWriter.write_line: one line; an empty line is empty
WriteLine(S, t) == IF t = "" /\ Unstarted(S) THEN Newline(S) ELSE Newline(AppendT(S, t))
RECURSIVE WriteLines(_, _, _)
WriteLines(S, q, i) == IF i > Len(q) THEN S ELSE WriteLines(WriteLine(S, q[i]), q, i + 1)
WriteBlock(S, b) == WriteLines(S, PyLines(b), 1)

\* ------------------------------------------------------------------ wrapping (greedy, over chunks)
\* a paragraph is cut into maximal runs of blanks / non-blanks; every blank character counts as one space
RECURSIVE ChunksFrom(_, _, _, _)
ChunksFrom(s, i, cur, curws) ==
  IF i > Len(s) THEN (IF cur = "" THEN <<>> ELSE <<[ws |-> curws, s |-> cur]>>)
  ELSE LET c == Ch(s, i)  isws == c \in WS  cc == IF isws THEN " " ELSE c IN
       IF cur = "" THEN ChunksFrom(s, i + 1, cc, isws)
       ELSE IF isws = curws THEN ChunksFrom(s, i + 1, cur \o cc, curws)
       ELSE <<[ws |-> curws, s |-> cur]>> \o ChunksFrom(s, i + 1, cc, isws)
Chunks(s) == ChunksFrom(s, 1, "", FALSE)
CatChunks(q) == Cat([i \in 1..Len(q) |-> q[i].s])

Blank(c) == c.ws \/ c.s = ""     \* an exhausted piece of a broken word counts as blank
RECURSIVE Take(_, _, _, _)     \* greedy: as many chunks as fit into width
Take(ch, width, len, line) ==
  IF ch # <<>> /\ len + Len(ch[1].s) <= width THEN Take(Tail(ch), width, len + Len(ch[1].s), Append(line, ch[1]))
  ELSE [line |-> line, len |-> len, rest |-> ch]

\* lines of the paragraph given as chunks; the first line starts with ind0 (a string), later ones with col spaces
RECURSIVE WrapLoop(_, _, _, _, _)
WrapLoop(ch, W, ind0, col, out) ==
  IF ch = <<>> THEN out ELSE
  LET first == out = <<>>
      ind == IF first THEN ind0 ELSE Spaces(col)
      width == W - Len(ind)
      ch1 == IF ~first /\ Blank(ch[1]) THEN Tail(ch) ELSE ch
      tk == Take(ch1, width, 0, <<>>)
      long == tk.rest # <<>> /\ Len(tk.rest[1].s) > width
      sl == IF width < 1 THEN 1 ELSE width - tk.len
      c == tk.rest[1]
      line1 == IF long THEN Append(tk.line, [ws |-> c.ws, s |-> Sub(c.s, 1, sl)]) ELSE tk.line
      rest1 == IF long THEN <<[ws |-> c.ws, s |-> Sub(c.s, sl + 1, Len(c.s))]>> \o Tail(tk.rest) ELSE tk.rest
      line2 == IF line1 # <<>> /\ Blank(line1[Len(line1)]) THEN SubSeq(line1, 1, Len(line1) - 1) ELSE line1
  IN WrapLoop(rest1, W, ind0, col, IF line2 = <<>> THEN out ELSE Append(out, ind \o CatChunks(line2)))
WrapPara(P, W, ind0, col) == WrapLoop(Chunks(P), W, ind0, col, <<>>)

ColOf(S) == IF Cur(S) = "" THEN 4 * S.level ELSE Len(Cur(S))

\* LineWriter.append_wrapped: continue the current line with `t`, continuation lines aligned at the current column
Wrap(S, t) ==
  IF t = "" THEN S ELSE
  LET S1 == IF S.mw - ColOf(S) <= 0 THEN Newline(S) ELSE S
      col == ColOf(S1)
      out == WrapPara(PadTo(Cur(S1), col) \o t, S1.mw, "", col)
  IN IF out = <<>> THEN S1
     ELSE [S1 EXCEPT !.lines = Done(S1) \o out, !.jn = IF Len(out) > 1 THEN TRUE ELSE S1.jn]

\* LineWriter.wrap_and_append: wrap `t` on its own (prefix on the first line), every piece appended as a line
RECURSIVE AppendLines(_, _, _)
AppendLines(S, q, i) == IF i > Len(q) THEN S ELSE AppendLines(AppendT(IF i > 1 THEN Newline(S) ELSE S, q[i]), q, i + 1)
WrapAndAppend(S, t, w, p) == AppendLines(S, WrapPara(t, w, p, Len(p)), 1)

\* LineWriter.append_wrapped_at_column(text, width, col): words of the text; continuation lines start at column k
RECURSIVE WordsOf(_)
WordsOf(ch) == IF ch = <<>> THEN <<>> ELSE (IF ch[1].ws THEN <<>> ELSE <<ch[1].s>>) \o WordsOf(Tail(ch))
RECURSIVE FirstFill(_, _, _)
FirstFill(words, avail, acc) ==
  IF words # <<>> /\ Len(acc) + Len(words[1]) + (IF acc = "" THEN 0 ELSE 1) <= avail
  THEN FirstFill(Tail(words), avail, (IF acc = "" THEN "" ELSE acc \o " ") \o words[1])
  ELSE [acc |-> acc, rest |-> words]
RECURSIVE ColLines(_, _, _, _)
ColLines(S, q, k, i) == IF i > Len(q) THEN S ELSE ColLines(AppendT(MoveTo(Newline(S), k), q[i]), q, k, i + 1)
WrapAtCol(S, t, w, kk) ==
  IF t = "" THEN S ELSE
  LET k == IF kk < 0 THEN Len(Cur(S)) ELSE kk
      S1 == IF w - Len(Cur(S)) <= 0 THEN MoveTo(Newline(S), k) ELSE S
      avail == IF w - Len(Cur(S1)) < 0 THEN 0 ELSE w - Len(Cur(S1))
      ff == FirstFill(WordsOf(Chunks(t)), avail, "")
      S2 == IF ff.acc = "" THEN S1 ELSE AppendT(S1, ff.acc)
  IN IF ff.rest = <<>> THEN S2 ELSE ColLines(S2, WrapPara(Join(ff.rest, " "), w - k, "", 0), k, 1)

\* CodeWriter.write_wrapped_line / write_wrapped_docstring_line / write_function_signature
WithWidth(S, w, S2) == [S2 EXCEPT !.mw = S.mw]
WriteWrapped(S, t, w) == WithWidth(S, w, Newline(Wrap([S EXCEPT !.mw = w], t)))
WriteWrappedDoc(S, p, t, w) == WithWidth(S, w, Newline(Wrap(AppendT([S EXCEPT !.mw = w], p), t)))
DefKw(async) == IF async = 1 THEN "async def" ELSE "def"
WriteSig(S, name, args, rt, async) ==
  IF args # <<>> THEN
    LET S1 == Indent(WriteLine(S, DefKw(async) \o " " \o name \o "("))
        S2 == WriteLines(S1, [i \in 1..Len(args) |-> args[i] \o ","], 1)
    IN WriteLine(Dedent(S2), IF rt = "" THEN "):" ELSE ") -> " \o rt \o ":")
  ELSE WriteLine(S, DefKw(async) \o " " \o name \o "(self)" \o (IF rt = "" THEN ":" ELSE " -> " \o rt \o ":"))
\* the signature written on ONE line, blanks removed: the oracle for what the multi-line form must spell
SigFlat(name, args, rt, async) ==
  NS(DefKw(async) \o name \o "(" \o (IF args = <<>> THEN "self" ELSE Cat([i \in 1..Len(args) |-> args[i] \o ","])) \o ")"
     \o (IF rt = "" THEN "" ELSE "->" \o rt) \o ":")

GetValue(S) == Join(S.lines, "|")
GetCode(S) == RStripNl(GetValue(S))

\* ------------------------------------------------------------------ calls
\* a call is [op, t, p, w, k, a]: text, second text (prefix / return type), width, integer, argument list
Call(op, t, p, w, k, a) == [op |-> op, t |-> t, p |-> p, w |-> w, k |-> k, a |-> a]
Queries == {"get_code", "getvalue", "current_width", "current_line"}
LineWriting == {"write_line", "write_block", "write_function_signature"}
Wrapping == {"append_wrapped", "write_wrapped_line", "write_wrapped_docstring_line"}

Apply(c, S) ==
  CASE c.op = "indent"  -> [st |-> Indent(S), ret |-> ""]
    [] c.op = "dedent"  -> [st |-> Dedent(S), ret |-> ""]
    [] c.op = "append"  -> [st |-> AppendT(S, c.t), ret |-> ""]
    [] c.op = "newline" -> [st |-> Newline(S), ret |-> ""]
    [] c.op = "move_to_column" -> [st |-> MoveTo(S, c.k), ret |-> ""]
    [] c.op = "replace_current_line" -> [st |-> ReplaceCur(S, c.t), ret |-> ""]
    [] c.op = "append_wrapped" -> [st |-> Wrap(S, c.t), ret |-> ""]
    [] c.op = "wrap_and_append" -> [st |-> WrapAndAppend(S, c.t, c.w, c.p), ret |-> ""]
    [] c.op = "append_wrapped_at_column" -> [st |-> WrapAtCol(S, c.t, c.w, c.k), ret |-> ""]
    [] c.op = "write_line" -> [st |-> WriteLine(S, c.t), ret |-> ""]
    [] c.op = "write_block" -> [st |-> WriteBlock(S, c.t), ret |-> ""]
    [] c.op = "write_wrapped_line" -> [st |-> WriteWrapped(S, c.t, c.w), ret |-> ""]
    [] c.op = "write_wrapped_docstring_line" -> [st |-> WriteWrappedDoc(S, c.p, c.t, c.w), ret |-> ""]
    [] c.op = "write_function_signature" -> [st |-> WriteSig(S, c.t, c.a, c.p, c.k), ret |-> ""]
    [] c.op = "get_code" -> [st |-> S, ret |-> GetCode(S)]
    [] c.op = "getvalue" -> [st |-> S, ret |-> GetValue(S)]
    [] c.op = "current_line" -> [st |-> S, ret |-> Cur(S)]
    [] c.op = "current_width" -> [st |-> S, ret |-> ToString(Len(Cur(S)))]

\* ------------------------------------------------------------------ what is promised for which call
\* the text the call feeds (its blanks do not matter for the preservation statement)
Fed(c) ==
  CASE c.op \in {"append", "write_line", "write_block", "append_wrapped", "write_wrapped_line", "wrap_and_append",
                 "append_wrapped_at_column", "replace_current_line"} -> NS(c.t)
    [] c.op = "write_wrapped_docstring_line" -> NS(c.p \o c.t)
    [] c.op = "write_function_signature" -> SigFlat(c.t, c.a, c.p, c.k)
    [] OTHER -> ""

\* column at which a wrapping call starts and the width it must respect
WrapStart(c, S) == IF c.op = "write_wrapped_docstring_line" THEN Len(Cur(AppendT(S, c.p))) ELSE ColOf(S)
WrapWidth(c, S) == IF c.op = "append_wrapped" THEN S.mw ELSE c.w
\* a wrapping call is within the contract when there is room on the line (otherwise: as-is behaviour, DRIFT only)
RoomToWrap(c, S) == WrapWidth(c, S) > WrapStart(c, S)
\* multi-line arguments to single-line methods are the caller's error: as-is behaviour
InContract(c, S) ==
  CASE c.op \in {"append", "write_line", "replace_current_line"} -> ~HasAny(c.t, {"|"})
    [] c.op \in Wrapping -> RoomToWrap(c, S) /\ ~HasAny(c.p, {"|"})
    [] c.op \in {"wrap_and_append", "append_wrapped_at_column"} -> FALSE
    [] OTHER -> TRUE
\* the greedy layout is claimed exactly when no tab stop / hyphenation rule is involved
ExactLayout(c, S) == ~HasAny(Cur(S) \o c.p \o c.t, {"^", "-"})

\* the part of the writer a call may write: everything after the lines completed before the call
Region(S, R) == SubSeq(R.lines, Len(S.lines), Len(R.lines))

\* ---- the wrapping statements, as predicates over (pre-state, call, post-state)
WrapWidthOk(c, S, R) == \A i \in 1..Len(Region(S, R)) : Len(Region(S, R)[i]) <= WrapWidth(c, S)
WrapTextOk(c, S, R) ==
  LET reg == Region(S, R)  body == IF c.op = "append_wrapped" THEN reg ELSE SubSeq(reg, 1, Len(reg) - 1)
  IN NS(Cat(body)) = NS(Cur(S)) \o Fed(c)
WrapAlignOk(c, S, R) ==
  LET reg == Region(S, R)  n == IF c.op = "append_wrapped" THEN Len(reg) ELSE Len(reg) - 1
  IN \A i \in 2..n : StartsWith(reg[i], Spaces(WrapStart(c, S))) /\ ~AllSpaces(reg[i])
\* every blank-separated token of the text arrives unbroken when it fits the room there is
RECURSIVE Tokens(_)
Tokens(ch) == IF ch = <<>> THEN <<>> ELSE (IF ch[1].ws THEN <<>> ELSE <<ch[1].s>>) \o Tokens(Tail(ch))
WrapRejoinOk(c, S, R) ==
  LET reg == Region(S, R)  body == IF c.op = "append_wrapped" THEN reg ELSE SubSeq(reg, 1, Len(reg) - 1)
      src == Cur(S) \o (IF c.op = "write_wrapped_docstring_line" THEN (IF Unstarted(S) THEN Spaces(4 * S.level) ELSE "") \o c.p ELSE "") \o c.t
      room == WrapWidth(c, S) - WrapStart(c, S)
      fits == \A i \in 1..Len(Tokens(Chunks(src))) : Len(Tokens(Chunks(src))[i]) <= room
  IN (fits /\ ~HasAny(src, {"-"})) => Tokens(Chunks(Join(body, " "))) = Tokens(Chunks(src))
=============================================================================
