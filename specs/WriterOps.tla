----------------------------- MODULE WriterOps -----------------------------
(***************************************************************************)
(* X02: what a sequence of calls on the code-writing layer DENOTES.        *)
(* Subject: src/pyopenapi_gen/core/writers/line_writer.py (LineWriter) and *)
(* code_writer.py (CodeWriter).  Pure operators only; Writer.tla turns them *)
(* into a state machine, Trace_Writer.tla judges what the real objects did.*)
(*                                                                         *)
(* A text is a sequence of characters (one-character strings) over a       *)
(* symbolic alphabet; the harness binds                                    *)
(*   "|" = "\n"   "^" = "\t"   "~" = U+2028 (a str.splitlines() boundary   *)
(*   that is NOT a line boundary for Python's tokenizer)   " " = space.    *)
(* (TLC interns every string it builds under one lock, so texts are tuples;*)
(* T("abc") / Str(<<"a","b","c">>) convert at the boundary.)               *)
(*                                                                         *)
(* A writer is  S = [level, lines, jn, mw]:                                *)
(*   level  indentation level (units of four spaces)                       *)
(*   lines  completed lines followed by the current (partial) line         *)
(*   jn     nothing was appended since the last newline ("just newlined")  *)
(*   mw     wrapping width in force                                        *)
(* The meaning given to each method is what its docstring promises:        *)
(*  - a line started by append/write_line carries 4*level spaces, level    *)
(*    taken when the line is STARTED;                                      *)
(*  - an EMPTY line is empty (write_block: "Each non-empty line is prefixed *)
(*    with the current indentation.  Preserves empty lines.");             *)
(*  - write_block splits at Python line boundaries only and is the same as *)
(*    writing the lines one by one;                                        *)
(*  - dedent never goes below zero; completed lines are never touched;     *)
(*  - wrapping keeps every non-blank character in order, keeps lines       *)
(*    within the width, aligns continuation lines at the column where the  *)
(*    text started; the layout is the greedy one (long words are broken,   *)
(*    tests/core/writers/test_line_writer.py::test_wrap_very_long_word).   *)
(***************************************************************************)
EXTENDS Integers, Sequences, FiniteSets, TLC, SequencesExt

\* "evaluate e, then F of its value".  TLC passes operator arguments unevaluated and re-evaluates them at every
\* use (so does LET): a variable bound over a singleton set is evaluated once.
Then(e, F(_)) == CHOOSE r \in {F(v) : v \in {e}} : TRUE

\* ------------------------------------------------------------------ texts
T(s) == [i \in 1..Len(s) |-> SubSeq(s, i, i)]                       \* string -> text
RECURSIVE StrFrom(_, _)
StrFrom(t, i) == IF i > Len(t) THEN "" ELSE t[i] \o StrFrom(t, i + 1)
Str(t) == StrFrom(t, 1)                                              \* text -> string
Strs(q) == [i \in 1..Len(q) |-> Str(q[i])]
Ts(q) == [i \in 1..Len(q) |-> T(q[i])]

Spaces(n) == [i \in 1..n |-> " "]
Sub(s, a, b) == SubSeq(s, a, IF b > Len(s) THEN Len(s) ELSE b)          \* s[a..b] clipped to s
WS == {" ", "^", "|"}
NS(s) == SelectSeq(s, LAMBDA c : c \notin WS)                        \* the non-blank characters of s, in order
HasAny(s, cs) == \E i \in 1..Len(s) : s[i] \in cs

RECURSIVE LeadFrom(_, _)
LeadFrom(s, i) == IF i <= Len(s) /\ s[i] = " " THEN 1 + LeadFrom(s, i + 1) ELSE 0
Lead(s) == LeadFrom(s, 1)
LStrip(s) == SubSeq(s, Lead(s) + 1, Len(s))
AllSpaces(s) == \A i \in 1..Len(s) : s[i] = " "
StartsWith(s, p) == Len(s) >= Len(p) /\ SubSeq(s, 1, Len(p)) = p
PadTo(s, n) == s \o Spaces(n - Len(s))

RECURSIVE SplitFrom(_, _, _, _)
SplitFrom(s, sep, i, cur) ==
  IF i > Len(s) THEN <<cur>>
  ELSE IF s[i] = sep THEN <<cur>> \o SplitFrom(s, sep, i + 1, <<>>)
  ELSE SplitFrom(s, sep, i + 1, Append(cur, s[i]))
Split(s, sep) == SplitFrom(s, sep, 1, <<>>)
\* physical lines of a block of Python text: boundaries are newlines only; a final newline ends the last line
PyLines(b) == Then(Split(b, "|"), LAMBDA p : IF p[Len(p)] = <<>> THEN SubSeq(p, 1, Len(p) - 1) ELSE p)

RECURSIVE JoinFrom(_, _, _)
JoinFrom(q, sep, i) == IF i = Len(q) THEN q[i] ELSE q[i] \o sep \o JoinFrom(q, sep, i + 1)
Join(q, sep) == IF Len(q) = 0 THEN <<>> ELSE JoinFrom(q, sep, 1)
Cat(q) == Join(q, <<>>)
RECURSIVE RStripNl(_)
RStripNl(s) == IF Len(s) > 0 /\ s[Len(s)] = "|" THEN RStripNl(SubSeq(s, 1, Len(s) - 1)) ELSE s

\* ------------------------------------------------------------------ the writer
Cur(S) == S.lines[Len(S.lines)]
Done(S) == SubSeq(S.lines, 1, Len(S.lines) - 1)
SetCur(S, s) == [S EXCEPT !.lines[Len(S.lines)] = s]
Unstarted(S) == S.jn /\ Cur(S) = <<>>
New(mw) == [level |-> 0, lines |-> <<<<>>>>, jn |-> TRUE, mw |-> mw]

Indent(S) == [S EXCEPT !.level = @ + 1]
Dedent(S) == [S EXCEPT !.level = IF @ = 0 THEN 0 ELSE @ - 1]
AppendT(S, t) == [S EXCEPT !.lines[Len(S.lines)] = IF Unstarted(S) THEN Spaces(4 * S.level) \o t ELSE @ \o t, !.jn = FALSE]
Newline(S) == [S EXCEPT !.lines = Append(@, <<>>), !.jn = TRUE]
MoveTo(S, k) == IF Len(Cur(S)) < k THEN SetCur(S, Cur(S) \o Spaces(k - Len(Cur(S)) - 1)) ELSE S
ReplaceCur(S, s) == SetCur(S, s)

\* CodeWriter.write_line: one line; an empty line is empty
WriteLine(S, t) == IF t = <<>> /\ Unstarted(S) THEN Newline(S) ELSE Then(AppendT(S, t), Newline)
RECURSIVE WriteLines(_, _, _)
WriteLines(S, q, i) == IF i > Len(q) THEN S ELSE Then(WriteLine(S, q[i]), LAMBDA a : WriteLines(a, q, i + 1))
WriteBlock(S, b) == Then(PyLines(b), LAMBDA q : WriteLines(S, q, 1))

\* ------------------------------------------------------------------ wrapping (greedy, over chunks)
\* a paragraph is cut into maximal runs of blanks / non-blanks; every blank character counts as one space
RECURSIVE ChunksFrom(_, _, _, _)
ChunksFrom(s, i, cur, curws) ==
  IF i > Len(s) THEN (IF cur = <<>> THEN <<>> ELSE <<[ws |-> curws, s |-> cur]>>)
  ELSE IF cur = <<>> THEN ChunksFrom(s, i + 1, <<IF s[i] \in WS THEN " " ELSE s[i]>>, s[i] \in WS)
  ELSE IF (s[i] \in WS) = curws THEN ChunksFrom(s, i + 1, Append(cur, IF curws THEN " " ELSE s[i]), curws)
  ELSE <<[ws |-> curws, s |-> cur]>> \o ChunksFrom(s, i + 1, <<IF s[i] \in WS THEN " " ELSE s[i]>>, s[i] \in WS)
Chunks(s) == ChunksFrom(s, 1, <<>>, FALSE)
CatChunks(q) == Cat([i \in 1..Len(q) |-> q[i].s])

Blank(c) == c.ws \/ c.s = <<>>     \* an exhausted piece of a broken word counts as blank
RECURSIVE Take(_, _, _, _)     \* greedy: as many chunks as fit into width
Take(ch, width, len, line) ==
  IF ch # <<>> /\ len + Len(ch[1].s) <= width THEN Take(Tail(ch), width, len + Len(ch[1].s), Append(line, ch[1]))
  ELSE [line |-> line, len |-> len, rest |-> ch]
\* a chunk too long for any line is broken: as much of it as fits goes onto this line
BreakLong(tk, width) ==
  IF tk.rest # <<>> /\ Len(tk.rest[1].s) > width
  THEN LET sl == IF width < 1 THEN 1 ELSE width - tk.len
           c == tk.rest[1]
       IN [line |-> Append(tk.line, [ws |-> c.ws, s |-> Sub(c.s, 1, sl)]),
           rest |-> <<[ws |-> c.ws, s |-> Sub(c.s, sl + 1, Len(c.s))]>> \o Tail(tk.rest)]
  ELSE [line |-> tk.line, rest |-> tk.rest]
DropTrailingBlank(line) == IF line # <<>> /\ Blank(line[Len(line)]) THEN SubSeq(line, 1, Len(line) - 1) ELSE line

\* lines of the paragraph given as chunks; the first line starts with ind0 (a text), later ones with col spaces;
\* blanks at the start of a continuation line and at the end of any line are dropped
RECURSIVE WrapLoop(_, _, _, _, _)
WrapLoop(ch, W, ind0, col, out) ==
  IF ch = <<>> THEN out ELSE
  Then(IF out = <<>> THEN ind0 ELSE Spaces(col), LAMBDA ind :
  Then(Take(IF out # <<>> /\ Blank(ch[1]) THEN Tail(ch) ELSE ch, W - Len(ind), 0, <<>>), LAMBDA tk :
  Then(BreakLong(tk, W - Len(ind)), LAMBDA lw :
  Then(DropTrailingBlank(lw.line), LAMBDA line :
  Then(IF line = <<>> THEN out ELSE Append(out, ind \o CatChunks(line)), LAMBDA o :
    WrapLoop(lw.rest, W, ind0, col, o))))))
WrapPara(P, W, ind0, col) == Then(Chunks(P), LAMBDA ch : WrapLoop(ch, W, ind0, col, <<>>))

ColOf(S) == IF Cur(S) = <<>> THEN 4 * S.level ELSE Len(Cur(S))

\* LineWriter.append_wrapped: continue the current line with `t`, continuation lines aligned at the current column
Wrap(S, t) ==
  IF t = <<>> THEN S ELSE
  Then(IF S.mw - ColOf(S) <= 0 THEN Newline(S) ELSE S, LAMBDA S1 :
  Then(WrapPara(PadTo(Cur(S1), ColOf(S1)) \o t, S1.mw, <<>>, ColOf(S1)), LAMBDA out :
    IF out = <<>> THEN S1
    ELSE [S1 EXCEPT !.lines = Done(S1) \o out, !.jn = IF Len(out) > 1 THEN TRUE ELSE S1.jn]))

\* LineWriter.wrap_and_append: wrap `t` on its own (prefix on the first line), every piece appended as a line
RECURSIVE AppendLines(_, _, _)
AppendLines(S, q, i) ==
  IF i > Len(q) THEN S
  ELSE Then(IF i > 1 THEN Newline(S) ELSE S, LAMBDA a : Then(AppendT(a, q[i]), LAMBDA b : AppendLines(b, q, i + 1)))
WrapAndAppend(S, t, w, p) == Then(WrapPara(t, w, p, Len(p)), LAMBDA q : AppendLines(S, q, 1))

\* LineWriter.append_wrapped_at_column(text, width, col): words of the text; continuation lines start at column k
RECURSIVE WordsOf(_)
WordsOf(ch) == IF ch = <<>> THEN <<>> ELSE (IF ch[1].ws THEN <<>> ELSE <<ch[1].s>>) \o WordsOf(Tail(ch))
RECURSIVE FirstFill(_, _, _)
FirstFill(words, avail, acc) ==
  IF words # <<>> /\ Len(acc) + Len(words[1]) + (IF acc = <<>> THEN 0 ELSE 1) <= avail
  THEN FirstFill(Tail(words), avail, (IF acc = <<>> THEN <<>> ELSE Append(acc, " ")) \o words[1])
  ELSE [acc |-> acc, rest |-> words]
RECURSIVE ColLines(_, _, _, _)
ColLines(S, q, k, i) ==
  IF i > Len(q) THEN S
  ELSE Then(Newline(S), LAMBDA a : Then(MoveTo(a, k), LAMBDA b : Then(AppendT(b, q[i]), LAMBDA c : ColLines(c, q, k, i + 1))))
WrapAtCol(S, t, w, kk) ==
  IF t = <<>> THEN S ELSE
  Then(IF kk < 0 THEN Len(Cur(S)) ELSE kk, LAMBDA k :
  Then(IF w - Len(Cur(S)) <= 0 THEN Then(Newline(S), LAMBDA a : MoveTo(a, k)) ELSE S, LAMBDA S1 :
  Then(FirstFill(WordsOf(Chunks(t)), IF w - Len(Cur(S1)) < 0 THEN 0 ELSE w - Len(Cur(S1)), <<>>), LAMBDA ff :
  Then(IF ff.acc = <<>> THEN S1 ELSE AppendT(S1, ff.acc), LAMBDA S2 :
    IF ff.rest = <<>> THEN S2
    ELSE Then(WrapPara(Join(ff.rest, <<" ">>), w - k, <<>>, 0), LAMBDA q : ColLines(S2, q, k, 1))))))

\* CodeWriter.write_wrapped_line / write_wrapped_docstring_line / write_function_signature:
\* the width is in force for this call only
WriteWrapped(S, t, w) ==
  Then(Wrap([S EXCEPT !.mw = w], t), LAMBDA a : Then(Newline(a), LAMBDA b : [b EXCEPT !.mw = S.mw]))
WriteWrappedDoc(S, p, t, w) ==
  Then(AppendT([S EXCEPT !.mw = w], p), LAMBDA a : Then(Wrap(a, t), LAMBDA b : Then(Newline(b), LAMBDA c : [c EXCEPT !.mw = S.mw])))
DefKw(async) == IF async = 1 THEN T("async def") ELSE T("def")
WriteSig(S, name, args, rt, async) ==
  IF args # <<>> THEN
    Then(WriteLine(S, DefKw(async) \o T(" ") \o name \o T("(")), LAMBDA S0 :
    Then(Indent(S0), LAMBDA S1 :
    Then(WriteLines(S1, [i \in 1..Len(args) |-> Append(args[i], ",")], 1), LAMBDA S2 :
    Then(Dedent(S2), LAMBDA S3 :
      WriteLine(S3, IF rt = <<>> THEN T("):") ELSE T(") -> ") \o rt \o T(":"))))))
  ELSE WriteLine(S, DefKw(async) \o T(" ") \o name \o T("(self)") \o (IF rt = <<>> THEN T(":") ELSE T(" -> ") \o rt \o T(":")))
\* the signature written on ONE line, blanks removed: the oracle for what the multi-line form must spell
SigFlat(name, args, rt, async) ==
  NS(DefKw(async) \o name \o T("(") \o (IF args = <<>> THEN T("self") ELSE Cat([i \in 1..Len(args) |-> Append(args[i], ",")])) \o T(")")
     \o (IF rt = <<>> THEN <<>> ELSE T("->") \o rt) \o T(":"))

GetValue(S) == Join(S.lines, <<"|">>)
GetCode(S) == RStripNl(GetValue(S))

\* ------------------------------------------------------------------ calls
\* a call is [op, t, p, w, k, a]: text, second text (prefix / return type), width, integer, list of texts
Call(op, t, p, w, k, a) == [op |-> op, t |-> t, p |-> p, w |-> w, k |-> k, a |-> a]
Queries == {"get_code", "getvalue", "current_width", "current_line"}
Wrapping == {"append_wrapped", "write_wrapped_line", "write_wrapped_docstring_line"}

Apply(c, S) ==
  CASE c.op = "indent"  -> [st |-> Indent(S), ret |-> <<>>]
    [] c.op = "dedent"  -> [st |-> Dedent(S), ret |-> <<>>]
    [] c.op = "append"  -> [st |-> AppendT(S, c.t), ret |-> <<>>]
    [] c.op = "newline" -> [st |-> Newline(S), ret |-> <<>>]
    [] c.op = "move_to_column" -> [st |-> MoveTo(S, c.k), ret |-> <<>>]
    [] c.op = "replace_current_line" -> [st |-> ReplaceCur(S, c.t), ret |-> <<>>]
    [] c.op = "append_wrapped" -> [st |-> Wrap(S, c.t), ret |-> <<>>]
    [] c.op = "wrap_and_append" -> [st |-> WrapAndAppend(S, c.t, c.w, c.p), ret |-> <<>>]
    [] c.op = "append_wrapped_at_column" -> [st |-> WrapAtCol(S, c.t, c.w, c.k), ret |-> <<>>]
    [] c.op = "write_line" -> [st |-> WriteLine(S, c.t), ret |-> <<>>]
    [] c.op = "write_block" -> [st |-> WriteBlock(S, c.t), ret |-> <<>>]
    [] c.op = "write_wrapped_line" -> [st |-> WriteWrapped(S, c.t, c.w), ret |-> <<>>]
    [] c.op = "write_wrapped_docstring_line" -> [st |-> WriteWrappedDoc(S, c.p, c.t, c.w), ret |-> <<>>]
    [] c.op = "write_function_signature" -> [st |-> WriteSig(S, c.t, c.a, c.p, c.k), ret |-> <<>>]
    [] c.op = "get_code" -> [st |-> S, ret |-> GetCode(S)]
    [] c.op = "getvalue" -> [st |-> S, ret |-> GetValue(S)]
    [] c.op = "current_line" -> [st |-> S, ret |-> Cur(S)]
    [] c.op = "current_width" -> [st |-> S, ret |-> T(ToString(Len(Cur(S))))]

\* the external (JSON) form: texts as strings
ExtState(S) == [level |-> S.level, lines |-> Strs(S.lines), jn |-> S.jn, mw |-> S.mw]
IntState(x) == [level |-> x.level, lines |-> Ts(x.lines), jn |-> x.jn, mw |-> x.mw]
ExtCall(c) == [op |-> c.op, t |-> Str(c.t), p |-> Str(c.p), w |-> c.w, k |-> c.k, a |-> Strs(c.a)]
IntCall(x) == [op |-> x.op, t |-> T(x.t), p |-> T(x.p), w |-> x.w, k |-> x.k, a |-> Ts(x.a)]

\* ------------------------------------------------------------------ what is promised for which call
\* the text the call feeds (its blanks do not matter for the preservation statement)
Fed(c) ==
  CASE c.op \in {"append", "write_line", "write_block", "append_wrapped", "write_wrapped_line",
                 "append_wrapped_at_column", "replace_current_line"} -> NS(c.t)
    [] c.op = "write_wrapped_docstring_line" -> NS(c.p \o c.t)
    [] c.op = "wrap_and_append" -> IF NS(c.t) = <<>> THEN <<>> ELSE NS(c.p \o c.t)   \* nothing at all for a blank text
    [] c.op = "write_function_signature" -> SigFlat(c.t, c.a, c.p, c.k)
    [] OTHER -> <<>>

\* column at which a wrapping call starts and the width it must respect
WrapStart(c, S) == IF c.op = "write_wrapped_docstring_line" THEN (IF Unstarted(S) THEN 4 * S.level ELSE Len(Cur(S))) + Len(c.p) ELSE ColOf(S)
WrapWidth(c, S) == IF c.op = "append_wrapped" THEN S.mw ELSE c.w
\* a wrapping call is within the contract when there is room on the line (otherwise: as-is behaviour, DRIFT only)
RoomToWrap(c, S) == WrapWidth(c, S) > WrapStart(c, S)
\* multi-line arguments to single-line methods are the caller's error: as-is behaviour
InContract(c, S) ==
  CASE c.op \in {"append", "write_line", "replace_current_line"} -> ~HasAny(c.t, {"|"})
    [] c.op \in Wrapping -> RoomToWrap(c, S) /\ ~HasAny(c.p, {"|"}) /\ ~HasAny(c.p \o c.t, {"~"})
    [] c.op \in {"wrap_and_append", "append_wrapped_at_column"} -> FALSE      \* not used by the generator: as-is
    [] c.op = "write_function_signature" -> c.a # <<>>      \* without arguments the code writes `name(self)`: as-is
    [] OTHER -> TRUE
\* the greedy layout is claimed exactly when no tab stop / hyphenation rule is involved; U+2028 is a blank for the
\* regular expressions of textwrap and for str.split, a character for str.translate: wrapping such text is not modelled
ExactLayout(c, S) == ~HasAny(Cur(S) \o c.p \o c.t, {"^", "-", "~"})

\* the part of the writer a call may write: everything after the lines completed before the call
Region(S, R) == SubSeq(R.lines, Len(S.lines), Len(R.lines))

\* ---- the wrapping statements, as predicates over (pre-state, call, post-state)
WrapWidthOk(c, S, R) == \A i \in Len(S.lines)..Len(R.lines) : Len(R.lines[i]) <= WrapWidth(c, S)
WrapTextOk(c, S, R) == NS(Cat(Region(S, R))) = NS(Cur(S)) \o Fed(c)
\* continuation lines (not the first one, not the fresh line a write_wrapped_* call ends with) start at the column
WrapAlignOk(c, S, R) ==
  \A i \in Len(S.lines) + 1..(IF c.op = "append_wrapped" THEN Len(R.lines) ELSE Len(R.lines) - 1) :
     StartsWith(R.lines[i], Spaces(WrapStart(c, S))) /\ ~AllSpaces(R.lines[i])
\* every blank-separated token of the text arrives unbroken when it fits the room there is
WrapRejoinOk(c, S, R) ==
  \A src \in {Cur(S) \o c.p \o c.t} : \A toks \in {WordsOf(Chunks(src))} :
     ((\A i \in 1..Len(toks) : Len(toks[i]) <= WrapWidth(c, S) - WrapStart(c, S)) /\ ~HasAny(src, {"-"}))
        => WordsOf(Chunks(Join(Region(S, R), <<" ">>))) = toks
=============================================================================
