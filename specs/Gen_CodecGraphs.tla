-------------------------- MODULE Gen_CodecGraphs --------------------------
(***************************************************************************)
(* Instance graphs for the convenience serialiser: MinNodes..MaxNodes of   *)
(* one class, every edge set with <= MaxEdges edges of the kinds in Kinds  *)
(* (see Codec.tla part 4), every node reachable, root = node 1 or the      *)
(* list [n1..nk, n1].  Printed with what the specification says about the  *)
(* graph (cyclic, resolvable cycle, shared node, expected tree if acyclic).*)
(***************************************************************************)
EXTENDS Codec, Json
CONSTANTS MinNodes, MaxNodes, MaxEdges, Kinds, RootModes
VARIABLES g, done
gvars == <<g, done, hooks, hist, last>>

EdgesOn(n) == [from : 1..n, kind : Kinds, to : 1..n]
Graphs == {gr \in UNION {{[n |-> n, edges |-> E, root |-> r] : E \in UNION {kSubset(k, EdgesOn(n)) : k \in 0..MaxEdges}, r \in RootModes} : n \in MinNodes..MaxNodes} :
             GraphOK(gr) /\ Reachable(gr) = 1..gr.n}

Init == g \in Graphs /\ done = FALSE /\ RegInit
Emit ==
  /\ ~done /\ done' = TRUE /\ UNCHANGED <<g, hooks, hist, last>>
  /\ PrintT("GRAPH " \o ToJson([n |-> g.n, root |-> g.root, edges |-> SetToSeq(g.edges),
                                cyclic |-> Cyclic(g), rescycle |-> ResolvableCycle(g), shared |-> Shared(g)]))
\* sanity of the graph vocabulary itself
GraphLaws == /\ (ResolvableCycle(g) => Cyclic(g))
             /\ (~Cyclic(g) => IsJson(SerExpected(g)) /\ NullKeys(SerExpected(g)) = 0)
Spec == Init /\ [][Emit]_gvars
=============================================================================
