--------------------------- MODULE Gen_Pagination ---------------------------
(* Emits every server of Pagination.tla with the specification's expected requests / items (bounded). *)
EXTENDS Pagination
VARIABLE emitted
GInit == Init /\ emitted = FALSE
Emit == /\ ~emitted /\ emitted' = TRUE /\ UNCHANGED vars
        /\ PrintT("SCEN " \o ToJson([server |-> server, reqs |-> Chain(server, NoTok, MaxSteps),
                                     items |-> Concat(server, Chain(server, NoTok, MaxSteps)), acyclic |-> Acyclic(server)]))
GSpec == GInit /\ [][Emit]_<<vars, emitted>>
=============================================================================
