--------------------------- MODULE Trace_RoundTrip ---------------------------
(***************************************************************************)
(* C03 monitor.  trace == [id, ty, jin, jout, err, load, dump]             *)
(*   ty   : type tree   [k, p, of : Seq(ty), fields : Seq([key, req, ty])] *)
(*          k \in {"leaf","list","map","obj","deep"}                       *)
(*   jin / jout : JSON as tagged trees [t, v, items, keys]                 *)
(*          t \in {"s","n","b","z","l","o"}; for "o" keys[i] names items[i]*)
(*   err  : "none" | "structure:<Type>" | "unstructure:<Type>"             *)
(*   load / dump : the emitted Meta maps as sequences of <<wire, py>>      *)
(* RoundTripOK: every key of the input comes back with an equal value; an  *)
(* optional property absent from the input may be absent, null, or - if    *)
(* list- or map-typed - an empty container; nothing else may appear.       *)
(***************************************************************************)
EXTENDS Naturals, Sequences, FiniteSets, TLC, Json, IOUtils, SequencesExt

Traces == ndJsonDeserialize(IOEnv.TRACE_FILE)
VARIABLES tid, done

Idx(j, key) == CHOOSE i \in 1..Len(j.keys) : j.keys[i] = key
Has(j, key) == \E i \in 1..Len(j.keys) : j.keys[i] = key
Val(j, key) == j.items[Idx(j, key)]
FieldOf(ty, key) == ty.fields[CHOOSE i \in 1..Len(ty.fields) : ty.fields[i].key = key]
Declared(ty, key) == \E i \in 1..Len(ty.fields) : ty.fields[i].key = key

EmptyOK(ty, j) == j.t = "z" \/ (ty.k \in {"list", "map"} /\ j.t = (IF ty.k = "list" THEN "l" ELSE "o") /\ Len(j.items) = 0)

\* first difference as a clause name, "ok" if none
RECURSIVE Diff(_, _, _)
Diff(ty, a, b) ==
  IF ty.k = "leaf" THEN (IF a.t = b.t /\ a.v = b.v THEN "ok" ELSE "C03.value_changed")
  ELSE IF ty.k = "deep" THEN (IF a = b THEN "ok" ELSE "C03.value_changed")     \* union-typed: whole tagged trees must be equal
  ELSE IF a.t # b.t THEN "C03.value_changed"
  ELSE IF ty.k = "list" THEN
     IF Len(a.items) # Len(b.items) THEN "C03.value_changed"
     ELSE LET bad == {i \in 1..Len(a.items) : Diff(ty.of[1], a.items[i], b.items[i]) # "ok"} IN
          IF bad = {} THEN "ok" ELSE Diff(ty.of[1], a.items[CHOOSE i \in bad : TRUE], b.items[CHOOSE i \in bad : TRUE])
  ELSE IF ty.k = "map" THEN
     IF ToSet(a.keys) # ToSet(b.keys) THEN "C03.key_changed"
     ELSE LET bad == {k \in ToSet(a.keys) : Diff(ty.of[1], Val(a, k), Val(b, k)) # "ok"} IN
          IF bad = {} THEN "ok" ELSE Diff(ty.of[1], Val(a, CHOOSE k \in bad : TRUE), Val(b, CHOOSE k \in bad : TRUE))
  ELSE \* obj
     LET lost == {k \in ToSet(a.keys) : ~Has(b, k)}
         extra == {k \in ToSet(b.keys) : ~Has(a, k)}
         badextra == {k \in extra : ~Declared(ty, k) \/ FieldOf(ty, k).req \/ ~EmptyOK(FieldOf(ty, k).ty, Val(b, k))}
         badval == {k \in ToSet(a.keys) \cap ToSet(b.keys) : Declared(ty, k) /\ Diff(FieldOf(ty, k).ty, Val(a, k), Val(b, k)) # "ok"}
     IN IF lost # {} THEN (IF \E k \in extra : ~Declared(ty, k) THEN "C03.key_changed" ELSE "C03.key_lost")
        ELSE IF badextra # {} THEN (IF \E k \in badextra : ~Declared(ty, k) THEN "C03.key_changed" ELSE "C03.value_changed")
        ELSE IF badval # {} THEN Diff(FieldOf(ty, CHOOSE k \in badval : TRUE).ty, Val(a, CHOOSE k \in badval : TRUE), Val(b, CHOOSE k \in badval : TRUE))
        ELSE "ok"

\* KeysBijective: load and dump maps are mutually inverse bijections
Bijective(t) ==
  LET L == ToSet(t.load)  D == ToSet(t.dump) IN
    /\ \A p, q \in L : (p[1] = q[1] \/ p[2] = q[2]) => p = q
    /\ D = {<<p[2], p[1]>> : p \in L}

Clause(t) ==
  IF t.err # "none" THEN (IF t.errstage = "structure" THEN "C03.structure_error" ELSE "C03.unstructure_error")
  ELSE IF ~Bijective(t) THEN "C03.meta_not_bijective"
  ELSE Diff(t.ty, t.jin, t.jout)

Init == tid \in 1..Len(Traces) /\ done = FALSE
Judge == /\ ~done /\ done' = TRUE /\ UNCHANGED tid
         /\ LET t == Traces[tid] IN PrintT("VERDICT " \o ToJson([id |-> t.id, clause |-> Clause(t)]))
Spec == Init /\ [][Judge]_<<tid, done>>
=============================================================================
