---------------------------- MODULE Trace_Stream ----------------------------
(***************************************************************************)
(* C18 monitor.  One trace per stream, recorded from the REAL helpers      *)
(* (harness/w_stream.py):                                                  *)
(*   [id, mode, bytes : Seq(0..255), chunkings : Seq(Seq(cut)),            *)
(*    dec : Seq([name, outs : Seq([items, err]), idx : Seq(1..Len(outs))])]*)
(* outs are the distinct outputs of that helper over all chunkings,        *)
(* idx[r] names the output of chunking r (lossless compression).           *)
(*                                                                         *)
(* Clauses (each failing (helper, output) pair is listed with a locus):    *)
(*  C18.differs_from_unsplit  items of a chunking differ from the items of *)
(*                            the one-chunk run of the same stream         *)
(*  C18.last_event_lost       ... and are exactly the reference minus its  *)
(*                            last item                                    *)
(*  C18.order                 ... and are a re-ordering of the reference   *)
(*  C18.differs_from_spec     the one-chunk run differs from the whole-    *)
(*                            stream meaning StreamCore!Events / Records   *)
(*                            (comment-only blocks may or may not deliver  *)
(*                            an empty event: the property does not say)   *)
(*  C18.bytes_concat          iter_bytes: concatenation # input            *)
(* Every trace is consumed completely and yields exactly one VERDICT line. *)
(***************************************************************************)
EXTENDS StreamCore, TLC, Json, IOUtils

Traces == ndJsonDeserialize(IOEnv.TRACE_FILE)
VARIABLES tid, done

KindNames == {"in_char", "cr_lf", "in_line", "between_lines", "before_blank", "at_rest"}

IsPerm(a, b) ==
  /\ Len(a) = Len(b)
  /\ a # b
  /\ \A i \in 1..Len(a) : Cardinality({j \in 1..Len(a) : a[j] = a[i]}) = Cardinality({j \in 1..Len(b) : b[j] = a[i]})

\* which part of the first differing item differs (locus of a spec-relative failure)
DiffField(dec, obs, exp) ==
  IF Len(obs) # Len(exp) THEN "count"
  ELSE LET i == CHOOSE j \in 1..Len(obs) : obs[j] # exp[j] /\ \A k \in 1..(j - 1) : obs[k] = exp[k] IN
       IF dec # "iter_sse" THEN "item"
       ELSE IF obs[i].data # exp[i].data THEN "data"
       ELSE IF obs[i].event # exp[i].event THEN "event"
       ELSE IF obs[i].id # exp[i].id THEN "id"
       ELSE "retry"

\* the acceptable whole-stream meanings for a helper (more than one only where the property is silent)
Meanings(dec, mode, bytes) ==
  CASE dec = "iter_sse" -> {Events(bytes), EventsX(bytes, FALSE)}
    [] dec = "iter_sse_events_text" -> {DataTexts(Events(bytes))}
    [] dec = "iter_ndjson" -> {Records(bytes)}
    [] dec = "iter_bytes" -> {<<bytes>>}

\* classification of an output `o` that differs from the reference item list `ref`
Classify(o, ref, dflt) ==
  IF o.err # "none" THEN dflt
  ELSE IF ref # <<>> /\ o.items = FrontOf(ref) THEN "C18.last_event_lost"
  ELSE IF IsPerm(o.items, ref) THEN "C18.order"
  ELSE dflt

\* exp: the reference the output was compared with (items of the unsplit run, or the whole-stream meaning)
Fail(dec, clause, rel, err, kinds, field, cuts, exp) ==
  [dec |-> dec, clause |-> clause, rel |-> rel, err |-> err, kinds |-> kinds, field |-> field, cuts |-> cuts, exp |-> exp]

JudgeDec(t, K, d) ==
  LET ch == t.chunkings
      N == Len(ch)
      r0 == CHOOSE r \in 1..N : ch[r] = <<>>
      u == d.idx[r0]
      U == d.outs[u]
      M == Meanings(d.name, t.mode, t.bytes)
      ref == IF d.name = "iter_sse" THEN Events(t.bytes) ELSE CHOOSE m \in M : TRUE
      used == {d.idx[r] : r \in 1..N}
      first(k) == CHOOSE r \in 1..N : d.idx[r] = k /\ \A q \in 1..(r - 1) : d.idx[q] # k
      kindsOf(r) == {K[ch[r][i]] : i \in 1..Len(ch[r])}
      specOK(o) == o.err = "none" /\ o.items \in M
  IN
  IF d.name = "iter_bytes"
  THEN \* one failure per stream: the first chunking (fewest cuts) whose concatenation is not the input
       LET bad == {r \in 1..N : ~specOK(d.outs[d.idx[r]])} IN
       IF bad = {} THEN {}
       ELSE LET r == CHOOSE x \in bad : \A y \in bad : x <= y
                o == d.outs[d.idx[r]]
                got == IF Len(o.items) = 1 THEN Len(o.items[1]) ELSE -1
            IN {Fail(d.name, "C18.bytes_concat", "spec", o.err, {},
                     IF got < Len(t.bytes) THEN "shorter" ELSE IF got > Len(t.bytes) THEN "longer" ELSE "altered",
                     ch[r], ref)}
  ELSE
    {Fail(d.name, Classify(d.outs[k], U.items, "C18.differs_from_unsplit"), "unsplit", d.outs[k].err,
          kindsOf(first(k)), "none", ch[first(k)], U.items)
       : k \in {j \in used : d.outs[j] # U}}
    \cup
    (IF specOK(U) THEN {}
     ELSE {Fail(d.name, Classify(U, ref, "C18.differs_from_spec"), "spec", U.err, {},
                IF U.err # "none" THEN "error" ELSE DiffField(d.name, U.items, ref), <<>>, ref)})

Verdict(t) ==
  LET K == CutKinds(t.mode, t.bytes)
      ch == t.chunkings
      N == Len(ch)
      \* one set of failures per helper (kept apart: items of different helpers have different shapes)
      fails == [i \in 1..Len(t.dec) |-> JudgeDec(t, K, t.dec[i])]
      inner == Cardinality({r \in 1..N : \E i \in 1..Len(ch[r]) : K[ch[r][i]] # "at_rest"})
      byKind == [k \in KindNames |-> Cardinality({r \in 1..N : \E i \in 1..Len(ch[r]) : K[ch[r][i]] = k})]
  IN [id |-> t.id,
      fails |-> fails,
      nruns |-> N,
      inner |-> inner,
      byKind |-> byKind,
      nitems |-> Len(Expected(t.mode, t.bytes)),
      lastopen |-> LastUnterminated(t.mode, t.bytes),
      commentOnly |-> t.mode = "sse" /\ HasCommentOnlyBlock(t.bytes),
      commentOnlyDelivered |-> /\ t.mode = "sse" /\ HasCommentOnlyBlock(t.bytes)
                               /\ \E i \in 1..Len(t.dec) : /\ t.dec[i].name = "iter_sse"
                                                           /\ t.dec[i].outs[t.dec[i].idx[1]].items = Events(t.bytes)]

Init == tid \in 1..Len(Traces) /\ done = FALSE
Judge ==
  /\ ~done
  /\ done' = TRUE
  /\ UNCHANGED tid
  /\ PrintT("VERDICT " \o ToJson(Verdict(Traces[tid])))
Spec == Init /\ [][Judge]_<<tid, done>>
=============================================================================
