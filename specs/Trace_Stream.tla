---------------------------- MODULE Trace_Stream ----------------------------
(***************************************************************************)
(* C18 monitor.  One trace per stream, recorded from the REAL helpers      *)
(* (harness/w_stream.py):                                                  *)
(*   [id, mode, bytes : Seq(0..255), chunkings : Seq(Seq(cut)),            *)
(*    dec : Seq([name, outs : Seq([items, err]), idx : Seq(1..Len(outs))])]*)
(* outs are the distinct outputs of that helper over all chunkings,        *)
(* idx[r] names the output of chunking r (lossless compression).           *)
(*                                                                         *)
(* Clauses (each failing (helper, output) pair is listed with a locus):    *)
(*  C18.differs_from_unsplit  items of a chunking differ from the items of *)
(*                            the one-chunk run of the same stream         *)
(*  C18.last_event_lost       ... and are exactly the reference minus its  *)
(*                            last item                                    *)
(*  C18.order                 ... and are a re-ordering of the reference   *)
(*  C18.differs_from_spec     the one-chunk run differs from the whole-    *)
(*                            stream meaning StreamCore!Events / Records   *)
(*                            (comment-only blocks may or may not deliver  *)
(*                            an empty event: the property does not say)   *)
(*  C18.bytes_concat          iter_bytes: concatenation # input            *)
(*  C18.streams_interfere     (pair traces, see below)                     *)
(* Every trace is consumed completely and yields exactly one VERDICT line. *)
(***************************************************************************)
EXTENDS StreamCore, TLC, Json, IOUtils

Traces == ndJsonDeserialize(IOEnv.TRACE_FILE)
VARIABLES tid, done

KindNames == {"in_char", "cr_lf", "in_line", "between_lines", "before_blank", "at_rest"}

IsPerm(a, b) ==
  /\ Len(a) = Len(b)
  /\ a # b
  /\ \A i \in 1..Len(a) : Cardinality({j \in 1..Len(a) : a[j] = a[i]}) = Cardinality({j \in 1..Len(b) : b[j] = a[i]})

\* which part of the first differing item differs (locus of a spec-relative failure)
DiffField(dec, obs, exp) ==
  IF Len(obs) # Len(exp) THEN "count"
  ELSE LET i == CHOOSE j \in 1..Len(obs) : obs[j] # exp[j] /\ \A k \in 1..(j - 1) : obs[k] = exp[k] IN
       IF dec # "iter_sse" THEN "item"
       ELSE IF obs[i].data # exp[i].data THEN "data"
       ELSE IF obs[i].event # exp[i].event THEN "event"
       ELSE IF obs[i].id # exp[i].id THEN "id"
       ELSE "retry"

\* the acceptable whole-stream meanings for a helper (more than one only where the property is silent)
\* charset: the decode-step parameter ("utf8" | "latin1") that corresponds to the Content-Type the response carried
Meanings(dec, charset, mode, bytes) ==
  CASE dec = "iter_sse" -> {EventsXC(charset, bytes, TRUE), EventsXC(charset, bytes, FALSE)}
    [] dec = "iter_sse_events_text" -> {DataTexts(EventsXC(charset, bytes, TRUE))}
    [] dec = "iter_ndjson" -> {RecordsC(charset, bytes)}
    [] dec = "iter_bytes" -> {<<bytes>>}

\* classification of an output `o` that differs from the reference item list `ref`
Classify(o, ref, dflt) ==
  IF o.err # "none" THEN dflt
  ELSE IF ref # <<>> /\ o.items = FrontOf(ref) THEN "C18.last_event_lost"
  ELSE IF IsPerm(o.items, ref) THEN "C18.order"
  ELSE dflt

\* exp: the reference the output was compared with (items of the unsplit run, or the whole-stream meaning)
Fail(dec, clause, rel, err, kinds, field, cuts, exp) ==
  [dec |-> dec, clause |-> clause, rel |-> rel, err |-> err, kinds |-> kinds, field |-> field, cuts |-> cuts, exp |-> exp]

\* where the whole-stream meaning is a property clause: UTF-8 responses (t.judgeSpec, decided by the header sent);
\* a bare CR is a legal SSE terminator, for NDJSON the statement does not cover it
SpecApplies(t) == t.judgeSpec /\ (t.mode = "sse" \/ ~HasBareCR(t.bytes))

JudgeDec(t, K, d) ==
  LET ch == t.chunkings
      N == Len(ch)
      r0 == CHOOSE r \in 1..N : ch[r] = <<>>
      u == d.idx[r0]
      U == d.outs[u]
      M == Meanings(d.name, t.charset, t.mode, t.bytes)
      ref == IF d.name = "iter_sse" THEN EventsXC(t.charset, t.bytes, TRUE) ELSE CHOOSE m \in M : TRUE
      used == {d.idx[r] : r \in 1..N}
      first(k) == CHOOSE r \in 1..N : d.idx[r] = k /\ \A q \in 1..(r - 1) : d.idx[q] # k
      kindsOf(r) == {K[ch[r][i]] : i \in 1..Len(ch[r])}
      specOK(o) == o.err = "none" /\ o.items \in M
  IN
  IF d.name = "iter_bytes"
  THEN \* one failure per stream: the first chunking (fewest cuts) whose concatenation is not the input
       LET bad == {r \in 1..N : ~specOK(d.outs[d.idx[r]])} IN
       IF bad = {} THEN {}
       ELSE LET r == CHOOSE x \in bad : \A y \in bad : x <= y
                o == d.outs[d.idx[r]]
                got == IF Len(o.items) = 1 THEN Len(o.items[1]) ELSE -1
            IN {Fail(d.name, "C18.bytes_concat", "spec", o.err, {},
                     IF got < Len(t.bytes) THEN "shorter" ELSE IF got > Len(t.bytes) THEN "longer" ELSE "altered",
                     ch[r], ref)}
  ELSE
    {Fail(d.name, Classify(d.outs[k], U.items, "C18.differs_from_unsplit"), "unsplit", d.outs[k].err,
          kindsOf(first(k)), "none", ch[first(k)], U.items)
       : k \in {j \in used : d.outs[j] # U}}
    \cup
    \* the whole-stream meaning is a property clause only where the statement applies (UTF-8 event streams:
    \* t.judgeSpec); under other declared charsets only the chunk-independence relation above is judged
    (IF specOK(U) \/ ~SpecApplies(t) THEN {}
     ELSE {Fail(d.name, Classify(U, ref, "C18.differs_from_spec"), "spec", U.err, {},
                IF U.err # "none" THEN "error" ELSE DiffField(d.name, U.items, ref), <<>>, ref)})

Verdict(t) ==
  LET K == CutKinds(t.mode, t.bytes)
      ch == t.chunkings
      N == Len(ch)
      \* one set of failures per helper (kept apart: items of different helpers have different shapes)
      fails == [i \in 1..Len(t.dec) |-> JudgeDec(t, K, t.dec[i])]
      inner == Cardinality({r \in 1..N : \E i \in 1..Len(ch[r]) : K[ch[r][i]] # "at_rest"})
      byKind == [k \in KindNames |-> Cardinality({r \in 1..N : \E i \in 1..Len(ch[r]) : K[ch[r][i]] = k})]
  IN [id |-> t.id,
      kind |-> "single",
      fails |-> fails,
      \* model / code disagreement that no clause depends on (reported as DRIFT)
      specdrift |-> /\ ~SpecApplies(t)
                    /\ \E i \in 1..Len(t.dec) :
                         LET d == t.dec[i] U == d.outs[d.idx[1]] IN
                         d.name # "iter_bytes" /\ ~(U.err = "none" /\ U.items \in Meanings(d.name, t.charset, t.mode, t.bytes)),
      nruns |-> N,
      inner |-> inner,
      byKind |-> byKind,
      nitems |-> Len(Expected(t.mode, t.bytes)),
      lastopen |-> LastUnterminated(t.mode, t.bytes),
      commentOnly |-> t.judgeSpec /\ t.mode = "sse" /\ HasCommentOnlyBlock(t.bytes),
      commentOnlyDelivered |-> /\ t.judgeSpec /\ t.mode = "sse" /\ HasCommentOnlyBlock(t.bytes)
                               /\ \E i \in 1..Len(t.dec) : /\ t.dec[i].name = "iter_sse"
                                                           /\ t.dec[i].outs[t.dec[i].idx[1]].items = Events(t.bytes)]

----------------------------------------------------------------------------
(* Two streams in one process (StreamPair.tla).  trace:                                        *)
(*   [id, kind = "pair", s : <<[mode, bytes, helper], [..]>>, runs : Seq([c1, c2, sched, mid]), *)
(*    ref : <<out, out>> (each stream alone, unsplit), outs : <<Seq(out), Seq(out)>>,           *)
(*    idx : <<Seq, Seq>>]                                                                       *)
(* C18.streams_interfere: under some history (sequential or interleaved, the other stream       *)
(* possibly abandoned mid-event) a stream that ended normally did not yield exactly the items   *)
(* it yields alone, or an abandoned stream yielded something that is not a prefix of them.      *)

IsPrefixOf(x, y) == Len(x) <= Len(y) /\ SubSeq(y, 1, Len(x)) = x
HasAbort(sched, i) == \E k \in 1..Len(sched) : sched[k] = 10 * i + 2
Alternations(sched) == Cardinality({k \in 1..(Len(sched) - 1) : sched[k] \div 10 # sched[k + 1] \div 10})

PairSide(t, i) ==
  LET N == Len(t.runs)
      me == t.s[i]
      ref == t.ref[i]
      o(r) == t.outs[i][t.idx[i][r]]
      ok(r) == IF HasAbort(t.runs[r].sched, i)
               THEN o(r).err = "aborted" /\ IsPrefixOf(o(r).items, ref.items)
               ELSE o(r) = ref
      bad == {r \in 1..N : ~ok(r)}
      M == Meanings(me.helper, "utf8", me.mode, me.bytes)
      rec(clause, r, err, hist, oa, sa) ==
        [clause |-> clause, side |-> i, dec |-> me.helper, other |-> t.s[3 - i].helper, history |-> hist,
         otherAborted |-> oa, selfAborted |-> sa, err |-> err, run |-> r, exp |-> ref.items, nbad |-> Cardinality(bad)]
  IN (IF bad = {} THEN {}
      ELSE LET r == CHOOSE x \in bad : \A y \in bad : x <= y
               sch == t.runs[r].sched
           IN {rec("C18.streams_interfere", r, o(r).err, IF Alternations(sch) <= 1 THEN "sequential" ELSE "interleaved",
                   HasAbort(sch, 3 - i), HasAbort(sch, i))})
     \cup
     (IF ref.err = "none" /\ ref.items \in M THEN {}
      ELSE {rec("C18.differs_from_spec", 0, ref.err, "alone", FALSE, FALSE)})

PairVerdict(t) ==
  LET N == Len(t.runs) IN
  [id |-> t.id,
   kind |-> "pair",
   fails |-> <<PairSide(t, 1), PairSide(t, 2)>>,
   nruns |-> N,
   nmid |-> Cardinality({r \in 1..N : t.runs[r].mid}),
   nseq |-> Cardinality({r \in 1..N : Alternations(t.runs[r].sched) <= 1}),
   nabort |-> Cardinality({r \in 1..N : HasAbort(t.runs[r].sched, 1)})]

----------------------------------------------------------------------------
(* Long streams (StreamCore "Long streams").  trace:                                                      *)
(*   [id, kind = "long", L : [name, mode, pre, fill, m, post, reps], total, labels : Seq([label, size]),  *)
(*    dec : Seq([name, outs : Seq([items : [period, n], err, big, digest]), idx])]  labels[1] = unsplit   *)
(* Outputs are encoded deterministically and losslessly (or, when huge, truncated + flagged `big`, their   *)
(* identity kept by `digest`), so equal records <=> equal outputs.                                         *)

LongDec(t, d) ==
  LET N == Len(t.labels)
      U == d.outs[d.idx[1]]
      E == ExpectedLong(d.name, t.L)
      used == {d.idx[r] : r \in 1..N}
      first(k) == CHOOSE r \in 1..N : d.idx[r] = k /\ \A q \in 1..(r - 1) : d.idx[q] # k
      \* o.big: the encoding was too large to pass on in full - then it is not the expected one, whose encoding is small
      okSpec(o) == o.err = "none" /\ ~o.big /\ PSame(o.items, E)
      rec(clause, rel, o, r, field) ==
        [dec |-> d.name, clause |-> clause, rel |-> rel, err |-> o.err, label |-> t.labels[r].label, size |-> t.labels[r].size,
         run |-> r, field |-> field, nobs |-> o.items.n, nexp |-> IF rel = "spec" THEN E.n ELSE U.items.n]
  IN
  IF d.name = "iter_bytes"
  THEN LET bad == {r \in 1..N : ~okSpec(d.outs[d.idx[r]])} IN
       IF bad = {} \/ ~Liftable(t.L) THEN {}
       ELSE LET r == CHOOSE z \in bad : \A y \in bad : z <= y IN {rec("C18.bytes_concat", "spec", d.outs[d.idx[r]], r, "concat")}
  ELSE
    {rec(IF d.outs[k].err = "none" /\ d.outs[k].items.n + 1 = U.items.n /\ U.err = "none" THEN "C18.last_event_lost" ELSE "C18.differs_from_unsplit",
         "unsplit", d.outs[k], first(k), IF d.outs[k].items.n # U.items.n THEN "count" ELSE "item")
       : k \in {j \in used : d.outs[j] # U}}
    \cup
    (IF okSpec(U) \/ ~Liftable(t.L) THEN {}
     ELSE {rec("C18.differs_from_spec", "spec", U, 1, IF U.err # "none" THEN "error" ELSE IF U.items.n # E.n THEN "count" ELSE "item")})

LongVerdict(t) ==
  [id |-> t.id, kind |-> "long",
   fails |-> [i \in 1..Len(t.dec) |-> LongDec(t, t.dec[i])],
   nruns |-> Len(t.labels),
   liftable |-> Liftable(t.L),
   nitems |-> ExpectedLong(IF t.L.mode = "sse" THEN "iter_sse" ELSE "iter_ndjson", t.L).n]

Init == tid \in 1..Len(Traces) /\ done = FALSE
Judge ==
  /\ ~done
  /\ done' = TRUE
  /\ UNCHANGED tid
  /\ PrintT("VERDICT " \o ToJson(IF Traces[tid].kind = "pair" THEN PairVerdict(Traces[tid])
                                   ELSE IF Traces[tid].kind = "long" THEN LongVerdict(Traces[tid])
                                   ELSE Verdict(Traces[tid])))
Spec == Init /\ [][Judge]_<<tid, done>>
=============================================================================
