----------------------------- MODULE Gen_Models -----------------------------
(* C03 scenario generator: object schemas with 1..MaxProps properties drawn from Types x {required, optional} x key
   Styles, and for each schema the instance choices (which optional properties are present, value index 1..2).
   Pairs use the reduced type list PairTypes.  One SCEN line per (schema, instance choice). *)
EXTENDS Naturals, Sequences, FiniteSets, TLC, Json
CONSTANTS Types, PairTypes, Styles, PairStyles, MaxProps,
          TripleStyles   \* styles whose three keys collide with each other or with a DERIVED (suffixed / escaped) name
VARIABLES sc, done

Prop(ty, req, st) == [ty |-> ty, req |-> req, style |-> st]
Singles == {<<Prop(t, r, s)>> : t \in Types, r \in BOOLEAN, s \in Styles}
Pairs == IF MaxProps < 2 THEN {} ELSE
  {<<Prop(t1, r1, s[1]), Prop(t2, r2, s[2])>> : t1 \in PairTypes, t2 \in PairTypes, r1 \in BOOLEAN, r2 \in BOOLEAN, s \in PairStyles}
\* three string properties of one style (keys 1..3 of the style), two required-patterns
Triples == {<<Prop("str", r, st), Prop("str", FALSE, st), Prop("str", FALSE, st)>> : r \in BOOLEAN, st \in TripleStyles}
Schemas == Singles \cup Pairs \cup Triples
Optional(ps) == {i \in 1..Len(ps) : ~ps[i].req}
Scen == {[props |-> ps, present |-> pr, vi |-> vi] : ps \in Schemas, pr \in SUBSET (1..3), vi \in 1..2}

Init == sc \in {s \in Scen : s.present \subseteq Optional(s.props)} /\ done = FALSE
Emit == ~done /\ done' = TRUE /\ UNCHANGED sc /\ PrintT("SCEN " \o ToJson(sc))
Spec == Init /\ [][Emit]_<<sc, done>>
=============================================================================
