---------------------------- MODULE Trace_Reply ----------------------------
(***************************************************************************)
(* C05 monitor.  One trace per operation of a generated package (or per    *)
(* bundled stream helper):                                                 *)
(*   [id, served, others : Seq(status), c, sh, sib, ord, share - Gen_Reply*)
(*    role : "primary" | "secondary" | "default" | "helper",               *)
(*    via  : "method" | "helper:<function>",                               *)
(*    ann  : Seq(kind) - what the REAL return annotation admits,           *)
(*    ev   : Seq([body : Reply body the fake server sent,                  *)
(*               got  : Reply outcome the caller saw (itemkinds a Seq)])]  *)
(* The judge is Reply!Failures - the operator that judged the modelled     *)
(* outcome in the design check.  Total: every trace yields one VERDICT     *)
(* line with every failing (clause, locus) (count + index of the first     *)
(* event), the number of events whose real outcome differs from the as-is  *)
(* model (DRIFT, never a failure) and the number of antecedents evaluated  *)
(* per clause.                                                             *)
(***************************************************************************)
EXTENDS Reply, Json, IOUtils

Traces == ndJsonDeserialize(IOEnv.TRACE_FILE)

VARIABLES tid, done

Got(g) == Outcome(g.kind, g.pykind, g.pyclass, g.tree, g.items, ToSet(g.itemkinds), g.cat, g.exc)

Init == tid \in 1..Len(Traces) /\ done = FALSE

Judge ==
  /\ ~done
  /\ done' = TRUE
  /\ UNCHANGED tid
  /\ LET t    == Traces[tid]
         n    == Len(t.ev)
         ctx  == Ctx(t.role, t.c, t.sh, t.via)
         ann  == ToSet(t.ann)
         sc   == [served |-> t.served, cell |-> [c |-> t.c, sh |-> t.sh], others |-> ToSet(t.others), sib |-> t.sib, ord |-> t.ord, share |-> t.share]
         d    == Decl(sc)
         ds   == DocSeq(sc)
         B(i) == t.ev[i].body
         G(i) == Got(t.ev[i].got)
         isMethod == t.via = "method"
         allowed == Bodies(t.c, t.sh, 2)
         FA   == [i \in 1..n |-> Failures(ctx, B(i), ann, G(i))]
         MO   == [i \in 1..n |-> IF isMethod THEN ModelOutcome("as_is", d, ds, t.sib, t.served, B(i)) ELSE G(i)]
         MF   == [i \in 1..n |-> IF isMethod THEN Failures(ctx, B(i), Ann("as_is", d, ds), MO[i]) ELSE {}]
         Agg(FS, f) == LET idx == {i \in 1..n : f \in FS[i]} IN [clause |-> f.clause, locus |-> f.locus, n |-> Cardinality(idx), first |-> Min(idx)]
         AggAll(FS) == LET all == UNION {FS[i] : i \in 1..n} IN SetToSeq({Agg(FS, f) : f \in all})
         drift == {i \in 1..n : Project(G(i)) # Project(MO[i])}
         cnt(P(_)) == Cardinality({i \in 1..n : P(i)})
         mode(i) == ExpectedReply(B(i)).mode
     IN PrintT("VERDICT " \o ToJson([
            id          |-> t.id,
            wellformed  |-> (isMethod => (WellFormedScenario(sc) /\ t.role = RoleOf(d, ds, t.served)
                                          /\ \A i \in 1..n : B(i) \in allowed)),
            fails       |-> AggAll(FA),
            model_fails |-> AggAll(MF),
            ann_drift   |-> (isMethod /\ ann # Ann("as_is", d, ds)),
            ndrift      |-> Cardinality(drift),
            drift_first |-> IF drift = {} THEN 0 ELSE Min(drift),
            ante |-> [calls    |-> n,
                      returned |-> cnt(LAMBDA i : G(i).kind # "raise"),
                      none     |-> cnt(LAMBDA i : mode(i) = "none"),
                      json     |-> cnt(LAMBDA i : mode(i) = "json" /\ G(i).kind = "return"),
                      text     |-> cnt(LAMBDA i : mode(i) = "text" /\ G(i).kind # "raise"),
                      bytes    |-> cnt(LAMBDA i : mode(i) = "chunks" /\ G(i).kind # "raise"),
                      stream   |-> cnt(LAMBDA i : mode(i) \in {"items", "chunks"} /\ G(i).kind = "items"),
                      ordered  |-> cnt(LAMBDA i : mode(i) \in {"items", "chunks"} /\ G(i).kind = "items" /\ Len(G(i).items) >= 2)]]))

Spec == Init /\ [][Judge]_<<tid, done>>
=============================================================================
