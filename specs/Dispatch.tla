------------------------------ MODULE Dispatch ------------------------------
(***************************************************************************)
(* C06 - one generated endpoint method and one call of it, from the choice *)
(* of the operation's primary response (generation time) to what the       *)
(* caller sees:                                                            *)
(*                                                                         *)
(*   stage "select"     _get_primary_response, one action per rule:        *)
(*                      PrimarySuccess (200, 201, 202, 204, other 2xx),    *)
(*                      PrimaryDefault, PrimaryFirstListed (the fallback:  *)
(*                      an operation without success and default response  *)
(*                      gets its FIRST LISTED error response as primary);  *)
(*   stage "transport"  HttpTransport.request: the bundled HttpxTransport  *)
(*                      raises for every status outside 200..299           *)
(*                      (TransportRaise); a custom transport is free to    *)
(*                      hand the response back (TransportPass).  A package *)
(*                      whose endpoints module cannot be imported never    *)
(*                      gets this far (LoadFails - never enabled any more, *)
(*                      see DispatchCore!Importable);                      *)
(*   stage "match"      the generated `match response.status_code:` - one  *)
(*                      action per kind of case the generator emits        *)
(*                      (CasePrimary, CaseDeclared, CaseRange, CaseDefault,*)
(*                      CaseCatchAll);                                     *)
(*   stage "done"       the outcome is what the caller observes; Judge     *)
(*                      evaluates the property's clauses INTO A VERDICT    *)
(*                      (DESIGN lines) so that one run lists every design- *)
(*                      level counterexample; the clauses the code path is *)
(*                      believed to satisfy are real invariants.           *)
(*                                                                         *)
(* Variant "as_is" mirrors the code (see DispatchCore for line numbers);   *)
(* under variant "fixed" the whole property (NonSuccessRaises /\           *)
(* CarriesStatusAndResponse /\ ClassByRange) is an INVARIANT.              *)
(***************************************************************************)
EXTENDS DispatchCore, TLC, Json, SequencesExt

CONSTANTS Members,     \* the universe of declaration members
          MaxDecl,     \* declarations have 1..MaxDecl members
          AllOrders,   \* TRUE: the full family (every variant combination, every listing order); FALSE: the stratified one
          Statuses,    \* statuses the server may answer with
          BodyKinds,   \* bodies the server may answer with (SUBSET Bodies)
          BodyStatuses,\* the statuses that are answered with every body kind (the others: "object" only)
          Transports,  \* SUBSET {"bundled", "pass"}
          Variant,     \* "as_is" | "fixed"
          Emit         \* TRUE: Judge prints a DESIGN line for every failing call

VARIABLES decl, first, transport, status, body, primary, stage, outcome
vars  == <<decl, first, transport, status, body, primary, stage, outcome>>
scen  == <<decl, first, transport, status, body>>

ASSUME Variant \in Variants /\ Transports \subseteq {"bundled", "pass"} /\ Statuses \subseteq 100..599 /\ BodyKinds \subseteq Bodies

NoPrimary == [k |-> "none", code |-> 0, content |-> FALSE]

Init ==
  /\ \E sc \in Scenarios(Members, MaxDecl, AllOrders) : decl = sc.d /\ first = sc.first
  /\ transport \in Transports
  /\ status \in Statuses
  /\ body \in BodyKinds
  /\ (body # "object" => status \in BodyStatuses)
  /\ primary = NoPrimary
  /\ stage = "select"
  /\ outcome = NoOutcome

Select(p) == primary' = p /\ stage' = "transport" /\ UNCHANGED <<scen, outcome>>

\* "Prioritize 200, 201, 202, 204" / "Then other 2xx"
PrimarySuccess     == stage = "select" /\ HasSuccess(decl) /\ Select(SuccessPrimary(decl))
\* "Then default"
PrimaryDefault     == stage = "select" /\ ~HasSuccess(decl) /\ HasDefault(decl) /\ Select(DefaultPrimary(decl))
\* "Finally, the first listed response if any"
PrimaryFirstListed == stage = "select" /\ ~HasSuccess(decl) /\ ~HasDefault(decl) /\ Select(first)

Finish(o) == outcome' = o /\ stage' = "done" /\ UNCHANGED <<scen, primary>>

\* the client package cannot be imported, no call is ever made.  Never enabled since /repo 5b87475 (it used to be
\* `from <core> import Error302` for a declared 1xx/3xx key); kept so that the outcome "unimportable" stays expressible
LoadFails ==
  /\ stage = "transport" /\ ~Importable(Variant, decl)
  /\ Finish(Unimportable)

\* http_transport.py:193-202: class by status range (ClientError / ServerError / base HTTPError)
TransportRaise ==
  /\ stage = "transport" /\ Importable(Variant, decl)
  /\ transport = "bundled" /\ status \notin 200..299
  /\ Finish(TransportExc(Variant, status))

\* the bundled transport returns a 2xx response; a pass-through transport returns every response
TransportPass ==
  /\ stage = "transport" /\ Importable(Variant, decl)
  /\ (IF transport = "pass" THEN TRUE ELSE status \in 200..299)
  /\ stage' = "match" /\ UNCHANGED <<scen, primary, outcome>>

\* the first `case`: the primary response, only when its key is a numeric 2xx; returns the strategy's type
CasePrimary ==
  /\ stage = "match" /\ PrimaryCase(primary) /\ status = primary.code
  /\ Finish(PrimaryOutcome(primary, body))

\* `case <code>:` of every other numeric key (a fallback primary included) - `return ...` for a 2xx key,
\* `raise <Alias>(response=response)` for any other
CaseDeclared(c) ==
  /\ stage = "match" /\ c \in Codes(decl) /\ c = status
  /\ ~(PrimaryCase(primary) /\ status = primary.code)
  /\ Finish(DeclaredOutcome(Variant, decl, status, body))

\* `case` for a range key "4XX": the generator emits none (as_is); variant "fixed" dispatches it
CaseRange(r) ==
  /\ stage = "match" /\ r \in Ranges(decl) /\ status \div 100 = r
  /\ RangeHit(Variant, decl, status)
  /\ Finish(RangeOutcome(status, body))

NoCase == ~DeclaredHit(decl, status) /\ ~RangeHit(Variant, decl, status)

\* `case _:  # Default response` - returns the body parsed as the PRIMARY response's type when it can
CaseDefault ==
  /\ stage = "match" /\ NoCase /\ HasDefault(decl)
  /\ Finish(IF Variant = "as_is"
              THEN IF DefaultContent(decl) /\ primary.content THEN Parsed(body) ELSE Raise(Base, status, TRUE)
              ELSE DefaultOutcome(Variant, decl, first, status, body))

\* `case _:` - final catch-all, emitted iff no default response is declared
CaseCatchAll ==
  /\ stage = "match" /\ NoCase /\ ~HasDefault(decl)
  /\ Finish(CatchAllOutcome(Variant, status))

\* constant quantifier bounds: TLC keeps CaseDeclared / CaseRange as named sub-actions (coverage)
MemberCodes  == Codes(Members)
MemberRanges == Ranges(Members)

Judge ==
  /\ stage = "done"
  /\ stage' = "judged" /\ UNCHANGED <<scen, primary, outcome>>
  /\ LET fs == Failures(decl, transport, status, body, "none", outcome)
     IN  (Emit /\ fs # {}) =>
            PrintT("DESIGN " \o ToJson([decl |-> SetToSeq(decl), first |-> first, transport |-> transport, status |-> status,
                                        body |-> body, kind |-> outcome.kind, fails |-> SetToSeq(fs)]))

Next ==
  \/ PrimarySuccess \/ PrimaryDefault \/ PrimaryFirstListed
  \/ LoadFails \/ TransportRaise \/ TransportPass
  \/ CasePrimary
  \/ \E c \in MemberCodes : CaseDeclared(c)
  \/ \E r \in MemberRanges : CaseRange(r)
  \/ CaseDefault \/ CaseCatchAll
  \/ Judge

Spec == Init /\ [][Next]_vars

\* ---------------------------------------------------------------------------------------------
\* invariants

Finished == stage \in {"done", "judged"}

TypeOK ==
  /\ stage \in {"select", "transport", "match", "done", "judged"}
  /\ transport \in Transports /\ status \in Statuses /\ body \in BodyKinds /\ WellFormed(decl) /\ first \in decl
  /\ outcome.kind \in {"none", "return", "raise", "unimportable"}
  /\ outcome.mro \subseteq Names
  /\ (Finished <=> outcome.kind # "none")
  /\ (stage = "select" <=> primary = NoPrimary)

\* the three selection actions compose to DispatchCore!Primary
PrimaryIsModel == stage # "select" => primary = Primary(decl, first)
\* a primary response chosen by the "first listed" fallback is an error response: it must not get the returning case
FallbackNeverReturns == (stage # "select" /\ ~HasSuccess(decl)) => ~PrimaryCase(primary)

\* the machine's actions compose to the constant-level function the trace monitor compares the real code with
MachineIsModel == Finished => outcome = ModelOutcome(Variant, decl, first, transport, status, body)

\* the judge and the property as stated are the same predicate
JudgeAgrees ==
  (Finished /\ outcome.kind # "unimportable") =>
      (Holds(status, outcome) <=> Failures(decl, transport, status, body, "none", outcome) = {})

\* the property, clause by clause (names as in DESIGN.md appendix F)
Judged == Finished /\ outcome.kind # "unimportable" /\ status \notin 200..299
NonSuccessRaises         == Judged => outcome.kind = "raise"
RaisedIsHTTPError        == (Judged /\ outcome.kind = "raise") => IsHTTPError(outcome)
CarriesStatusAndResponse == (Judged /\ outcome.kind = "raise" /\ IsHTTPError(outcome)) => (outcome.status = status /\ outcome.hasResponse)
ClassByRange             == (Judged /\ outcome.kind = "raise" /\ IsHTTPError(outcome)) =>
                               /\ (status \in 400..499 => IsClientError(outcome))
                               /\ (status \in 500..599 => IsServerError(outcome))
Property == (Finished /\ outcome.kind # "unimportable") => Holds(status, outcome)

\* a declared non-2xx status that reaches the match statement raises its alias whatever the body and the listing order
DeclaredErrorRaisesAlias ==
  (Finished /\ outcome.kind # "unimportable" /\ transport = "pass" /\ status \notin 200..299 /\ status \in Codes(decl)) =>
      outcome = Raise(ByRange(status), status, TRUE)
\* only a response the transport handed back reaches the match statement
MatchOnlyIfPassed == stage = "match" => (transport = "pass" \/ status \in 200..299)
\* a success status the document declares is never turned into an HTTP error
DeclaredSuccessNoHTTPError == (Finished /\ outcome.kind # "unimportable" /\ status \in 200..299 /\ status \in Codes(decl)) => ~IsHTTPError(outcome)
=============================================================================
