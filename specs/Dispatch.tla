------------------------------ MODULE Dispatch ------------------------------
(***************************************************************************)
(* C06 - one call of a generated endpoint method, from the moment the      *)
(* server's status line is known to what the caller sees:                  *)
(*                                                                         *)
(*   stage "transport"  HttpTransport.request: the bundled HttpxTransport  *)
(*                      raises for every status outside 200..299           *)
(*                      (TransportRaise); a custom transport is free to    *)
(*                      hand the response back (TransportPass).  A package *)
(*                      whose endpoints module cannot be imported never    *)
(*                      gets this far (LoadFails - C01's finding, counted  *)
(*                      and not judged here);                              *)
(*   stage "match"      the generated `match response.status_code:` - one  *)
(*                      action per kind of case the generator emits        *)
(*                      (CaseDeclared, CaseRange, CaseDefault,             *)
(*                      CaseCatchAll);                                     *)
(*   stage "done"       the outcome is what the caller observes; Judge     *)
(*                      evaluates the property's clauses INTO A VERDICT    *)
(*                      (DESIGN lines) so that one run lists every design- *)
(*                      level counterexample; the clauses the code path is *)
(*                      believed to satisfy are real invariants.           *)
(*                                                                         *)
(* Variant "as_is" mirrors the code (see DispatchCore for line numbers);   *)
(* under variant "fixed" the whole property (NonSuccessRaises /\           *)
(* CarriesStatusAndResponse /\ ClassByRange) is an INVARIANT.              *)
(***************************************************************************)
EXTENDS DispatchCore, TLC, Json, SequencesExt

CONSTANTS Members,     \* the universe of declaration members
          MaxDecl,     \* declarations have 1..MaxDecl members
          Statuses,    \* statuses the server may answer with
          Transports,  \* SUBSET {"bundled", "pass"}
          Variant,     \* "as_is" | "fixed"
          Emit         \* TRUE: Judge prints a DESIGN line for every failing call

VARIABLES decl, transport, status, stage, outcome
vars == <<decl, transport, status, stage, outcome>>

ASSUME Variant \in Variants /\ Transports \subseteq {"bundled", "pass"} /\ Statuses \subseteq 100..599

Init ==
  /\ decl \in DeclSets(Members, MaxDecl)
  /\ transport \in Transports
  /\ status \in Statuses
  /\ stage = "transport"
  /\ outcome = NoOutcome

Finish(o) == outcome' = o /\ stage' = "done" /\ UNCHANGED <<decl, transport, status>>

\* `from <core> import Error302`: the client package cannot be imported, no call is ever made
LoadFails ==
  /\ stage = "transport" /\ ~Importable(Variant, decl)
  /\ Finish(Unimportable)

\* http_transport.py:189-191
TransportRaise ==
  /\ stage = "transport" /\ Importable(Variant, decl)
  /\ transport = "bundled" /\ status \notin 200..299
  /\ Finish(TransportExc(Variant, status))

\* the bundled transport returns a 2xx response; a pass-through transport returns every response
TransportPass ==
  /\ stage = "transport" /\ Importable(Variant, decl)
  /\ (IF transport = "pass" THEN TRUE ELSE status \in 200..299)
  /\ stage' = "match" /\ UNCHANGED <<decl, transport, status, outcome>>

\* `case <code>:` - `return ...` for a 2xx key, `raise <Alias>(response=response)` for any other
CaseDeclared(c) ==
  /\ stage = "match" /\ c \in Codes(decl) /\ c = status
  /\ Finish(DeclaredOutcome(Variant, status))

\* `case` for a range key "4XX": the generator emits none (as_is); variant "fixed" dispatches it
CaseRange(r) ==
  /\ stage = "match" /\ r \in Ranges(decl) /\ status \div 100 = r
  /\ RangeHit(Variant, decl, status)
  /\ Finish(RangeOutcome(status))

\* `case _:  # Default response`
CaseDefault ==
  /\ stage = "match" /\ ~DeclaredHit(decl, status) /\ ~RangeHit(Variant, decl, status)
  /\ HasDefault(decl)
  /\ Finish(DefaultOutcome(Variant, decl, status))

\* `case _:` - final catch-all, emitted iff no default response is declared
CaseCatchAll ==
  /\ stage = "match" /\ ~DeclaredHit(decl, status) /\ ~RangeHit(Variant, decl, status)
  /\ ~HasDefault(decl)
  /\ Finish(CatchAllOutcome(Variant, status))

DeclSeq == SetToSeq(decl)

\* constant quantifier bounds: TLC keeps CaseDeclared / CaseRange as named sub-actions (coverage)
MemberCodes  == Codes(Members)
MemberRanges == Ranges(Members)

Judge ==
  /\ stage = "done"
  /\ stage' = "judged" /\ UNCHANGED <<decl, transport, status, outcome>>
  /\ LET fs == Failures(decl, transport, status, outcome)
     IN  (Emit /\ fs # {}) =>
            PrintT("DESIGN " \o ToJson([decl |-> DeclSeq, transport |-> transport, status |-> status,
                                        kind |-> outcome.kind, fails |-> SetToSeq(fs)]))

Next ==
  \/ LoadFails \/ TransportRaise \/ TransportPass
  \/ \E c \in MemberCodes : CaseDeclared(c)
  \/ \E r \in MemberRanges : CaseRange(r)
  \/ CaseDefault \/ CaseCatchAll
  \/ Judge

Spec == Init /\ [][Next]_vars

\* ---------------------------------------------------------------------------------------------
\* invariants

Finished == stage \in {"done", "judged"}

TypeOK ==
  /\ stage \in {"transport", "match", "done", "judged"}
  /\ transport \in Transports /\ status \in Statuses /\ WellFormed(decl)
  /\ outcome.kind \in {"none", "return", "raise", "unimportable"}
  /\ outcome.mro \subseteq Names
  /\ (Finished <=> outcome.kind # "none")

\* the machine's actions compose to the constant-level function the trace monitor compares the real code with
MachineIsModel == Finished => outcome = ModelOutcome(Variant, decl, transport, status)

\* the judge and the property as stated are the same predicate
JudgeAgrees ==
  (Finished /\ outcome.kind # "unimportable") =>
      (Holds(status, outcome) <=> Failures(decl, transport, status, outcome) = {})

\* the property, clause by clause (names as in DESIGN.md appendix F)
Judged == Finished /\ outcome.kind # "unimportable" /\ status \notin 200..299
NonSuccessRaises         == Judged => outcome.kind = "raise"
RaisedIsHTTPError        == (Judged /\ outcome.kind = "raise") => IsHTTPError(outcome)
CarriesStatusAndResponse == (Judged /\ outcome.kind = "raise") => (outcome.status = status /\ outcome.hasResponse)
ClassByRange             == (Judged /\ outcome.kind = "raise") =>
                               /\ (status \in 400..499 => IsClientError(outcome))
                               /\ (status \in 500..599 => IsServerError(outcome))
Property == (Finished /\ outcome.kind # "unimportable") => Holds(status, outcome)

\* only a response the transport handed back reaches the match statement
MatchOnlyIfPassed == stage = "match" => (transport = "pass" \/ status \in 200..299)
\* a success status the document declares is never turned into an error
DeclaredSuccessReturns == (Finished /\ outcome.kind # "unimportable" /\ status \in 200..299 /\ status \in Codes(decl)) => outcome.kind = "return"
=============================================================================
