------------------------ MODULE Trace_CycleTracker ------------------------
(***************************************************************************)
(* Total monitor for traces recorded from the real parser                  *)
(* (wrappers around unified_enter_schema / unified_exit_schema while       *)
(* load_ir_from_spec runs).  One trace per document:                       *)
(*   [id, cfg, declared, ev]   ev[i].k \in {"enter","exit","rest","end"}   *)
(* Every trace is consumed to the end and yields exactly one VERDICT line  *)
(* naming the first failing C08 clause (or "ok") plus the number of        *)
(* tracker-conformance disagreements (DRIFT, never failing).               *)
(***************************************************************************)
EXTENDS CycleTrackerCore, TLC, Json, IOUtils, SequencesExt

Traces == ndJsonDeserialize(IOEnv.TRACE_FILE)

VARIABLES tid, l, verdict, locus, ndrift, firstdrift, nrest

vars == <<tid, l, verdict, locus, ndrift, firstdrift, nrest>>

T  == Traces[tid]
Ev == T.ev
CfgOf(t) == [maxDepth     |-> t.cfg.maxDepth,
             synthetic    |-> ToSet(t.cfg.synthetic),
             hasChildren  |-> ToSet(t.cfg.hasChildren),
             hasChildItem |-> ToSet(t.cfg.hasChildItem),
             nestedOf     |-> [n \in DOMAIN t.cfg.nestedOf |-> ToSet(t.cfg.nestedOf[n])]]

\* tracker state record from a logged state (reg is not observable from outside: left empty)
StateOf(x) == [stack |-> x.stack, st |-> x.st, depth |-> x.depth, reg |-> {}]

SameSt(a, b) == \A n \in (DOMAIN a) \cup (DOMAIN b) :
                   (IF n \in DOMAIN a THEN a[n] ELSE "NS") = (IF n \in DOMAIN b THEN b[n] ELSE "NS")

EnterConforms(e) ==
  LET r == EnterF(CfgOf(T), StateOf(e.pre), e.n, e.self) IN
    /\ r.o = e.o
    /\ r.depth = e.post.depth
    /\ r.stack = e.post.stack
    /\ SameSt(r.st, e.post.st)
    /\ r.stored = e.stored

ExitConforms(e) ==
  LET r == ExitF(StateOf(e.pre), e.n) IN
    /\ r.depth = e.post.depth
    /\ r.stack = e.post.stack
    /\ SameSt(r.st, e.post.st)

\* ---- C08 clauses
RestClause(e) ==
  IF e.depth # 0 THEN "C08.rest_depth"
  ELSE IF e.stacklen # 0 THEN "C08.rest_stack"
  ELSE IF e.nip # 0 THEN "C08.rest_in_progress"
  ELSE "ok"

EndClause(e) ==
  IF e.err = "RecursionError" THEN "C08.stack_exhausted"
  ELSE IF e.err = "Timeout" THEN "C08.nonterminating"
  ELSE IF e.err # "none" THEN "diag.load_raised"   \* a visible failure: not a C08 clause, reported as DRIFT
  ELSE IF \E n \in ToSet(T.declared) : n \notin ToSet(e.present) THEN "C08.schema_absent"
  ELSE IF e.maxdepth > T.cfg.maxDepth + 6 THEN "C08.limit_ignored"  \* only named enters are tested; up to 3 anonymous wrapper frames sit between two named ones
  ELSE "ok"

Judge(e) ==
  CASE e.k = "rest" -> RestClause(e)
    [] e.k = "end"  -> EndClause(e)
    [] OTHER        -> "ok"

LocusOf(e) ==
  CASE e.k = "rest" -> [at |-> "rest", depth |-> e.depth, stacklen |-> e.stacklen]
    [] e.k = "end"  -> [at |-> "end", err |-> e.err, maxdepth |-> e.maxdepth]
    [] OTHER        -> [at |-> e.k]

Conforms(e) ==
  CASE e.k = "enter" /\ ~e.light -> EnterConforms(e)
    [] e.k = "exit" /\ ~e.light  -> ExitConforms(e)
    [] OTHER         -> TRUE

Init ==
  /\ tid \in 1..Len(Traces)
  /\ l = 1
  /\ verdict = "ok"
  /\ locus = [at |-> "none"]
  /\ ndrift = 0
  /\ firstdrift = 0
  /\ nrest = 0

Step ==
  /\ l <= Len(Ev)
  /\ LET e == Ev[l]
         j == Judge(e)
         c == Conforms(e) IN
       /\ verdict' = IF verdict # "ok" THEN verdict ELSE j
       /\ locus'   = IF verdict = "ok" /\ j # "ok" THEN LocusOf(e) ELSE locus
       /\ ndrift'  = IF c THEN ndrift ELSE ndrift + 1
       /\ firstdrift' = IF ~c /\ firstdrift = 0 THEN l ELSE firstdrift
       /\ nrest'   = IF e.k = "rest" THEN nrest + 1 ELSE nrest
  /\ l' = l + 1
  /\ UNCHANGED tid

Fin ==
  /\ l = Len(Ev) + 1
  /\ l' = l + 1
  /\ PrintT("VERDICT " \o ToJson([id |-> T.id, clause |-> verdict, locus |-> locus, ndrift |-> ndrift,
                                  firstdrift |-> firstdrift, nrest |-> nrest, nev |-> Len(Ev)]))
  /\ UNCHANGED <<tid, verdict, locus, ndrift, firstdrift, nrest>>

Next == Step \/ Fin
Spec == Init /\ [][Next]_vars
=============================================================================
