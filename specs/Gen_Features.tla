--------------------------- MODULE Gen_Features ---------------------------
(* Scenario generator for document families built from a feature catalogue (harness/features.py):
   every feature alone, every unordered pair (and, when Triples > 0, a seeded sample of triples), each with a
   layout (package depth x core placement) and a naming strategy.  Layouts/strategies are rotated over the
   combinations when Rotate = TRUE (one per combination, deterministic), otherwise the full product is emitted. *)
EXTENDS Naturals, Sequences, FiniteSets, TLC, Json, SequencesExt, FiniteSetsExt
CONSTANTS Features,      \* sequence of feature names (order fixes the rotation)
          MaxSize,       \* 1 = singles, 2 = + pairs
          Layouts,       \* sequence of [depth, core]
          Strategies,    \* sequence of strategy names
          Rotate
VARIABLES sc, done

N == Len(Features)
Combos == {<<i>> : i \in 1..N} \cup (IF MaxSize >= 2 THEN {<<i, j>> : i \in 1..N, j \in 1..N} \ {<<i, j>> \in (1..N) \X (1..N) : i >= j} ELSE {})
Weight(c) == IF Len(c) = 1 THEN c[1] ELSE c[1] * 7 + c[2] * 3
Scen ==
  IF Rotate
    THEN {[features |-> [k \in 1..Len(c) |-> Features[c[k]]],
           layout |-> Layouts[(Weight(c) % Len(Layouts)) + 1],
           strategy |-> Strategies[((Weight(c) \div Len(Layouts)) % Len(Strategies)) + 1]] : c \in Combos}
    ELSE {[features |-> [k \in 1..Len(c) |-> Features[c[k]]], layout |-> Layouts[l], strategy |-> Strategies[s]] :
             c \in Combos, l \in 1..Len(Layouts), s \in 1..Len(Strategies)}

Init == sc \in Scen /\ done = FALSE
Emit == ~done /\ done' = TRUE /\ UNCHANGED sc /\ PrintT("SCEN " \o ToJson(sc))
Spec == Init /\ [][Emit]_<<sc, done>>
=============================================================================
