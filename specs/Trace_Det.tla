------------------------------ MODULE Trace_Det ------------------------------
(***************************************************************************)
(* C09, determinism part (GenRun!Det over the history of runs):            *)
(*   Det == \A i, j : runs[i].doc = runs[j].doc /\ runs[i].cfg = runs[j].cfg*)
(*                       => runs[i].tree = runs[j].tree                    *)
(* where environments differ in hash seed, process warmth, output root and *)
(* wall-clock date.  trace == [id, runs : Seq([env, files : [path -> sha]])]*)
(***************************************************************************)
EXTENDS Naturals, Sequences, FiniteSets, TLC, Json, IOUtils, SequencesExt

Traces == ndJsonDeserialize(IOEnv.TRACE_FILE)
VARIABLES tid, done

Differing(a, b) == {p \in (DOMAIN a.files) \cup (DOMAIN b.files) :
                      ~(p \in DOMAIN a.files /\ p \in DOMAIN b.files /\ a.files[p] = b.files[p])}

Fails(t) ==
  {[clause |-> "C09.nondeterministic",
    locus |-> [env_a |-> t.runs[1].env, env_b |-> t.runs[j].env,
               first |-> CHOOSE p \in Differing(t.runs[1], t.runs[j]) : TRUE,
               ndiff |-> Cardinality(Differing(t.runs[1], t.runs[j]))]] :
       j \in {k \in 2..Len(t.runs) : Differing(t.runs[1], t.runs[k]) # {}}}

Init == tid \in 1..Len(Traces) /\ done = FALSE
Judge ==
  /\ ~done /\ done' = TRUE /\ UNCHANGED tid
  /\ LET t == Traces[tid] IN
       PrintT("VERDICT " \o ToJson([id |-> t.id, fails |-> SetToSeq(Fails(t)), nruns |-> Len(t.runs),
                                    nfiles |-> Cardinality(DOMAIN t.runs[1].files)]))
Spec == Init /\ [][Judge]_<<tid, done>>
=============================================================================
