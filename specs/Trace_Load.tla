----------------------------- MODULE Trace_Load -----------------------------
(***************************************************************************)
(* Monitor for C01 (loadability) and C12 (self-containedness): judges the  *)
(* observation events recorded for one emitted package.                    *)
(*   trace == [id, pkgtop, coretop, ev : Seq(event)]                       *)
(* Constant StdlibNames is sys.stdlib_module_names of the observing        *)
(* interpreter (generated into LoadConsts.tla by the harness).             *)
(***************************************************************************)
EXTENDS Naturals, Sequences, FiniteSets, TLC, Json, IOUtils, SequencesExt, LoadConsts

Traces == ndJsonDeserialize(IOEnv.TRACE_FILE)
VARIABLES tid, done

Runtime == {"httpx", "cattrs"}
Allowed(t) == StdlibNames \cup Runtime \cup {t.pkgtop, t.coretop}

\* PyImport!Closed for one import statement
ClosedStmt(t, e) == e.level > 0 \/ e.top \in Allowed(t)

JudgeEv(t, e) ==
  CASE e.k = "syntax" ->
         {[clause |-> "C01.syntax", locus |-> [msgclass |-> e.msgclass, origin |-> e.origin]]}
    [] e.k = "import" ->
         IF e.ok THEN {} ELSE {[clause |-> "C01.import_raises", locus |-> [exctype |-> e.exctype, msgclass |-> e.msgclass, origin |-> e.origin]]}
    [] e.k = "export" ->
         {[clause |-> "C01.export_unresolved", locus |-> [modkind |-> e.modkind]]}
    [] e.k = "entry" ->
         IF e.predicted # "none" /\ e.confirmed = "yes" /\ ~e.batch_failed
           THEN {[clause |-> "C01.entry_order", locus |-> [exctype |-> e.realtype, msgclass |-> e.realclass, entrykind |-> e.entrykind]]} ELSE {}
    [] e.k = "importstmt" ->
         IF ClosedStmt(t, e) /\ e.resolves THEN {}
         ELSE IF e.top = "pyopenapi_gen" THEN {[clause |-> "C12.generator_import", locus |-> [depth |-> e.depth, modkind |-> e.modkind]]}
         ELSE IF ~ClosedStmt(t, e) THEN {[clause |-> "C12.foreign_import", locus |-> [top |-> e.top, depth |-> e.depth, modkind |-> e.modkind, guarded |-> e.guarded]]}
         ELSE {[clause |-> IF e.level > 0 THEN "C12.unresolved_relative" ELSE "C12.unresolved_absolute",
                locus |-> [depth |-> e.depth, modkind |-> e.modkind]]}
    [] e.k = "genimport" ->
         {[clause |-> "C12.generator_import", locus |-> [depth |-> "runtime", modkind |-> "any"]]}
    [] e.k = "runtimefile" ->
         IF e.same THEN {} ELSE {[clause |-> "C12.runtime_differs", locus |-> [file |-> e.name, ast_equal |-> e.ast_equal, postprocess |-> e.postprocess]]}
    [] e.k = "smoke" ->
         IF e.ok THEN {} ELSE {[clause |-> "C12.fails_without_generator", locus |-> [exctype |-> e.exctype]]}
    [] OTHER -> {}

Fails(t) == UNION {JudgeEv(t, t.ev[i]) : i \in 1..Len(t.ev)}
Count(t, kind) == Cardinality({i \in 1..Len(t.ev) : t.ev[i].k = kind})

Init == tid \in 1..Len(Traces) /\ done = FALSE
Judge ==
  /\ ~done /\ done' = TRUE /\ UNCHANGED tid
  /\ LET t == Traces[tid] IN
       PrintT("VERDICT " \o ToJson([id |-> t.id, fails |-> SetToSeq(Fails(t)),
            nimport |-> Count(t, "import"), nstmt |-> Count(t, "importstmt"), nentry |-> Count(t, "entry"),
            nexport |-> Count(t, "exportok") + Count(t, "export"), nruntime |-> Count(t, "runtimefile")]))
Spec == Init /\ [][Judge]_<<tid, done>>
=============================================================================
