-------------------------- MODULE Trace_SharedCore --------------------------
(***************************************************************************)
(* Total monitor for C11.  One trace = one real `generate_client` call     *)
(* into a sandbox project (one edge of the history tree) together with     *)
(* what was observed before it and what a fresh interpreter observed       *)
(* after it:                                                               *)
(*   [id, depth, layout, names, pre, ev]                                   *)
(*   layout = sib / api / far (where the clients live relative to the      *)
(*   core), names = unrelated / prefix-related (observed spelling of the   *)
(*   package names: one a string prefix of another, not its parent),       *)
(*   env = what the WORLD did to the shared core earlier in this history   *)
(*   ("none", or the kind of the environment step: conflict, empty, ...,   *)
(*   reg-deleted, aliases-deleted, int-registry, ...).  Environment steps  *)
(*   themselves are not judged: only generator steps are traces; the       *)
(*   observation after the environment step is the `pre` of the next one.  *)
(*   A generator step may fail visibly (applied = FALSE): the clients that *)
(*   worked before it must still work after it.                            *)
(*   regstate = absent / file / unreadable / list (registry clause only    *)
(*   when the registry is a readable JSON object)                          *)
(*   pre = [generated, ok, served, declared, regfile, registry]            *)
(*         (the observation after the previous step of the same history)   *)
(*   ev[1]   = [k |-> "generate", client, codes, force, applied, regfile,  *)
(*              registry, aliases]                                         *)
(*   ev[2..] = [k |-> "probe", client, imports, missing, needs, visible,   *)
(*              exc]        one per client generated so far                *)
(* Every trace is consumed to the end and yields exactly one VERDICT line  *)
(* listing every failing clause with its locus.  A break is attributed to  *)
(* the step that caused it: a client that was already broken before the    *)
(* step is not reported again.                                             *)
(***************************************************************************)
EXTENDS Naturals, Sequences, FiniteSets, TLC, Json, IOUtils, SequencesExt

Traces == ndJsonDeserialize(IOEnv.TRACE_FILE)

VARIABLES tid, l, fails, nprobe, nother

vars == <<tid, l, fails, nprobe, nother>>

T   == Traces[tid]
Ev  == T.ev
G   == Ev[1]                       \* the generate event
Pre == T.pre

PreGen == ToSet(Pre.generated)
GenAfter == IF G.applied THEN PreGen \cup {G.client} ELSE PreGen
DeclOf(d, c) == IF c \in DOMAIN d THEN ToSet(d[c]) ELSE {}
DeclAfter(c) == IF G.applied /\ c = G.client THEN ToSet(G.codes) ELSE DeclOf(Pre.declared, c)

StepKind ==
  IF ~G.applied THEN "not-applied"
  ELSE IF G.client \notin PreGen THEN "first-generation"
  ELSE IF ToSet(G.codes) # DeclOf(Pre.declared, G.client) /\ ToSet(G.codes) \subseteq DeclOf(Pre.declared, G.client)
       THEN "regenerated-with-fewer-codes"
  ELSE "regenerated"

Victim(c) == IF c = G.client THEN "self" ELSE "other-client"

Locus(c, exc, what) ==
  [core_depth |-> T.depth, layout |-> T.layout, names |-> T.names, env |-> T.env, step_kind |-> StepKind, victim |-> Victim(c),
   force |-> G.force, exc |-> exc, what |-> what]

\* ---- C11.registry_lost_client: the registry file is there but does not cover a client generated so far
Covers(reg, c, codes) == c \in DOMAIN reg /\ codes \subseteq ToSet(reg[c])
PreLost(c) == Pre.regstate = "file" /\ c \in PreGen /\ ~Covers(Pre.registry, c, DeclOf(Pre.declared, c))
LostNow == IF T.depth >= 1 /\ G.regstate = "file"
           THEN {c \in GenAfter : ~Covers(G.registry, c, DeclAfter(c)) /\ ~PreLost(c)}
           ELSE {}
LostHow(c) == IF c \in DOMAIN G.registry THEN "codes-shrunk" ELSE "missing-key"

\* ---- C11.client_import_broken / C11.alias_missing, judged on the probe of one client
Broken(e)   == ~e.imports \/ Len(e.missing) > 0
Unserved(e) == ~(ToSet(e.needs) \subseteq ToSet(e.visible))
WasBroken(c)   == c \in PreGen /\ c \notin ToSet(Pre.ok)
WasUnserved(c) == c \in PreGen /\ c \notin ToSet(Pre.served)

Judge(e) ==
  CASE e.k = "generate" ->
         LET lost == LostNow IN
         IF lost = {} THEN <<>>
         ELSE LET c == CHOOSE x \in lost : \A y \in lost : Victim(y) = "other-client" => Victim(x) = "other-client" IN
              <<[clause |-> "C11.registry_lost_client", client |-> c, locus |-> Locus(c, "none", LostHow(c))]>>
    [] e.k = "probe" ->
         (IF Broken(e) /\ ~WasBroken(e.client)
          THEN <<[clause |-> "C11.client_import_broken", client |-> e.client,
                  locus |-> Locus(e.client, e.exc, IF e.imports THEN "unresolved-name" ELSE "import-raised")]>>
          ELSE <<>>)
         \o
         (IF Unserved(e) /\ ~WasUnserved(e.client)
          THEN <<[clause |-> "C11.alias_missing", client |-> e.client, locus |-> Locus(e.client, "none", "alias-class-absent")]>>
          ELSE <<>>)
    [] OTHER -> <<>>

Init ==
  /\ tid \in 1..Len(Traces)
  /\ l = 1
  /\ fails = <<>>
  /\ nprobe = 0
  /\ nother = 0

Step ==
  /\ l <= Len(Ev)
  /\ LET e == Ev[l] IN
       /\ fails' = fails \o Judge(e)
       /\ nprobe' = IF e.k = "probe" THEN nprobe + 1 ELSE nprobe
       /\ nother' = IF e.k = "probe" /\ e.client # G.client /\ G.applied THEN nother + 1 ELSE nother
  /\ l' = l + 1
  /\ UNCHANGED tid

Fin ==
  /\ l = Len(Ev) + 1
  /\ l' = l + 1
  /\ PrintT("VERDICT " \o ToJson([id |-> T.id, fails |-> fails, nprobe |-> nprobe, nother |-> nother,
                                  kind |-> StepKind, regchecked |-> (T.depth >= 1 /\ G.regstate = "file")]))
  /\ UNCHANGED <<tid, fails, nprobe, nother>>

Next == Step \/ Fin
Spec == Init /\ [][Next]_vars
=============================================================================
