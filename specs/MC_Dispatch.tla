---------------------------- MODULE MC_Dispatch ----------------------------
(* Constants of the exhaustive design check of Dispatch.tla (C06):
   declarations of <= MaxDecl members drawn from DispatchCore!Universe
   {200, 204, 302, 404, 410 with body, 418, 500, default with / without content, 4XX, 5XX}, each with a choice of the
   first listed response,
   x one representative per status class, class border and declared code (MCStatusReps) or every status 100..599
   x the body the server sends (MCBodies) x transport in {bundled, pass}. *)
EXTENDS Dispatch

MCMembers    == Universe
MCStatusReps == {100, 199, 200, 204, 299, 300, 302, 399, 400, 404, 410, 418, 499, 500, 503, 599}
MCStatusAll  == 100..599
MCBodies     == Bodies
MCBodyStatuses == {100, 302, 404, 410, 418, 500, 503}   \* one per non-2xx class plus every numeric key of the family
MCBodyObject == {"object"}
MCTransports == {"bundled", "pass"}
=============================================================================
