---------------------------- MODULE MC_Dispatch ----------------------------
(* Constants of the exhaustive design check of Dispatch.tla (C06):
   declarations of <= MaxDecl members drawn from DispatchCore!Universe
   {200, 204, 302, 404, 418, 500, default with / without content, 4XX, 5XX}
   x one representative per status class and class border (MCStatusReps) or every status 100..599 (MCStatusAll)
   x transport in {bundled, pass}. *)
EXTENDS Dispatch

MCMembers    == Universe
MCStatusReps == {100, 199, 200, 204, 299, 300, 302, 399, 400, 404, 418, 499, 500, 503, 599}
MCStatusAll  == 100..599
MCTransports == {"bundled", "pass"}
=============================================================================
