---------------------------- MODULE MC_Dispatch ----------------------------
(* Constants of the exhaustive design check of Dispatch.tla (C06):
   declarations of <= MaxDecl members drawn from DispatchCore!Universe
   {200, 204, 100, 101, 103 with body, 301 with body, 302, 304, 404, 410 with body, 419, 500, 520, default with / without content, 4XX, 5XX}, each with a choice of the
   first listed response,
   x one representative per status class, class border and declared code (MCStatusReps) or every status 100..599
   x the body the server sends (MCBodies) x transport in {bundled, pass}. *)
EXTENDS Dispatch

MCMembers    == Universe
\* borders of every class, every numeric key of the family, registered and unregistered (199, 299, 306, 399, 419, 430, 499,
\* 509, 520, 599 are not in http.HTTPStatus) codes
MCStatusReps == {100, 101, 103, 199, 200, 204, 299, 300, 301, 302, 304, 306, 399, 400, 404, 410, 419, 430, 499, 500, 503, 509, 520, 599}
MCStatusAll  == 100..599
MCBodies     == Bodies
MCBodyStatuses == MCStatusReps \ {200, 204, 299}   \* every non-2xx representative is answered with every body kind
MCBodyStatusesCore == {100, 101, 103, 301, 302, 304, 404, 410, 419, 500, 503, 520}   \* quick: one per non-2xx class plus every numeric key
MCBodyClasses  == {"object", "array", "empty"}      \* quick: one body per way the model treats it (parses / JSON that does not fit / not JSON)
MCBodyObject == {"object"}
MCTransports == {"bundled", "pass"}
=============================================================================
