----------------------------- MODULE MC_Stream -----------------------------
(* Design check of Stream.tla over the C18 stream family: every (stream, chunking) pair is one initial state.
   cfg:  CONSTANTS Streams <- MCStreams  Tier = 1  MaxFullLen = 12  MaxCuts = 2 *)
EXTENDS Stream, StreamFamily

MCStreams == Family
=============================================================================
