---------------------------- MODULE MC_WireSched ----------------------------
(***************************************************************************)
(* C04 under concurrency: "awaiting the generated method issues exactly    *)
(* one request carrying the CALLER's arguments" must hold while other      *)
(* calls are in flight on the same client - the schedule is a dimension.   *)
(*                                                                         *)
(* Calls share one client, i.e. one HttpxTransport.  For the purposes of   *)
(* the schedule a call of Wire.tla is reduced to the request it assembled  *)
(* (Wire!Send hands `method, url, params, json/data/files, headers` to     *)
(* transport.request): the token Own(c).  The transport then               *)
(*                                                                         *)
(*   Enter(c)    takes the arguments (http_transport.py request():         *)
(*               `request_args = {k: v for k, v in kwargs.items() ...}`)   *)
(*   Suspend(c)  awaits the auth plug-in (`await self._prepare_headers`):  *)
(*               the only point where the event loop may run OTHER calls   *)
(*               (a plug-in that really awaits, e.g. OAuth2Auth with a     *)
(*               refresh callback doing I/O)                               *)
(*   Resume(c)   the plug-in returns                                       *)
(*   Put(c)      `await self._client.request(method, url, **request_args)` *)
(*                                                                         *)
(* Where = "frame": the arguments live in the coroutine's own frame (the   *)
(* code as it is) - PerCallFidelity is an INVARIANT for every interleaving.*)
(* Where = "instance": they live in an attribute of the shared transport   *)
(* object - the invariant MUST fail (checked as a negative run: the model  *)
(* can tell the designs apart, the invariant is not vacuous).              *)
(* The conformance side is the `concurrent` value mode of harness/         *)
(* obs_c04.py: pairs of calls on one bundled transport whose OAuth2 plug-in*)
(* suspends the first call until the second has completed; every call is   *)
(* judged by the unchanged Trace_Wire monitor.                             *)
(***************************************************************************)
EXTENDS Naturals, FiniteSets, TLC

CONSTANTS Calls,      \* set of call identifiers sharing one client
          Where       \* "frame" | "instance"

VARIABLES pc,         \* call -> "idle" | "entered" | "suspended" | "resumed" | "sent"
          frame,      \* call -> the arguments in the call's own frame ("none" before Enter)
          slot,       \* the transport object's attribute (used by Where = "instance" only)
          wire        \* call -> what went out for this call ("none" before Put)
vars == <<pc, frame, slot, wire>>

Own(c) == c          \* the request the call assembled from its caller's arguments: a token per call

Init ==
  /\ pc = [c \in Calls |-> "idle"]
  /\ frame = [c \in Calls |-> "none"]
  /\ slot = "none"
  /\ wire = [c \in Calls |-> "none"]

Enter(c) ==
  /\ pc[c] = "idle"
  /\ pc' = [pc EXCEPT ![c] = "entered"]
  /\ frame' = [frame EXCEPT ![c] = Own(c)]
  /\ slot' = IF Where = "instance" THEN Own(c) ELSE slot
  /\ UNCHANGED wire

\* the await inside the auth plug-in: between Suspend(c) and Resume(c) any other call may take any number of steps
Suspend(c) == pc[c] = "entered" /\ pc' = [pc EXCEPT ![c] = "suspended"] /\ UNCHANGED <<frame, slot, wire>>
Resume(c)  == pc[c] = "suspended" /\ pc' = [pc EXCEPT ![c] = "resumed"] /\ UNCHANGED <<frame, slot, wire>>

Put(c) ==
  /\ pc[c] = "resumed"
  /\ pc' = [pc EXCEPT ![c] = "sent"]
  /\ wire' = [wire EXCEPT ![c] = IF Where = "instance" THEN slot ELSE frame[c]]
  /\ UNCHANGED <<frame, slot>>

Next == \E c \in Calls : Enter(c) \/ Suspend(c) \/ Resume(c) \/ Put(c)
Spec == Init /\ [][Next]_vars

TypeOK == pc \in [Calls -> {"idle", "entered", "suspended", "resumed", "sent"}]
\* C04 per call, whatever the other calls do meanwhile
PerCallFidelity == \A c \in Calls : pc[c] = "sent" => wire[c] = Own(c)
\* exactly one request per awaited call
ExactlyOne == \A c \in Calls : (pc[c] = "sent") = (wire[c] # "none")
\* the schedule the observer realises (first call suspended until the second is sent) is one of the explored interleavings
ObserverScheduleReached == ~(\E a, b \in Calls : a # b /\ pc[a] = "suspended" /\ pc[b] = "sent")
=============================================================================
