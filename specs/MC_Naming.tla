----------------------------- MODULE MC_Naming -----------------------------
(***************************************************************************)
(* Design check of the C20 allocator: a total sanitiser plus a             *)
(* de-collision policy, for every allocation order of Names in every       *)
(* namespace of NsIds.                                                     *)
(*   Policy = "loop"    - suffix until free: refines Derive, invariants    *)
(*                        hold;                                            *)
(*   Policy = "counter" - per-base counter that ignores what was handed    *)
(*                        out (EndpointsEmitter's operation de-dup): TLC   *)
(*                        finds the order  x, X, x_2  that breaks          *)
(*                        Injective - the specification-level statement of *)
(*                        the [get, get, get_2] finding.                   *)
(***************************************************************************)
EXTENDS Naming, NamingConsts

CONSTANTS Names, NsIds, Policy, Alphabet, MaxLen

Alloc(n, s) == IF Policy = "loop" THEN AllocLoop(n, s) ELSE AllocCounter(n, s)

Allocate(n, s) == /\ s \notin DOMAIN NsOf(n)
                  /\ Put(n, s, Alloc(n, s))

Init == NamingInit
Next == \E n \in NsIds, s \in Names : Allocate(n, s)
Spec == Init /\ [][Next]_ns /\ WF_ns(Next)

Requested == [n \in NsIds |-> Names]

\* every step of the design is a legal Derive of Naming
Refines == [][\E n \in NsIds, s \in Names : Derive(n, s, Alloc(n, s))]_ns
Total   == <>[]TotalFor(Requested)

\* the design's sanitiser is total and valid on every short string and on every keyword
ShortStrings == UNION {[1..k -> Alphabet] : k \in 0..MaxLen}
ASSUME SanitizeTotal == \A s \in ShortStrings \cup Keywords : ValidName(Sanitize(s))
=============================================================================
