--------------------------- MODULE Trace_TextSink ---------------------------
(* C15 monitor: one trace per (position, payload) with what was observed on the generated package:
   [id, pos, classes (hostile classes in the payload), culprit, accepted, syntax_ok, skeleton_same, literal ("same"|"changed"|"dropped"|"na")] *)
EXTENDS Naturals, Sequences, FiniteSets, TLC, Json, IOUtils, SequencesExt
Traces == ndJsonDeserialize(IOEnv.TRACE_FILE)
VARIABLES tid, done
Clause(t) ==
  IF ~t.accepted THEN "ok"                       \* generation failed visibly
  ELSE IF ~t.syntax_ok THEN "C15.syntax_error"
  ELSE IF ~t.skeleton_same THEN "C15.structure_changed"
  ELSE IF t.literal = "changed" THEN "C15.literal_changed"
  ELSE IF t.literal = "dropped" THEN "C15.text_dropped"
  ELSE "ok"
Init == tid \in 1..Len(Traces) /\ done = FALSE
Judge == /\ ~done /\ done' = TRUE /\ UNCHANGED tid
         /\ LET t == Traces[tid] IN
              PrintT("VERDICT " \o ToJson([id |-> t.id, clause |-> Clause(t), locus |-> [pos |-> t.pos, culprit |-> t.culprit, where |-> t.where, run |-> t.run]]))
Spec == Init /\ [][Judge]_<<tid, done>>
=============================================================================
