----------------------------- MODULE Gen_Codec -----------------------------
(***************************************************************************)
(* Scenario generator AND design check for the codec laws (C16).           *)
(* Every scenario is a class table {A, (D), (E)} with top type A:          *)
(*   single : A has ONE field whose type ranges over every type tree with  *)
(*            <= Wraps wrappers (list / dict / Optional) over a leaf or    *)
(*            the nested class D (which may nest E), x key style of A and  *)
(*            of D x required / optional                                    *)
(*   pair   : A has TWO fields (types from PairTypes) x every key style    *)
(*            (keyword-like, camelCase, colliding after case-fold,         *)
(*            swapped, partially mapped, identity Meta) x required pattern *)
(*   hier   : class HIERARCHIES (extends chains of 2-3 classes, overrides,  *)
(*            inherited / extended / own Meta, mixin)                       *)
(*   where  : WHERE the classes are declared (module level, nested in a     *)
(*            class, local to a function: dotted qualnames)                 *)
(*   cycle  : the class graph is CYCLIC: two or three mutually recursive   *)
(*            classes linked through list / dict / direct / Optional       *)
(*            fields, renamed keys on every class, every class as entry    *)
(* For each scenario TLC checks the laws on the reference codec (invariant *)
(* Laws) and prints one SCEN line: classes, top, instances (with their     *)
(* decoded values) and the non-conforming mutants.                         *)
(***************************************************************************)
EXTENDS Codec, Json
CONSTANTS LeafSet,     \* leaf types in the family
          Wraps,       \* max number of wrapper levels in the single family (2 or 3)
          AStyles, DStyles, PairStyles,
          PairLeafs,   \* leaf types used in the pair family
          CycleKinds,  \* link kinds of the 2-class cycles: subset of {"list", "dict", "direct", "opt"}
          Cycle3Kinds, \* link kinds of the 3-class cycles
          CycleStyles, \* key styles of the classes on a cycle
          CycleMixed,  \* TRUE: only 2-cycles whose classes use two different key styles (quick-tier stratum)
          HierStyles,  \* key styles of the base class of a hierarchy
          HierMetas,   \* Meta modes of the subclasses: subset of {"inherit", "extend", "own"}
          HierOverrides, \* subset of {"none", "type", "default"}
          HierDepths,  \* subset of {2, 3}: length of the inheritance chain
          HierMixins,  \* subset of BOOLEAN: a field-less mixin among the bases
          HierTops,    \* subset of {"sub", "base_then_sub", "sub_then_base"}
          Wheres,      \* declaration places: subset of {"module", "nested", "local"}
          Families     \* subset of {"single", "pair", "cycle", "hier", "where"}
VARIABLES scen, done
gvars == <<scen, done, hooks, hist, last>>

EDef(style) == [meta |-> StyleMeta[style], extends |-> "", pyname |-> "", where |-> "module",
                fields |-> <<Fld(PyName("E", style, 1), WireName("E", style, 1), LeafT("int"), TRUE)>>]
DDef(style, withE) ==
  [meta |-> StyleMeta[style], extends |-> "", pyname |-> "", where |-> "module",
   fields |-> <<Fld(PyName("D", style, 1), WireName("D", style, 1), LeafT("int"), TRUE),
                Fld(PyName("D", style, 2), WireName("D", style, 2), LeafT("str"), FALSE)>>
              \o (IF withE THEN <<Fld(PyName("D", style, 3), WireName("D", style, 3), ClsT("E"), TRUE)>> ELSE <<>>)]
ADef(style, tys, reqs) ==
  [meta |-> StyleMeta[style], extends |-> "", pyname |-> "", where |-> "module",
   fields |-> [i \in 1..Len(tys) |-> Fld(PyName("A", style, i), WireName("A", style, i), tys[i], reqs[i])]]

RECURSIVE UsesD(_)
UsesD(T) == CASE T.k = "leaf" -> FALSE [] T.k = "cls" -> TRUE [] OTHER -> UsesD(T.of)

Table(a, usesD, dstyle, withE) ==
  [n \in {"A"} \cup (IF usesD THEN {"D"} ELSE {}) \cup (IF usesD /\ withE THEN {"E"} ELSE {}) |->
     IF n = "A" THEN a ELSE IF n = "D" THEN DDef(dstyle, withE) ELSE EDef(IF dstyle = "kw" THEN "kw" ELSE "camel")]

Ty0 == {LeafT(p) : p \in LeafSet} \cup {ClsT("D")}
RECURSIVE TyUpTo(_)
TyUpTo(w) == IF w = 0 THEN Ty0 ELSE TyUpTo(w - 1) \cup Wrap(TyUpTo(w - 1))

Single ==
  {[classes |-> Table(ADef(as, <<ty>>, <<rq>>), UsesD(ty), ds, we), top |-> ClsT("A"), fam |-> "single"] :
     as \in AStyles, rq \in BOOLEAN,
     ty \in {t \in TyUpTo(Wraps) : ~UsesD(t)}, ds \in {"camel"}, we \in {FALSE}}
  \cup
  {[classes |-> Table(ADef(as, <<ty>>, <<rq>>), TRUE, ds, we), top |-> ClsT("A"), fam |-> "single"] :
     as \in AStyles, rq \in BOOLEAN,
     ty \in {t \in TyUpTo(Wraps) : UsesD(t)}, ds \in DStyles, we \in BOOLEAN}

PairTypes == {LeafT(p) : p \in PairLeafs} \cup {OptT(LeafT("date")), ListT(ClsT("D")), ClsT("D"), DictT(LeafT("bytes"))}
Pair ==
  {[classes |-> Table(ADef(as, <<t1, t2>>, rq), UsesD(t1) \/ UsesD(t2), "swap", FALSE), top |-> ClsT("A"), fam |-> "pair"] :
     as \in PairStyles, t1 \in PairTypes, t2 \in PairTypes, rq \in {<<TRUE, TRUE>>, <<TRUE, FALSE>>, <<FALSE, FALSE>>}}

\* cycle: the class GRAPH is cyclic - P -> Q -> P and P -> Q -> R -> P through list / dict / direct / Optional links
\* (never all direct: no finite instance), renamed wire keys on every class, every class of the cycle as entry class
LinkTy(kind, to) == CASE kind = "list" -> ListT(ClsT(to)) [] kind = "dict" -> DictT(ClsT(to)) [] OTHER -> ClsT(to)
CDef(role, style, to, kind) ==
  [meta |-> StyleMeta[style], extends |-> "", pyname |-> "", where |-> "module",
   fields |-> <<Fld(PyName(role, style, 1), WireName(role, style, 1), LeafT("str"), TRUE),
                Fld(PyName(role, style, 2), WireName(role, style, 2), LinkTy(kind, to), kind # "opt")>>]
Cycle2 ==
  UNION {IF (k1 = "direct" /\ k2 = "direct") \/ (CycleMixed /\ sp = sq) THEN {} ELSE
           {[classes |-> [n \in {"P", "Q"} |-> IF n = "P" THEN CDef("A", sp, "Q", k1) ELSE CDef("D", sq, "P", k2)],
             top |-> ClsT(t), fam |-> "cycle"] : t \in {"P", "Q"}} :
         k1 \in CycleKinds, k2 \in CycleKinds, sp \in CycleStyles, sq \in CycleStyles}
Cycle3 ==
  UNION {IF k1 = "direct" /\ k2 = "direct" /\ k3 = "direct" THEN {} ELSE
           {[classes |-> [n \in {"P", "Q", "R"} |-> IF n = "P" THEN CDef("A", "camel", "Q", k1)
                                                   ELSE IF n = "Q" THEN CDef("D", "kw", "R", k2) ELSE CDef("E", "camel", "P", k3)],
             top |-> ClsT(t), fam |-> "cycle"] : t \in {"P", "Q", "R"}} :
         k1 \in Cycle3Kinds, k2 \in Cycle3Kinds, k3 \in Cycle3Kinds}

\* hier: class HIERARCHIES.  H (base, style sb: a required str and an optional int) <- Hs (adds an optional date;
\* may override H's int field with another type, or H's required str with an optional one; Meta inherited /
\* extended / own; optionally a field-less mixin) <- Hss (adds an optional bool).  Top = the most derived class,
\* or a wrapper W holding a base instance and a derived instance in either field order (the order in which the
\* two classes are first converted).
OwnStyle(mode) == IF mode = "inherit" THEN "plain" ELSE "camel"
HDef(sb) == [meta |-> StyleMeta[sb], extends |-> "", pyname |-> "", where |-> "module",
             fields |-> <<Fld(PyName("A", sb, 1), WireName("A", sb, 1), LeafT("str"), TRUE),
                          Fld(PyName("A", sb, 2), WireName("A", sb, 2), LeafT("int"), FALSE)>>]
HsDef(sb, mode, ov, mx) ==
  [meta |-> mode, extends |-> "H", pyname |-> "", where |-> "module", mixin |-> mx,
   fields |-> <<Fld(PyName("D", OwnStyle(mode), 1), WireName("D", OwnStyle(mode), 1), LeafT("date"), FALSE)>>
              \o (IF ov = "type" THEN <<Fld(PyName("A", sb, 2), WireName("A", sb, 2), LeafT("str"), FALSE)>>
                  ELSE IF ov = "default" THEN <<Fld(PyName("A", sb, 1), WireName("A", sb, 1), LeafT("str"), FALSE)>>
                  ELSE <<>>)]
HssDef(mode) ==
  [meta |-> mode, extends |-> "Hs", pyname |-> "", where |-> "module", mixin |-> FALSE,
   fields |-> <<Fld(PyName("E", OwnStyle(mode), 1), WireName("E", OwnStyle(mode), 1), LeafT("bool"), FALSE)>>]
WDef(first, second) ==
  [meta |-> "none", extends |-> "", pyname |-> "", where |-> "module", fields |-> <<Fld("first", "first", ClsT(first), TRUE), Fld("second", "second", ClsT(second), TRUE)>>]
Hier ==
  {[classes |-> [n \in {"H", "Hs"} \cup (IF d = 3 THEN {"Hss"} ELSE {}) \cup (IF tp = "sub" THEN {} ELSE {"W"}) |->
                   IF n = "H" THEN HDef(sb) ELSE IF n = "Hs" THEN HsDef(sb, mode, ov, mx) ELSE IF n = "Hss" THEN HssDef(mode)
                   ELSE (LET leaf == IF d = 3 THEN "Hss" ELSE "Hs"
                         IN IF tp = "base_then_sub" THEN WDef("H", leaf) ELSE WDef(leaf, "H"))],
     top |-> ClsT(IF tp = "sub" THEN (IF d = 3 THEN "Hss" ELSE "Hs") ELSE "W"), fam |-> "hier"] :
     sb \in HierStyles, mode \in HierMetas, ov \in HierOverrides, mx \in HierMixins, d \in HierDepths, tp \in HierTops}

\* where: the declaration place of the top class and of the nested class (qualnames with dots / <locals>), over
\* field types that put the nested class at depth (direct, list item, dict value, optional) and a leaf
At(c, w) == [c EXCEPT !.where = w]
WhereTypes == {ClsT("D"), ListT(ClsT("D")), DictT(ClsT("D")), OptT(ClsT("D")), OptT(ListT(ClsT("D"))), LeafT("int"), ListT(LeafT("date"))}
Where ==
  {[classes |-> [n \in {"A"} \cup (IF UsesD(ty) THEN {"D", "E"} ELSE {}) |->
                   IF n = "A" THEN At(ADef("camel", <<ty>>, <<rq>>), wa)
                   ELSE IF n = "D" THEN At(DDef("kw", TRUE), wd) ELSE At(EDef("camel"), wd)],
     top |-> ClsT("A"), fam |-> "where"] :
     ty \in WhereTypes, rq \in BOOLEAN, wa \in Wheres, wd \in Wheres}

Scenarios == (IF "where" \in Families THEN Where ELSE {}) \cup (IF "single" \in Families THEN Single ELSE {}) \cup (IF "pair" \in Families THEN Pair ELSE {})
             \cup (IF "cycle" \in Families THEN Cycle2 \cup Cycle3 ELSE {})
             \cup (IF "hier" \in Families THEN Hier ELSE {})

cl == scen.classes        \* as declared (own fields, extends)
fcl == Flat(scen.classes) \* hierarchies resolved: what the reference semantics works on
Top == scen.top

\* the design check: the reference codec obeys the laws on every generated type tree, every instance conforms,
\* every mutant is rejected at its own position, and the key maps are bijections
Laws ==
  /\ \A n \in DOMAIN cl : KeysBijective(cl, n) /\ MetaConsistent(cl, n)
  /\ LET f == fcl IN
       /\ \A j \in Instances(f, Top) : Conforms(f, j, Top)
       /\ DecEnc(f, Top)
       /\ EncDec(f, Top)
       /\ MutantsRejected(f, Top)

Init == scen \in Scenarios /\ done = FALSE /\ RegInit
Emit ==
  /\ ~done
  /\ done' = TRUE
  /\ UNCHANGED <<scen, hooks, hist, last>>
  /\ PrintT("SCEN " \o ToJson([classes |-> WithBuild(cl), top |-> Top, fam |-> scen.fam, depth |-> TyDepth(fcl, Top), cyclic |-> CyclicTable(fcl),
                               inst |-> SetToSeq({[j |-> j, v |-> Decode(fcl, Top, j)] : j \in Instances(fcl, Top)}),
                               bad |-> SetToSeq(Mutants(fcl, Top))]))
Spec == Init /\ [][Emit]_gvars
=============================================================================
