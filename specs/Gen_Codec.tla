----------------------------- MODULE Gen_Codec -----------------------------
(***************************************************************************)
(* Scenario generator AND design check for the codec laws (C16).           *)
(* Every scenario is a class table {A, (D), (E)} with top type A:          *)
(*   single : A has ONE field whose type ranges over every type tree with  *)
(*            <= Wraps wrappers (list / dict / Optional) over a leaf or    *)
(*            the nested class D (which may nest E), x key style of A and  *)
(*            of D x required / optional                                    *)
(*   pair   : A has TWO fields (types from PairTypes) x every key style    *)
(*            (keyword-like, camelCase, colliding after case-fold,         *)
(*            swapped, partially mapped, identity Meta) x required pattern *)
(* For each scenario TLC checks the laws on the reference codec (invariant *)
(* Laws) and prints one SCEN line: classes, top, instances (with their     *)
(* decoded values) and the non-conforming mutants.                         *)
(***************************************************************************)
EXTENDS Codec, Json
CONSTANTS LeafSet,     \* leaf types in the family
          Wraps,       \* max number of wrapper levels in the single family (2 or 3)
          AStyles, DStyles, PairStyles,
          PairLeafs,   \* leaf types used in the pair family
          Families     \* subset of {"single", "pair"}
VARIABLES scen, done
gvars == <<scen, done, hooks, hist, last>>

EDef(style) == [meta |-> StyleMeta[style],
                fields |-> <<Fld(PyName("E", style, 1), WireName("E", style, 1), LeafT("int"), TRUE)>>]
DDef(style, withE) ==
  [meta |-> StyleMeta[style],
   fields |-> <<Fld(PyName("D", style, 1), WireName("D", style, 1), LeafT("int"), TRUE),
                Fld(PyName("D", style, 2), WireName("D", style, 2), LeafT("str"), FALSE)>>
              \o (IF withE THEN <<Fld(PyName("D", style, 3), WireName("D", style, 3), ClsT("E"), TRUE)>> ELSE <<>>)]
ADef(style, tys, reqs) ==
  [meta |-> StyleMeta[style],
   fields |-> [i \in 1..Len(tys) |-> Fld(PyName("A", style, i), WireName("A", style, i), tys[i], reqs[i])]]

RECURSIVE UsesD(_)
UsesD(T) == CASE T.k = "leaf" -> FALSE [] T.k = "cls" -> TRUE [] OTHER -> UsesD(T.of)

Table(a, usesD, dstyle, withE) ==
  [n \in {"A"} \cup (IF usesD THEN {"D"} ELSE {}) \cup (IF usesD /\ withE THEN {"E"} ELSE {}) |->
     IF n = "A" THEN a ELSE IF n = "D" THEN DDef(dstyle, withE) ELSE EDef(IF dstyle = "kw" THEN "kw" ELSE "camel")]

Ty0 == {LeafT(p) : p \in LeafSet} \cup {ClsT("D")}
RECURSIVE TyUpTo(_)
TyUpTo(w) == IF w = 0 THEN Ty0 ELSE TyUpTo(w - 1) \cup Wrap(TyUpTo(w - 1))

Single ==
  {[classes |-> Table(ADef(as, <<ty>>, <<rq>>), UsesD(ty), ds, we), top |-> ClsT("A"), fam |-> "single"] :
     as \in AStyles, rq \in BOOLEAN,
     ty \in {t \in TyUpTo(Wraps) : ~UsesD(t)}, ds \in {"camel"}, we \in {FALSE}}
  \cup
  {[classes |-> Table(ADef(as, <<ty>>, <<rq>>), TRUE, ds, we), top |-> ClsT("A"), fam |-> "single"] :
     as \in AStyles, rq \in BOOLEAN,
     ty \in {t \in TyUpTo(Wraps) : UsesD(t)}, ds \in DStyles, we \in BOOLEAN}

PairTypes == {LeafT(p) : p \in PairLeafs} \cup {OptT(LeafT("date")), ListT(ClsT("D")), ClsT("D"), DictT(LeafT("bytes"))}
Pair ==
  {[classes |-> Table(ADef(as, <<t1, t2>>, rq), UsesD(t1) \/ UsesD(t2), "swap", FALSE), top |-> ClsT("A"), fam |-> "pair"] :
     as \in PairStyles, t1 \in PairTypes, t2 \in PairTypes, rq \in {<<TRUE, TRUE>>, <<TRUE, FALSE>>, <<FALSE, FALSE>>}}

Scenarios == (IF "single" \in Families THEN Single ELSE {}) \cup (IF "pair" \in Families THEN Pair ELSE {})

cl == scen.classes
Top == scen.top

\* the design check: the reference codec obeys the laws on every generated type tree, every instance conforms,
\* every mutant is rejected at its own position, and the key maps are bijections
Laws ==
  /\ \A n \in DOMAIN cl : KeysBijective(cl[n]) /\ MetaConsistent(cl[n])
  /\ \A j \in Instances(cl, Top) : Conforms(cl, j, Top)
  /\ DecEnc(cl, Top)
  /\ EncDec(cl, Top)
  /\ MutantsRejected(cl, Top)

Init == scen \in Scenarios /\ done = FALSE /\ RegInit
Emit ==
  /\ ~done
  /\ done' = TRUE
  /\ UNCHANGED <<scen, hooks, hist, last>>
  /\ PrintT("SCEN " \o ToJson([classes |-> cl, top |-> Top, fam |-> scen.fam, depth |-> TyDepth(cl, Top),
                               inst |-> SetToSeq({[j |-> j, v |-> Decode(cl, Top, j)] : j \in Instances(cl, Top)}),
                               bad |-> SetToSeq(Mutants(cl, Top))]))
Spec == Init /\ [][Emit]_gvars
=============================================================================
