----------------------------- MODULE LoadConsts -----------------------------
(* Placeholder: the harness overwrites this module in the scratch copy with
   sys.stdlib_module_names of the observing interpreter. *)
StdlibNames == {"os", "sys", "typing", "dataclasses", "json"}
=============================================================================
