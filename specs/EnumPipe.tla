------------------------------ MODULE EnumPipe ------------------------------
(***************************************************************************)
(* X06 - the enum pipeline: from `enum:` keywords and discriminator        *)
(* mappings of an OpenAPI document to the Enum classes of the emitted      *)
(* client and the annotations that refer to them.                          *)
(*                                                                         *)
(* Part 1 (independent of the generator)                                   *)
(*   documents as data (owners = declared enum / object / union schemas    *)
(*   and operations; properties and parameters that carry an enum inline,  *)
(*   on their array items, on their map values, or through $ref), the JSON *)
(*   values a declaration admits (DeclSet), the positions of a document,   *)
(*   and the statements a user of the emitted client relies on, stated on  *)
(*   an OBSERVATION (registry of Enum classes + annotation of every        *)
(*   position + round trips), whoever produced it:                         *)
(*     Values Members RightEnum Shared Named RoundTrip Stable              *)
(* Part 2 (implementation-shaped, "as-is")                                 *)
(*   the pipeline as operators that PRODUCE an observation from a document *)
(*   (first-come registry keyed by derived names, str()/int() coercion,    *)
(*   member-name suffixing, "{value}" literals, discriminator unification).*)
(*   Derived names are inputs (Names: computed by the harness with plain   *)
(*   string operations); disagreement with the real generator is DRIFT.    *)
(* Part 3  the bounded family of documents.                                *)
(***************************************************************************)
EXTENDS Naturals, Sequences, FiniteSets, SequencesExt, FiniteSetsExt, TLC

(* ======================================================================= *)
(* Part 1a: documents                                                      *)
(* ======================================================================= *)
\* a JSON value: t = s(tring) i(nteger) f(loat) b(oolean) n(ull); v = its text (abstract tokens such as <euro> stand for
\* characters that TLA+ source / cfg files should not contain)
V(t, v) == [t |-> t, v |-> v]
S(v) == V("s", v)
I(v) == V("i", v)
Null == V("n", "")

\* an enum declaration: `type`, the `enum` list in document order, `nullable`
D(base, vals, nul) == [base |-> base, vals |-> vals, nul |-> nul]
NoDecl == D("", <<>>, FALSE)

\* a property of an object schema / a parameter of an operation
\*   where: direct | item (array items) | mapval (additionalProperties)
\*   src  : inline (decl is the enum) | ref ($ref to the declared enum `to`) | plain (a string, no enum) | objref ($ref to an object / union)
PInline(key, where, decl, req) == [key |-> key, where |-> where, src |-> "inline", to |-> "", decl |-> decl, req |-> req]
PRef(key, where, to, req) == [key |-> key, where |-> where, src |-> "ref", to |-> to, decl |-> NoDecl, req |-> req]
PPlain(key) == [key |-> key, where |-> "direct", src |-> "plain", to |-> "", decl |-> NoDecl, req |-> FALSE]
PObjRef(key, to) == [key |-> key, where |-> "direct", src |-> "objref", to |-> to, decl |-> NoDecl, req |-> FALSE]

\* owners, in declaration order: k = enum | object | union | op
Owner(name, k, decl, props, variants, disc, mapping) ==
  [name |-> name, k |-> k, decl |-> decl, props |-> props, variants |-> variants, disc |-> disc, mapping |-> mapping]
En(name, decl) == Owner(name, "enum", decl, <<>>, <<>>, "", <<>>)
Obj(name, props) == Owner(name, "object", NoDecl, props, <<>>, "", <<>>)
Un(name, variants, disc, mapping) == Owner(name, "union", NoDecl, <<>>, variants, disc, mapping)   \* mapping: <<>> or one discriminator value per variant
Op(name, params) == Owner(name, "op", NoDecl, params, <<>>, "", <<>>)
Doc(id, grp, owners) == [id |-> id, grp |-> grp, owners |-> owners]

Owners(doc) == ToSet(doc.owners)
OwnerNamed(doc, n) == CHOOSE o \in Owners(doc) : o.name = n
IsEnumOwner(doc, n) == \E o \in Owners(doc) : o.name = n /\ o.k = "enum"

(* ----- what a declaration admits *)
Conforms(v, base) ==
  CASE base = "string" -> v.t = "s"
    [] base = "integer" -> v.t = "i"
    [] base = "number" -> v.t \in {"i", "f"}
    [] base = "boolean" -> v.t = "b"
    [] OTHER -> FALSE
Listed(d) == ToSet(d.vals)
\* the JSON values a conforming document may carry at a position declared with d: the listed values of the declared type,
\* and null when the declaration is nullable AND lists it (`nullable` without a listed null promises nothing about null)
DeclSet(d) == {v \in Listed(d) : Conforms(v, d.base)} \cup (IF d.nul /\ Null \in Listed(d) THEN {Null} ELSE {})
\* the value set an Enum class for d must have
Want(d) == DeclSet(d) \ {Null}

(* ----- positions: every place of the document that is declared with an enum *)
PosId(o, p) == o.name \o "." \o p.key \o "/" \o p.where
DeclAt(doc, p) == IF p.src = "ref" THEN OwnerNamed(doc, p.to).decl ELSE p.decl
UnionsOf(doc, o, p) == {u.name : u \in {x \in Owners(doc) : x.k = "union" /\ x.disc = p.key /\ p.where = "direct" /\ o.name \in ToSet(x.variants)}}
Positions(doc) ==
  UNION {{[id |-> PosId(o, o.props[i]), owner |-> o.name, ok |-> o.k, key |-> o.props[i].key, where |-> o.props[i].where,
           src |-> o.props[i].src, to |-> o.props[i].to, decl |-> DeclAt(doc, o.props[i]), req |-> o.props[i].req,
           unions |-> UnionsOf(doc, o, o.props[i])]
          : i \in {j \in DOMAIN o.props : o.props[j].src \in {"inline", "ref"}}}
         : o \in {x \in Owners(doc) : x.k \in {"object", "op"}}}
PosById(doc, id) == CHOOSE p \in Positions(doc) : p.id = id

\* discriminator unification is the generator's documented design: the discriminator property of a variant may be typed
\* with ONE enum for the whole union, whose value set is the union of the variants' own sets
\* (a discriminator mapping declares a value for each variant too)
Unified(doc, u) == UNION {Want(p.decl) : p \in {q \in Positions(doc) : u \in q.unions}} \cup {S(OwnerNamed(doc, u).mapping[i]) : i \in DOMAIN OwnerNamed(doc, u).mapping}
Acceptable(doc, p) == {Want(p.decl)} \cup {Unified(doc, u) : u \in p.unions}
DeclaredEnums(doc) == {o \in Owners(doc) : o.k = "enum"}
SourceSets(doc) == {Want(p.decl) : p \in Positions(doc)} \cup {Want(o.decl) : o \in DeclaredEnums(doc)}
                   \cup {Unified(doc, u.name) : u \in {x \in Owners(doc) : x.k = "union"}}
AllDeclared(doc) == UNION SourceSets(doc)

(* ----- declaration order is not part of the meaning of a document *)
RevOwners(doc) == [doc EXCEPT !.owners = Reverse(doc.owners)]
RevProps(doc) == [doc EXCEPT !.owners = [i \in DOMAIN doc.owners |-> [doc.owners[i] EXCEPT !.props = Reverse(doc.owners[i].props)]]]
Perms(doc) == <<doc, RevOwners(doc), RevProps(doc)>>

(* ======================================================================= *)
(* Part 1b: observations and the statements                                *)
(* ======================================================================= *)
\* An observation:
\*   classes : <<[cls, base, built, src, members]>>  every Enum class of the emitted models
\*             cls = identity of the class, base = str | int | other, built = the class object exists after import,
\*             src = <<[name, fact]>> member assignments read from the emitted source (fact: ok | keyword | sunder | dunder |
\*             private | invalid, computed by Python's str.isidentifier / keyword.iskeyword / the enum module's own rules),
\*             members = <<[name, val]>> canonical members of the built class (aliases excluded), val = the JSON value of .value
\*   ann     : <<[pos, kind, cls, vals]>>  per position: closed (an Enum class or a Literal: vals = its value set) | plain | any |
\*             other | missing
\*   rt      : <<[pos, val, ok, back]>>  per position and admitted value: did the emitted converter / endpoint accept it, what came back
ClassVals(c) == {c.members[i].val : i \in DOMAIN c.members}
Classes(obs) == ToSet(obs.classes)
AnnOf(obs, id) == CHOOSE a \in ToSet(obs.ann) : a.pos = id
HasAnn(obs, id) == \E a \in ToSet(obs.ann) : a.pos = id
IsCls(a) == a.kind = "closed" /\ a.cls # ""

BaseOK(v, base) == CASE base = "str" -> v.t = "s" [] base = "int" -> v.t = "i" [] OTHER -> TRUE

\* Values: an emitted Enum class exists, has exactly the value set of some declaration of the document (nothing lost - falsy
\* values included - nothing added) and every member value has the type of the class
ValuesWhy(doc, c) ==
  IF ~c.built THEN "not_built"
  ELSE IF \E v \in ClassVals(c) : ~BaseOK(v, c.base) THEN "mistyped"
  ELSE IF ClassVals(c) \in SourceSets(doc) THEN "ok"
  ELSE IF ClassVals(c) \ AllDeclared(doc) # {} THEN "added"
  ELSE "lost"
\* Members: member names are distinct, valid, non-keyword identifiers that the enum module accepts as members
MembersWhy(c) ==
  IF \E i, j \in DOMAIN c.src : i < j /\ c.src[i].name = c.src[j].name THEN "duplicate"
  ELSE IF \E i \in DOMAIN c.src : c.src[i].fact # "ok" THEN (c.src[CHOOSE i \in DOMAIN c.src : c.src[i].fact # "ok"].fact)
  ELSE "ok"
\* RightEnum: a position declared with an enum is annotated with a closed type whose value set is exactly the position's own
RightEnumWhy(doc, obs, p) ==
  IF ~HasAnn(obs, p.id) THEN "missing"
  ELSE LET a == AnnOf(obs, p.id)  w == Want(p.decl)  got == ToSet(a.vals) IN
       IF a.kind # "closed" THEN a.kind
       ELSE IF got \in Acceptable(doc, p) THEN "ok"
       ELSE IF got \cap w = {} THEN "foreign"        \* the value set of some other declaration
       ELSE IF got \subseteq w THEN "lost"
       ELSE IF w \subseteq got THEN "added"
       ELSE "mixed"
\* Shared: two positions are annotated with one class only if one value set is right for both
SharedMates(doc, obs, p) ==
  IF ~HasAnn(obs, p.id) \/ ~IsCls(AnnOf(obs, p.id)) THEN {}
  ELSE {q \in Positions(doc) \ {p} : HasAnn(obs, q.id) /\ IsCls(AnnOf(obs, q.id)) /\ AnnOf(obs, q.id).cls = AnnOf(obs, p.id).cls
                                     /\ Acceptable(doc, p) \cap Acceptable(doc, q) = {}}
\* Named: a declared enum schema keeps a type of its own: every $ref to it is annotated with ONE closed type that has exactly the
\* declared value set, and when that type is a class no other declared enum is annotated with it
RefsTo(doc, n) == {p \in Positions(doc) : p.src = "ref" /\ p.to = n /\ p.unions = {}}     \* (a discriminator may be typed with the unified enum)
ClassesOfRefs(doc, obs, n) == {AnnOf(obs, p.id).cls : p \in {q \in RefsTo(doc, n) : HasAnn(obs, q.id) /\ IsCls(AnnOf(obs, q.id))}}
NamedWhy(doc, obs, o) ==
  LET refs == RefsTo(doc, o.name)
      cs == ClassesOfRefs(doc, obs, o.name) IN
  IF refs = {} THEN "ok"        \* unreferenced: nothing observable
  ELSE IF \E p \in refs : ~HasAnn(obs, p.id) \/ AnnOf(obs, p.id).kind # "closed" THEN "no_class"
  ELSE IF \E p \in refs : ToSet(AnnOf(obs, p.id).vals) # Want(o.decl) THEN "other_values"
  ELSE IF Cardinality({AnnOf(obs, p.id).cls : p \in refs}) > 1 THEN "several_classes"
  ELSE IF \E m \in DeclaredEnums(doc) \ {o} : ClassesOfRefs(doc, obs, m.name) \cap cs # {} THEN "shared_with_declared"
  ELSE "ok"
\* RoundTrip: every admitted value is accepted at its position and comes back unchanged (with its type)
RtValues(p) == IF p.ok = "op" THEN DeclSet(p.decl) \ {Null} ELSE DeclSet(p.decl)      \* a parameter has no null on the wire
RtOf(obs, id, v) == {r \in ToSet(obs.rt) : r.pos = id /\ r.val = v}
RoundTripWhy(obs, p, v) ==
  IF RtOf(obs, p.id, v) = {} THEN "not_run"
  ELSE LET r == CHOOSE x \in RtOf(obs, p.id, v) : TRUE IN
       IF ~r.ok THEN "rejected" ELSE IF r.back # <<v>> THEN "changed" ELSE "ok"
\* Stable: what a user sees (which class annotates which position, with which values; which classes exist) does not depend
\* on the declaration order of schemas / properties
Proj(obs) == [total |-> obs.total, ann |-> {<<a.pos, a.kind, a.cls, ToSet(a.vals)>> : a \in ToSet(obs.ann)},
              classes |-> {<<c.cls, c.built, ClassVals(c)>> : c \in Classes(obs)}]
Unstable(runs) == {i \in DOMAIN runs : Proj(runs[i]) # Proj(runs[1])}
UnstablePositions(doc, runs) ==
  {p \in Positions(doc) : \E i \in DOMAIN runs :
      {x \in Proj(runs[i]).ann : x[1] = p.id} # {x \in Proj(runs[1]).ann : x[1] = p.id}}

(* ----- every failing (clause, place) of one observation of one document *)
F(clause, at, why, mate) == [clause |-> clause, at |-> at, why |-> why, mate |-> mate]
FailsOf(doc, obs) ==
     {F("Values", c.cls, ValuesWhy(doc, c), "") : c \in {x \in Classes(obs) : ValuesWhy(doc, x) # "ok"}}
\cup {F("Members", c.cls, MembersWhy(c), "") : c \in {x \in Classes(obs) : MembersWhy(x) # "ok"}}
\cup {F("RightEnum", p.id, RightEnumWhy(doc, obs, p), "") : p \in {x \in Positions(doc) : RightEnumWhy(doc, obs, x) # "ok"}}
\cup UNION {{F("Shared", p.id, "shared", q.id) : q \in SharedMates(doc, obs, p)} : p \in Positions(doc)}
\cup {F("Named", o.name, NamedWhy(doc, obs, o), "") : o \in {x \in DeclaredEnums(doc) : NamedWhy(doc, obs, x) # "ok"}}
\cup UNION {{F("RoundTrip", p.id, RoundTripWhy(obs, p, v), v.t \o ":" \o v.v) : v \in {w \in RtValues(p) : RoundTripWhy(obs, p, w) # "ok"}}
            : p \in Positions(doc)}
\* Total: the generator accepts the document and the emitted models import; when it does not, only the source-level Members are judged
TotalFails(obs) == IF obs.total = "ok" THEN {} ELSE {F("Total", "document", obs.total, "")}
AllFails(doc, obs) ==
  IF obs.total = "ok" THEN FailsOf(doc, obs)
  ELSE TotalFails(obs) \cup {F("Members", c.cls, MembersWhy(c), "") : c \in {x \in Classes(obs) : MembersWhy(x) # "ok"}}
StableFails(doc, runs) ==
  IF Unstable(runs) = {} THEN {}
  ELSE IF UnstablePositions(doc, runs) = {} THEN {F("Stable", "classes", "classes_differ", "")}
  ELSE {F("Stable", p.id, "annotation_differs", "") : p \in UnstablePositions(doc, runs)}
Holds(doc, runs) == AllFails(doc, runs[1]) = {} /\ StableFails(doc, runs) = {}

(* ======================================================================= *)
(* Part 1c: Ideal - a registry read off the declarations (satisfiability)  *)
(* ======================================================================= *)
\* one class per declared enum, one per inline position, member names M1, M2 ...; the codec accepts exactly the admitted values
IdealMembers(d) == LET w == SetToSeq(Want(d)) IN [i \in DOMAIN w |-> [name |-> "M" \o ToString(i), val |-> w[i]]]
IdealClass(cls, d) ==
  [cls |-> cls, base |-> IF d.base = "string" THEN "str" ELSE IF d.base = "integer" THEN "int" ELSE "other", built |-> TRUE,
   src |-> [i \in DOMAIN IdealMembers(d) |-> [name |-> IdealMembers(d)[i].name, fact |-> "ok"]], members |-> IdealMembers(d)]
IdealClsOf(p) == IF p.src = "ref" THEN p.to ELSE p.id
Ideal(doc) ==
  LET ps == SetToSeq(Positions(doc)) IN
  [total |-> "ok",
   classes |-> SetToSeq({IdealClass(o.name, o.decl) : o \in DeclaredEnums(doc)}
                        \cup {IdealClass(p.id, p.decl) : p \in {q \in Positions(doc) : q.src = "inline"}}),
   ann |-> [i \in DOMAIN ps |-> [pos |-> ps[i].id, kind |-> "closed", cls |-> IdealClsOf(ps[i]), vals |-> SetToSeq(Want(ps[i].decl))]],
   rt |-> SetToSeq(UNION {{[pos |-> p.id, val |-> v, ok |-> TRUE, back |-> <<v>>] : v \in RtValues(p)} : p \in Positions(doc)})]
IdealRuns(doc) == [i \in DOMAIN Perms(doc) |-> Ideal(Perms(doc)[i])]

(* ======================================================================= *)
(* Part 2: the pipeline as it is (implementation-shaped; DRIFT only)       *)
(* ======================================================================= *)
\* N = the names the pipeline derives, computed by the harness with plain string operations (inputs of the model):
\*   key[owner]      registry key of a declared schema (PascalCase of its name)
\*   ctx[pos id]     registry key an inline enum of a property is parsed under (<Parent><Prop>, or <Prop> when it starts with <Parent>)
\*   param[pos id]   registry key of an inline enum on the items of an array parameter (<Op>Param<Name>Item)
\*   unified[union]  registry key of the unified discriminator enum (<Union><Prop>Enum)
\*   cid[key]        identity of the class emitted for a registry key (<module stem>.<Class>)
\*   mem[t:v], imem[t:v]  member name derived from a value by the string / the integer branch of the enum generator
\*   ival[t:v]       int(value) as the integer branch computes it (E = the generator raises)
\*   lit[t:v]        what Python evaluates the emitted literal "<value>" to (E = it does not parse)
\*   fact[name]      Python's verdict on a member name
VKey(v) == v.t \o ":" \o v.v
Err == V("E", "")
Entry(key, kind, decl, from) == [key |-> key, kind |-> kind, decl |-> decl, from |-> from]
RegHas(reg, k) == \E i \in DOMAIN reg : reg[i].key = k
RegGet(reg, k) == reg[CHOOSE i \in DOMAIN reg : reg[i].key = k]
RegPut(reg, e) == IF RegHas(reg, e.key) THEN [i \in DOMAIN reg |-> IF reg[i].key = e.key THEN e ELSE reg[i]] ELSE Append(reg, e)
RegDrop(reg, keys) == SelectSeq(reg, LAMBDA e : e.key \notin keys)

(* ----- step 1: first come, first served: the registry of parsed schemas, in depth-first parse order *)
RECURSIVE VisitOwner(_, _, _, _), VisitProps(_, _, _, _, _), VisitNames(_, _, _, _, _)
VisitOwner(doc, N, reg, o) ==
  IF o.k = "op" \/ RegHas(reg, N.key[o.name]) THEN reg        \* a name that is already there is never parsed again
  ELSE CASE o.k = "enum" -> Append(reg, Entry(N.key[o.name], "enum", o.decl, o.name))
         [] o.k = "object" -> VisitProps(doc, N, Append(reg, Entry(N.key[o.name], "object", NoDecl, o.name)), o, 1)
         [] o.k = "union" -> Append(VisitNames(doc, N, reg, o.variants, 1), Entry(N.key[o.name], "union", NoDecl, o.name))
VisitNames(doc, N, reg, names, i) ==
  IF i > Len(names) THEN reg ELSE VisitNames(doc, N, VisitOwner(doc, N, reg, OwnerNamed(doc, names[i])), names, i + 1)
VisitProps(doc, N, reg, o, i) ==
  IF i > Len(o.props) THEN reg
  ELSE LET p == o.props[i]  pid == PosId(o, p) IN
       VisitProps(doc, N,
                  CASE p.src \in {"ref", "objref"} -> VisitOwner(doc, N, reg, OwnerNamed(doc, p.to))
                    [] p.src = "inline" /\ p.where = "direct" ->
                         IF RegHas(reg, N.ctx[pid]) THEN reg ELSE Append(reg, Entry(N.ctx[pid], "enum", p.decl, pid))
                    [] OTHER -> reg,
                  o, i + 1)
RECURSIVE VisitAll(_, _, _, _), VisitParams(_, _, _, _, _), VisitOps(_, _, _, _)
VisitAll(doc, N, reg, i) == IF i > Len(doc.owners) THEN reg ELSE VisitAll(doc, N, VisitOwner(doc, N, reg, doc.owners[i]), i + 1)
\* operations are parsed after the schemas; an inline STRING enum on the items of an array parameter is promoted
VisitParams(doc, N, reg, o, i) ==
  IF i > Len(o.props) THEN reg
  ELSE LET p == o.props[i]  pid == PosId(o, p) IN
       VisitParams(doc, N,
                   IF p.src = "inline" /\ p.where = "item" /\ p.decl.base = "string" /\ ~RegHas(reg, N.param[pid])
                   THEN Append(reg, Entry(N.param[pid], "enum", p.decl, pid)) ELSE reg,
                   o, i + 1)
VisitOps(doc, N, reg, i) ==
  IF i > Len(doc.owners) THEN reg
  ELSE VisitOps(doc, N, IF doc.owners[i].k = "op" THEN VisitParams(doc, N, reg, doc.owners[i], 1) ELSE reg, i + 1)
Parsed(doc, N) == VisitOps(doc, N, VisitAll(doc, N, <<>>, 1), 1)

(* ----- step 2: discriminator unification (one union after the other; a variant's own enum is consumed by the first) *)
DiscProp(o, key) == SelectSeq(o.props, LAMBDA p : p.key = key /\ p.where = "direct")
\* st = [reg, over: <<[pos, key]>> annotation overrides, gone: registry keys whose class is not generated]
OverHas(st, pid) == \E i \in DOMAIN st.over : st.over[i].pos = pid
OwnVals(doc, N, st, o, p) ==
  LET pid == PosId(o, p) IN
  IF OverHas(st, pid) THEN <<>>
  ELSE IF p.src = "inline" /\ RegHas(st.reg, N.ctx[pid]) /\ RegGet(st.reg, N.ctx[pid]).kind = "enum" THEN RegGet(st.reg, N.ctx[pid]).decl.vals
  ELSE IF p.src = "ref" /\ RegHas(st.reg, N.key[p.to]) /\ RegGet(st.reg, N.key[p.to]).kind = "enum" THEN RegGet(st.reg, N.key[p.to]).decl.vals
  ELSE <<>>
OwnKey(N, o, p) == IF p.src = "inline" THEN N.ctx[PosId(o, p)] ELSE IF p.src = "ref" THEN N.key[p.to] ELSE ""
VariantVals(doc, N, st, u, i) ==
  LET o == OwnerNamed(doc, u.variants[i])  dp == DiscProp(o, u.disc) IN
  IF dp = <<>> THEN <<>>
  ELSE LET own == OwnVals(doc, N, st, o, dp[1]) IN
       IF own # <<>> THEN own ELSE IF u.mapping # <<>> THEN <<S(u.mapping[i])>> ELSE <<>>
RECURSIVE Concat(_, _)
Concat(seqs, i) == IF i > Len(seqs) THEN <<>> ELSE seqs[i] \o Concat(seqs, i + 1)
UnifyOne(doc, N, st, u) ==
  LET per == [i \in DOMAIN u.variants |-> VariantVals(doc, N, st, u, i)]
      vals == Concat(per, 1)
      withProp == {i \in DOMAIN u.variants : DiscProp(OwnerNamed(doc, u.variants[i]), u.disc) # <<>>}
      consumed == {OwnKey(N, OwnerNamed(doc, u.variants[i]), DiscProp(OwnerNamed(doc, u.variants[i]), u.disc)[1])
                   : i \in {j \in withProp : OwnVals(doc, N, st, OwnerNamed(doc, u.variants[j]), DiscProp(OwnerNamed(doc, u.variants[j]), u.disc)[1]) # <<>>}}
      ukey == N.unified[u.name]
      base == IF vals # <<>> /\ vals[1].t = "i" THEN "integer" ELSE "string" IN
  IF vals = <<>> THEN st
  ELSE [reg |-> RegPut(RegDrop(st.reg, consumed), Entry(ukey, "enum", D(base, vals, FALSE), u.name)),
        over |-> SelectSeq(st.over, LAMBDA x : x.pos \notin {PosId(OwnerNamed(doc, u.variants[i]), DiscProp(OwnerNamed(doc, u.variants[i]), u.disc)[1]) : i \in withProp})
                 \o [k \in 1..Cardinality(withProp) |->
                       LET i == SetToSeq(withProp)[k] IN [pos |-> PosId(OwnerNamed(doc, u.variants[i]), DiscProp(OwnerNamed(doc, u.variants[i]), u.disc)[1]), key |-> ukey]],
        gone |-> st.gone \cup consumed]
\* unions are processed in the order in which the parser registered them (not in declaration order)
RECURSIVE UnifyAll(_, _, _, _, _)
UnifyAll(doc, N, st, us, i) ==
  IF i > Len(us) THEN st ELSE UnifyAll(doc, N, UnifyOne(doc, N, st, OwnerNamed(doc, us[i].from)), us, i + 1)
Unified2(doc, N) == UnifyAll(doc, N, [reg |-> Parsed(doc, N), over |-> <<>>, gone |-> {}], SelectSeq(Parsed(doc, N), LAMBDA e : e.kind = "union"), 1)
\* a $ref to a declared enum whose class unification removed: the emitted models import a module that does not exist
Dangling(doc, N, st) == \E p \in Positions(doc) : p.src = "ref" /\ ~OverHas(st, p.id) /\ N.key[p.to] \in st.gone /\ ~RegHas(st.reg, N.key[p.to])
\* outside the model: two declared schemas whose names give one registry key (the emitter's _2 suffixing is not modelled)
Modelled(doc, N) == \A o1, o2 \in {x \in Owners(doc) : x.k # "op"} : o1.name # o2.name => N.key[o1.name] # N.key[o2.name]

(* ----- step 3: one Enum class per registry entry of type string / integer *)
StrOf(v) == IF v.t = "n" THEN S("None") ELSE IF v.t = "b" THEN S(IF v.v = "true" THEN "True" ELSE "False") ELSE S(v.v)
RECURSIVE Uniq(_, _, _)
Uniq(base, used, k) ==
  LET cand == IF k = 0 THEN base ELSE base \o "_" \o ToString(k) IN IF cand \notin used THEN cand ELSE Uniq(base, used, k + 1)
RECURSIVE MemFold(_, _, _, _)
MemFold(N, d, i, acc) ==
  IF i > Len(d.vals) THEN acc
  ELSE LET v == d.vals[i]
           isStr == d.base = "string"
           val == IF isStr THEN N.lit[VKey(StrOf(v))] ELSE N.ival[VKey(v)]
           nm0 == IF isStr THEN N.mem[VKey(StrOf(v))] ELSE N.imem[VKey(v)]
           nm == Uniq(nm0, {acc[j].name : j \in DOMAIN acc}, 0) IN
       MemFold(N, d, i + 1, Append(acc, [name |-> nm, val |-> val, fact |-> N.fact[nm]]))
AsIsClass(N, e) ==
  LET ms == MemFold(N, e.decl, 1, <<>>)
      live == SelectSeq(ms, LAMBDA m : m.fact = "ok")
      dupv == \E i, j \in DOMAIN live : i < j /\ live[i].val = live[j].val        \* @unique
      bad == \E i \in DOMAIN ms : ms[i].val = Err \/ ms[i].fact \in {"sunder", "invalid", "keyword", "reserved"} IN
  [cls |-> N.cid[e.key], base |-> IF e.decl.base = "string" THEN "str" ELSE "int", built |-> ~dupv /\ ~bad,
   src |-> [i \in DOMAIN ms |-> [name |-> ms[i].name, fact |-> ms[i].fact]],
   members |-> IF dupv \/ bad THEN <<>> ELSE [i \in DOMAIN live |-> [name |-> live[i].name, val |-> live[i].val]]]
EmitsClass(e) == e.kind = "enum" /\ e.decl.base \in {"string", "integer"} /\ e.decl.vals # <<>>
AsIsClasses(doc, N) == LET st == Unified2(doc, N)  es == SelectSeq(st.reg, EmitsClass) IN [i \in DOMAIN es |-> AsIsClass(N, es[i])]
\* the integer branch raises on a value it cannot name (null): the generator refuses the document
GenFails(doc, N) == \E i \in DOMAIN Unified2(doc, N).reg :
   LET e == Unified2(doc, N).reg[i] IN EmitsClass(e) /\ e.decl.base = "integer" /\ \E j \in DOMAIN e.decl.vals : N.imem[VKey(e.decl.vals[j])] = "E"

(* ----- step 4: what every position is annotated with *)
AnnFromEntry(N, pid, e) ==
  IF e.kind = "enum" /\ EmitsClass(e)
  THEN LET c == AsIsClass(N, e) IN [pos |-> pid, kind |-> "closed", cls |-> c.cls, vals |-> [i \in DOMAIN c.members |-> c.members[i].val]]
  ELSE IF e.kind = "enum" /\ e.decl.base = "boolean" THEN [pos |-> pid, kind |-> "closed", cls |-> "", vals |-> SetToSeq({v \in Listed(e.decl) : v.t = "b"})]
  ELSE IF e.kind = "enum" THEN [pos |-> pid, kind |-> "plain", cls |-> "float", vals |-> <<>>]
  ELSE [pos |-> pid, kind |-> "other", cls |-> "dataclass:" \o e.key, vals |-> <<>>]
PlainOf(d) == CASE d.base = "string" -> "str" [] d.base = "integer" -> "int" [] d.base = "number" -> "float" [] OTHER -> "bool"
AsIsAnn(doc, N, st, p) ==
  LET key == IF OverHas(st, p.id) THEN st.over[CHOOSE i \in DOMAIN st.over : st.over[i].pos = p.id].key
             ELSE IF p.src = "ref" THEN N.key[p.to]
             ELSE IF p.ok = "object" /\ p.where = "direct" THEN N.ctx[p.id]
             ELSE IF p.ok = "op" /\ p.where = "item" /\ p.decl.base = "string" THEN N.param[p.id]
             ELSE "" IN
  IF key = "" THEN (IF p.decl.base = "boolean" THEN [pos |-> p.id, kind |-> "closed", cls |-> "", vals |-> SetToSeq({v \in Listed(p.decl) : v.t = "b"})]
                    ELSE [pos |-> p.id, kind |-> "plain", cls |-> PlainOf(p.decl), vals |-> <<>>])
  ELSE IF ~RegHas(st.reg, key) THEN [pos |-> p.id, kind |-> "missing", cls |-> "no_class", vals |-> <<>>]
  ELSE AnnFromEntry(N, p.id, RegGet(st.reg, key))

(* ----- step 5: the converter accepts what the annotation admits *)
AsIsRt(a, p) ==
  {[pos |-> p.id, val |-> v,
    ok |-> (v = Null \/ a.kind # "closed" \/ v \in ToSet(a.vals)) /\ a.kind \notin {"missing", "other"},
    back |-> IF (v = Null \/ a.kind # "closed" \/ v \in ToSet(a.vals)) /\ a.kind \notin {"missing", "other"} THEN <<v>> ELSE <<>>]
   : v \in RtValues(p)}

AsIs(doc, N) ==
  LET st == Unified2(doc, N)
      cs == AsIsClasses(doc, N)
      ps == SetToSeq(Positions(doc))
      total == IF GenFails(doc, N) THEN "generation" ELSE IF (\E i \in DOMAIN cs : ~cs[i].built) \/ Dangling(doc, N, st) THEN "import" ELSE "ok"
      anns == [i \in DOMAIN ps |-> IF total = "ok" THEN AsIsAnn(doc, N, st, ps[i]) ELSE [pos |-> ps[i].id, kind |-> "missing", cls |-> total, vals |-> <<>>]] IN
  [total |-> total,
   classes |-> IF total = "generation" THEN <<>> ELSE IF total = "import" THEN [i \in DOMAIN cs |-> [cs[i] EXCEPT !.built = FALSE, !.members = <<>>]] ELSE cs,
   ann |-> anns,
   rt |-> SetToSeq(UNION {AsIsRt(anns[i], ps[i]) : i \in DOMAIN ps})]
AsIsRuns(doc, N) == [i \in DOMAIN Perms(doc) |-> AsIs(Perms(doc)[i], N)]

(* ======================================================================= *)
(* Part 3: the bounded family                                              *)
(* ======================================================================= *)
\* value kinds: which strings / integers stand in the `enum` list
VK(k) ==
  CASE k = "plain"     -> D("string", <<S("a"), S("b")>>, FALSE)
    [] k = "other"     -> D("string", <<S("x"), S("y")>>, FALSE)
    [] k = "single"    -> D("string", <<S("only")>>, FALSE)
    [] k = "sep"       -> D("string", <<S("a-b"), S("a_b"), S("A B")>>, FALSE)      \* three values, one derived member name
    [] k = "case"      -> D("string", <<S("on"), S("ON")>>, FALSE)
    [] k = "empty"     -> D("string", <<S(""), S("x")>>, FALSE)                      \* the falsy string
    [] k = "digit"     -> D("string", <<S("1st"), S("2")>>, FALSE)
    [] k = "kw"        -> D("string", <<S("class"), S("None"), S("x")>>, FALSE)
    [] k = "euro"      -> D("string", <<S("<euro>"), S("x")>>, FALSE)                \* no ASCII letter at all
    [] k = "euro2"     -> D("string", <<S("<euro>"), S("<pound>"), S("")>>, FALSE)   \* three values that derive the empty name
    [] k = "under"     -> D("string", <<S("_a"), S("b")>>, FALSE)
    [] k = "sunder"    -> D("string", <<S("_a_"), S("b")>>, FALSE)
    [] k = "dunder"    -> D("string", <<S("__a__"), S("b")>>, FALSE)
    [] k = "private"   -> D("string", <<S("__a"), S("b")>>, FALSE)
    [] k = "quote"     -> D("string", <<S("a<dq>b"), S("x")>>, FALSE)
    [] k = "sq"        -> D("string", <<S("it<sq>s"), S("x")>>, FALSE)
    [] k = "bslash"    -> D("string", <<S("a<bs>b"), S("x")>>, FALSE)
    [] k = "bslashn"   -> D("string", <<S("a<bs>n"), S("x")>>, FALSE)
    [] k = "nl"        -> D("string", <<S("a<nl>b"), S("x")>>, FALSE)
    [] k = "numstr"    -> D("string", <<S("1"), S("2")>>, FALSE)
    [] k = "nullin"    -> D("string", <<S("a"), Null>>, TRUE)                        \* nullable, null listed
    [] k = "nullable"  -> D("string", <<S("a"), S("b")>>, TRUE)                      \* nullable, null not listed
    [] k = "dup"       -> D("string", <<S("a"), S("a"), S("b")>>, FALSE)             \* a value listed twice
    [] k = "mixdup"    -> D("string", <<I("1"), S("1")>>, FALSE)                     \* equal after str(); only "1" conforms
    [] k = "int"       -> D("integer", <<I("0"), I("1"), I("2")>>, FALSE)            \* the falsy integer
    [] k = "int2"      -> D("integer", <<I("1"), I("2")>>, FALSE)
    [] k = "intneg"    -> D("integer", <<I("-1"), I("0"), I("1")>>, FALSE)
    [] k = "intsingle" -> D("integer", <<I("0")>>, FALSE)
    [] k = "intdup"    -> D("integer", <<I("1"), I("1")>>, FALSE)
    [] k = "intmix"    -> D("integer", <<I("1"), S("1")>>, FALSE)                    \* equal after int(); only 1 conforms
    [] k = "intnull"   -> D("integer", <<I("0"), I("1"), Null>>, TRUE)
    [] k = "number"    -> D("number", <<V("f", "1.5"), V("f", "2.5")>>, FALSE)
    [] k = "bool"      -> D("boolean", <<V("b", "true")>>, FALSE)
StringKinds == {"plain", "single", "sep", "case", "empty", "digit", "kw", "euro", "euro2", "under", "sunder", "dunder", "private",
                "quote", "sq", "bslash", "bslashn", "nl", "numstr", "nullin", "nullable", "dup", "mixdup"}
IntKinds == {"int", "intneg", "intsingle", "intdup", "intmix", "intnull"}
OtherKinds == {"number", "bool"}
AllKinds == StringKinds \cup IntKinds \cup OtherKinds

\* position kinds: where one declaration stands
PosKinds == {"prop_req", "prop_opt", "item", "mapval", "param_req", "param_opt", "param_item", "top", "top_item", "top_mapval", "top_param", "top_param_item"}
Single(pk, vk) ==
  LET d == VK(vk)  id == pk \o "-" \o vk IN
  CASE pk = "prop_req"   -> Doc(id, "single", <<Obj("Order", <<PInline("status", "direct", d, TRUE), PPlain("note")>>)>>)
    [] pk = "prop_opt"   -> Doc(id, "single", <<Obj("Order", <<PInline("status", "direct", d, FALSE), PPlain("note")>>)>>)
    [] pk = "item"       -> Doc(id, "single", <<Obj("Order", <<PInline("codes", "item", d, FALSE), PPlain("note")>>)>>)
    [] pk = "mapval"     -> Doc(id, "single", <<Obj("Order", <<PInline("labels", "mapval", d, FALSE), PPlain("note")>>)>>)
    [] pk = "param_req"  -> Doc(id, "single", <<Op("listOrders", <<PInline("sort", "direct", d, TRUE)>>)>>)
    [] pk = "param_opt"  -> Doc(id, "single", <<Op("listOrders", <<PInline("sort", "direct", d, FALSE)>>)>>)
    [] pk = "param_item" -> Doc(id, "single", <<Op("listOrders", <<PInline("kinds", "item", d, FALSE)>>)>>)
    [] pk = "top"        -> Doc(id, "single", <<En("Color", d), Obj("Holder", <<PRef("color", "direct", "Color", TRUE), PRef("second", "direct", "Color", FALSE)>>)>>)
    [] pk = "top_item"   -> Doc(id, "single", <<En("Color", d), Obj("Holder", <<PRef("colors", "item", "Color", FALSE), PPlain("note")>>)>>)
    [] pk = "top_mapval" -> Doc(id, "single", <<En("Color", d), Obj("Holder", <<PRef("by_name", "mapval", "Color", FALSE), PPlain("note")>>)>>)
    [] pk = "top_param"  -> Doc(id, "single", <<En("Color", d), Op("listOrders", <<PRef("color", "direct", "Color", TRUE)>>)>>)
    [] pk = "top_param_item" -> Doc(id, "single", <<En("Color", d), Op("listOrders", <<PRef("colors", "item", "Color", FALSE)>>)>>)

SinglePairs(tier) ==
  IF tier = "quick"
  THEN (AllKinds \X {"prop_req"}) \cup ((AllKinds \ {"sq", "under", "numstr", "int2"}) \X {"top"})
       \cup ({"plain", "int", "nullin", "single", "empty"} \X PosKinds)
  ELSE AllKinds \X PosKinds

(* ----- collisions: two declarations whose derived names meet *)
A == VK("plain")
ValuePairs == {<<"same", A, A>>, <<"diff", A, VK("other")>>, <<"difftype", A, VK("int2")>>}
Two(k1, k2, d1, d2) == <<PInline(k1, "direct", d1, TRUE), PInline(k2, "direct", d2, FALSE)>>
KeyPairs == {<<"status", "Status">>, <<"bill-state", "bill_state">>, <<"bill_state", "billState">>, <<"status", "order_status">>,
             <<"bill_state", "ship_state">>}
Collisions ==
     {Doc("props-" \o kp[1] \o "+" \o kp[2] \o "-" \o vp[1], "collision", <<Obj("Order", Two(kp[1], kp[2], vp[2], vp[3]))>>) : kp \in KeyPairs, vp \in ValuePairs}
\cup {Doc("cross-" \o vp[1], "collision", <<Obj("Order", <<PInline("item_status", "direct", vp[2], FALSE)>>), Obj("OrderItem", <<PInline("status", "direct", vp[3], FALSE)>>)>>) : vp \in ValuePairs}
\cup {Doc("samekey-" \o vp[1], "collision", <<Obj("Order", <<PInline("status", "direct", vp[2], FALSE)>>), Obj("Invoice", <<PInline("status", "direct", vp[3], FALSE)>>)>>) : vp \in ValuePairs}
\cup {Doc("declared-" \o vp[1], "collision", <<Obj("Order", <<PInline("status", "direct", vp[2], TRUE), PRef("declared", "direct", "OrderStatus", FALSE)>>), En("OrderStatus", vp[3])>>) : vp \in ValuePairs}
\cup {Doc("declaredobj-" \o vp[1], "collision", <<Obj("Order", <<PInline("item", "direct", vp[2], FALSE), PObjRef("first", "OrderItem")>>), Obj("OrderItem", <<PInline("unit", "direct", vp[3], FALSE)>>)>>) : vp \in ValuePairs}
\cup {Doc("twodeclared-" \o vp[1], "collision", <<En("Color", vp[2]), En("Colour", vp[3]), Obj("Holder", <<PRef("one", "direct", "Color", TRUE), PRef("two", "direct", "Colour", TRUE)>>)>>) : vp \in ValuePairs}
\cup {Doc("declnames-" \o vp[1], "collision", <<En("order_status", vp[2]), En("OrderStatus", vp[3]), Obj("Holder", <<PRef("one", "direct", "order_status", TRUE), PRef("two", "direct", "OrderStatus", TRUE)>>)>>) : vp \in ValuePairs}
\cup {Doc("paramprop-" \o vp[1], "collision", <<Obj("Order", <<PInline("status", "direct", vp[2], FALSE)>>), Op("listOrders", <<PInline("status", "item", vp[3], FALSE)>>)>>) : vp \in ValuePairs}

(* ----- discriminators *)
Kind(vals) == D("string", vals, FALSE)
Variant(name, kindprop, extra) == Obj(name, <<kindprop, PPlain(extra)>>)
Cat(vals) == Variant("Cat", PInline("kind", "direct", Kind(vals), TRUE), "lives")
Dog(vals) == Variant("Dog", PInline("kind", "direct", Kind(vals), TRUE), "bark")
Holder == Obj("Owner", <<PObjRef("pet", "Pet")>>)
Discs ==
     {Doc("disc-basic-" \o ToString(m), "disc", <<Cat(<<S("cat")>>), Dog(<<S("dog")>>), Un("Pet", <<"Cat", "Dog">>, "kind", IF m THEN <<"cat", "dog">> ELSE <<>>), Holder>>) : m \in BOOLEAN}
\cup {Doc("disc-multi-" \o ToString(m), "disc", <<Cat(<<S("cat"), S("kitten")>>), Dog(<<S("dog")>>), Un("Pet", <<"Cat", "Dog">>, "kind", IF m THEN <<"cat", "dog">> ELSE <<>>), Holder>>) : m \in BOOLEAN}
\cup {Doc("disc-noenum", "disc", <<Cat(<<S("cat")>>), Variant("Dog", PPlain("kind"), "bark"), Un("Pet", <<"Cat", "Dog">>, "kind", <<"cat", "dog">>), Holder>>)}
\cup {Doc("disc-two-" \o ToString(m), "disc", <<Cat(<<S("cat")>>), Dog(<<S("dog")>>), Variant("Lion", PInline("kind", "direct", Kind(<<S("lion")>>), TRUE), "mane"),
          Un("Pet", <<"Cat", "Dog">>, "kind", IF m THEN <<"cat", "dog">> ELSE <<>>), Un("Feline", <<"Cat", "Lion">>, "kind", IF m THEN <<"cat", "lion">> ELSE <<>>), Holder>>) : m \in BOOLEAN}
\cup {Doc("disc-ref-" \o ToString(m), "disc", <<En("CatKind", Kind(<<S("cat")>>)), En("DogKind", Kind(<<S("dog")>>)),
          Variant("Cat", PRef("kind", "direct", "CatKind", TRUE), "lives"), Variant("Dog", PRef("kind", "direct", "DogKind", TRUE), "bark"),
          Un("Pet", <<"Cat", "Dog">>, "kind", IF m THEN <<"cat", "dog">> ELSE <<>>), Holder>>) : m \in BOOLEAN}
\cup {Doc("disc-reffav-" \o ToString(m), "disc", <<En("CatKind", Kind(<<S("cat")>>)), En("DogKind", Kind(<<S("dog")>>)),
          Variant("Cat", PRef("kind", "direct", "CatKind", TRUE), "lives"), Variant("Dog", PRef("kind", "direct", "DogKind", TRUE), "bark"),
          Un("Pet", <<"Cat", "Dog">>, "kind", IF m THEN <<"cat", "dog">> ELSE <<>>), Obj("Owner", <<PObjRef("pet", "Pet"), PRef("fav", "direct", "CatKind", FALSE)>>)>>) : m \in BOOLEAN}
\cup {Doc("disc-extra-" \o ToString(m), "disc", <<Obj("Cat", <<PInline("kind", "direct", Kind(<<S("cat")>>), TRUE), PInline("status", "direct", A, FALSE)>>),
          Obj("Dog", <<PInline("kind", "direct", Kind(<<S("dog")>>), TRUE), PInline("status", "direct", VK("other"), FALSE)>>),
          Un("Pet", <<"Cat", "Dog">>, "kind", IF m THEN <<"cat", "dog">> ELSE <<>>), Holder>>) : m \in BOOLEAN}
\cup {Doc("disc-declared", "disc", <<Cat(<<S("cat")>>), Dog(<<S("dog")>>), Un("Pet", <<"Cat", "Dog">>, "kind", <<"cat", "dog">>), Holder,
          En("PetKindEnum", VK("other")), Obj("User", <<PRef("pk", "direct", "PetKindEnum", FALSE)>>)>>)}
\cup {Doc("disc-sep", "disc", <<Cat(<<S("big-cat")>>), Dog(<<S("big_cat")>>), Un("Pet", <<"Cat", "Dog">>, "kind", <<"big-cat", "big_cat">>), Holder>>)}

Family(tier) == {Single(pr[2], pr[1]) : pr \in SinglePairs(tier)} \cup Collisions \cup Discs

=============================================================================
