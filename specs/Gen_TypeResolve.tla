--------------------------- MODULE Gen_TypeResolve ---------------------------
(* X04 scenario generator: one SCEN line per shape of the bounded family, with the positions it can stand at. *)
EXTENDS TypeResolve, Json
CONSTANT Tier
VARIABLES sc, done

Init == sc \in Shapes(Tier) /\ done = FALSE
Emit == /\ ~done /\ done' = TRUE /\ UNCHANGED sc
        /\ PrintT("SCEN " \o ToJson([shape |-> sc, positions |-> SelectSeq(Positions, LAMBDA p : Applicable(sc, p))]))
GSpec == Init /\ [][Emit]_<<sc, done>>
=============================================================================
