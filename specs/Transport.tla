------------------------------ MODULE Transport ------------------------------
(***************************************************************************)
(* C17 - one request through HttpxTransport as a state machine:            *)
(*                                                                         *)
(*   Defaults -> PerRequest -> ( Refresh? -> Plugin )*  |  Shortcut        *)
(*            -> Send -> Judge                                             *)
(*                                                                         *)
(* one action per statement group of `_prepare_headers` / `request` and    *)
(* per `authenticate_request` call of the composition (CompositeAuth is    *)
(* sequential application, so nesting flattens to the plug-in order).      *)
(* Init quantifies over the whole scenario space of TransportCore          *)
(* (plug-in subsets of <= MaxPlugins in every order, wrappings, shortcut,  *)
(* header-name overlap patterns, caller params / cookies / body).          *)
(*                                                                         *)
(* Variant = "as_is" models the code as written; the clauses that design   *)
(* violates are NOT stopped on: `Judge` evaluates TransportCore!Failures   *)
(* on the modelled wire into `verdict` and (Emit) prints one line          *)
(*    SCEN {sc, cfg, design}                                               *)
(* per scenario - the scenario, its concretisation for the harness and the *)
(* design-level deviations.  The same run therefore is the design check    *)
(* AND the scenario generator.  Variant = "fixed" (case-insensitive        *)
(* merge, plug-ins applied to the real request arguments) is checked with  *)
(* DesignOK as a real INVARIANT: the reference is satisfiable by a design  *)
(* of the same shape.                                                      *)
(***************************************************************************)
EXTENDS TransportCore, TLC, Json

CONSTANTS MaxPlugins,    \* 0..3
          First,         \* "any" (all sequences of <= MaxPlugins), "short" (length <= 1), or a plug-in kind: the
                         \* sequences of length exactly MaxPlugins that start with it (partition for big runs)
          Variant,       \* "as_is" | "fixed"
          BodyTied,      \* TRUE: body present iff caller cookies absent (halves the family); FALSE: independent
          Emit           \* print SCEN lines

VARIABLES sc, pc, prepared, args, pending, token, calls, wire, verdict
vars == <<sc, pc, prepared, args, pending, token, calls, wire, verdict>>

cfg == Concrete(sc)

NoWire == [headers |-> <<>>, query |-> <<>>, cookies |-> <<>>, body |-> "", refresh |-> <<>>, err |-> "unsent"]

FirstOK(p) == CASE First = "any"   -> TRUE
                [] First = "short" -> Len(p) <= 1
                [] OTHER           -> Len(p) = MaxPlugins /\ p[1] = First

Init ==
  /\ \E p \in {q \in PlugSeqs(MaxPlugins) : FirstOK(q)} :
     \E w \in Wraps(p), s \in Shorts(p), dr \in DefReq, ca \in CallerAuth :
     \E kn \in KeyNames(p, dr), hn \in HdrNames(p), pa \in BOOLEAN, co \in BOOLEAN :
     \E bo \in (IF BodyTied THEN {~co} ELSE BOOLEAN) :
        sc = [plugs |-> p, wrap |-> w, short |-> s, dflt |-> dr[1], req |-> dr[2], ca |-> ca, kn |-> kn, hn |-> hn,
              params |-> pa, cookies |-> co, body |-> bo]
  /\ pc = "defaults"
  /\ prepared = <<>>
  /\ args = [headers |-> <<>>, params |-> <<>>, cookies |-> <<>>]
  /\ pending = <<>>
  /\ token = ""
  /\ calls = <<>>
  /\ wire = NoWire
  /\ verdict = {}

Defaults ==
  /\ pc = "defaults"
  /\ prepared' = StepDefaults(Variant, cfg)
  /\ pc' = "perrequest"
  /\ UNCHANGED <<sc, args, pending, token, calls, wire, verdict>>

PerRequest ==
  /\ pc = "perrequest"
  /\ prepared' = StepPerRequest(Variant, cfg, prepared)
  /\ args' = ScratchOf(Variant, cfg, prepared')
  /\ pending' = cfg.plugins
  /\ pc' = IF cfg.plugins # <<>> THEN "auth" ELSE IF cfg.bearer # "" THEN "shortcut" ELSE "send"
  /\ UNCHANGED <<sc, token, calls, wire, verdict>>

NeedsRefresh(p) == p.kind = "oauth2" /\ p.refresh

Refresh ==
  /\ pc = "auth" /\ pending # <<>>
  /\ NeedsRefresh(Head(pending)) /\ calls = <<>>
  /\ calls' = Append(calls, Head(pending).val)
  /\ token' = Refreshed(Head(pending))
  /\ UNCHANGED <<sc, pc, prepared, args, pending, wire, verdict>>

Plugin ==
  /\ pc = "auth" /\ pending # <<>>
  /\ LET p == Head(pending) IN
       /\ NeedsRefresh(p) => calls # <<>>
       /\ args' = ApplyPlugin(Variant, p, IF NeedsRefresh(p) THEN token ELSE p.val, args)
  /\ pending' = Tail(pending)
  /\ pc' = IF Tail(pending) = <<>> THEN "send" ELSE "auth"
  /\ UNCHANGED <<sc, prepared, token, calls, wire, verdict>>

Shortcut ==
  /\ pc = "shortcut"
  /\ prepared' = StepShortcut(Variant, cfg, prepared)
  /\ pc' = "send"
  /\ UNCHANGED <<sc, args, pending, token, calls, wire, verdict>>

Send ==
  /\ pc = "send"
  /\ wire' = WireOf(Variant, cfg, IF cfg.plugins # <<>> THEN args.headers ELSE prepared, args, calls)
  /\ pc' = "sent"
  /\ UNCHANGED <<sc, prepared, args, pending, token, calls, verdict>>

Judge ==
  /\ pc = "sent"
  /\ verdict' = Failures(cfg, wire)
  /\ pc' = "done"
  /\ Emit => PrintT("SCEN " \o ToJson([sc |-> sc, cfg |-> cfg, design |-> SetToSeq(verdict')]))
  /\ UNCHANGED <<sc, prepared, args, pending, token, calls, wire>>

Next == Defaults \/ PerRequest \/ Refresh \/ Plugin \/ Shortcut \/ Send \/ Judge
Spec == Init /\ [][Next]_vars

\* ---------------------------------------------------------------------------------------------
\* properties

TypeOK ==
  /\ ScenarioOK(sc, MaxPlugins)
  /\ pc \in {"defaults", "perrequest", "auth", "shortcut", "send", "sent", "done"}
  /\ Len(pending) <= Len(sc.plugs)

Sent == pc = "done"      \* nothing changes the wire between Send and Judge: judging the final state suffices

\* the step-wise machine and the closed-form model of the code path agree (the monitor uses the closed form)
MachineIsModel == Sent => wire = ModelWire(Variant, cfg)

\* clauses of C17 as state predicates at Send (names of DESIGN.md Appendix F)
SentEqualsFold      == Sent => HeaderFailures(cfg, wire) = {}
KeyPlacement        == Sent => KeyFailures(cfg, wire) = {}
CallerArgsUntouched == Sent => CallerFailures(cfg, wire) = {}
TokenFresh          == Sent => /\ TokenFailures(cfg, wire) = {}
                               /\ \A f \in HeaderFailures(cfg, wire) : f.clause # "C17.token_stale"
\* everything at once, for the variant that is meant to satisfy the reference
DesignOK            == pc = "done" => verdict = {}
\* the verdict is exactly the judge's opinion on the wire (so reading `design` from SCEN lines is sound)
VerdictIsJudge      == pc = "done" => verdict = Failures(cfg, wire)
=============================================================================
