------------------------------ MODULE Transport ------------------------------
(***************************************************************************)
(* C17 - a SESSION of requests through one HttpxTransport as a state       *)
(* machine.  Per request:                                                  *)
(*                                                                         *)
(*   Defaults -> PerRequest -> ( Refresh? -> Plugin )*  |  Shortcut        *)
(*            -> Send                                                      *)
(*                                                                         *)
(* then the next request of the session starts at Defaults again, and      *)
(* after the last one Judge evaluates every request.  One action per       *)
(* statement group of `_prepare_headers` / `request` and per               *)
(* `authenticate_request` call of the composition.  The auth               *)
(* configuration is a TREE (`sc.tree`): Enter / Exit are the call and the  *)
(* return of a CompositeAuth.authenticate_request (which loops over its    *)
(* members in the order given), Plugin is a leaf's call.  That this walk   *)
(* equals the left-to-right fold over the leaves (`ModelSession`, which    *)
(* never looks at the nesting) is the invariant MachineIsModel.            *)
(*                                                                         *)
(* What lives ACROSS requests is explicit state: `tdefaults` (the          *)
(* transport's default-headers dict) and `stored` (the OAuth2 plug-in's    *)
(* access_token).  The configuration must be unchanged by serving a        *)
(* request: action property DefaultsUnchanged == [][tdefaults' =           *)
(* tdefaults]_vars, and RequestIsolation: every request of the session is  *)
(* what a transport fresh from its constructor would have sent for it.     *)
(*                                                                         *)
(* Here the requests of a session are made ONE AFTER THE OTHER (the        *)
(* refresh callback answers at once); requests IN FLIGHT TOGETHER - the    *)
(* schedule as a dimension, TLC exploring the interleavings - are          *)
(* TransportConc.tla, over the same TransportCore.                         *)
(*                                                                         *)
(* Families (constant Family):                                             *)
(*   "single"  : one request; plug-in subsets of <= MaxPlugins in every    *)
(*               order, wrappings, shortcut, all header-name overlap       *)
(*               patterns, caller params / cookies / body;                 *)
(*   "session" : exactly MaxReqs requests over one transport, every        *)
(*               combination of per-request header patterns per position,  *)
(*               every script of refresh-callback answers (new token, same *)
(*               token, "", None) per position, <= MaxPlugins plug-ins.    *)
(*                                                                         *)
(* Variant = "as_is" models the code as written; the clauses that design   *)
(* violates are NOT stopped on: `Judge` evaluates                          *)
(* TransportCore!SessionFailures on the modelled wires into `verdict` and  *)
(* (Emit) prints one line  SCEN {sc, cfg, design}  per scenario - the      *)
(* scenario, its concretisation for the harness and the design-level       *)
(* deviations.  The same run is the design check AND the scenario          *)
(* generator (since /repo a4b4b62 the plug-ins receive the request's        *)
(* params and cookies, KeyPlacement is a real INVARIANT of "as_is" too;    *)
(* what remains violated is SentEqualsFold for case-variant names).        *)
(* Variant = "fixed" (case-insensitive merge) is checked with DesignOK as  *)
(* a real                                                                  *)
(* INVARIANT (the reference is satisfiable); Variant = "aliased_defaults"  *)
(* (prepared headers alias the defaults dict) must VIOLATE                 *)
(* DefaultsUnchanged / RequestIsolation (the properties bind).             *)
(***************************************************************************)
EXTENDS TransportCore, TLC, Json

CONSTANTS MaxPlugins,    \* 0..3
          MaxReqs,       \* 1..3 : number of requests of a "session" scenario ("single" scenarios have one)
          MaxTreeLen,    \* "nesting": longest auth tree in tokens
          Family,        \* "single" | "session" | "nesting"
          First,         \* "any" (all sequences of <= MaxPlugins), "short" (length <= 1), or a plug-in kind: the
                         \* sequences of length exactly MaxPlugins that start with it (partition for big runs)
          Variant,       \* "as_is" | "fixed" | "aliased_defaults"
          BodyTied,      \* TRUE: body present iff caller cookies absent (halves the family); FALSE: independent
          Emit           \* print SCEN lines

VARIABLES sc,            \* the scenario (constant along a behaviour)
          pc, k,         \* control state, number of the request being served
          tdefaults,     \* the transport's default-headers dict            (lives across requests)
          stored,        \* the OAuth2-with-refresh plug-in's access_token  (lives across requests)
          prepared, args, calls,            \* locals of the request being served
          pending, lidx, depth,             \* auth walk: tokens of the tree still to visit, next leaf, call depth
          wires,         \* the requests sent so far
          verdict
vars == <<sc, pc, k, tdefaults, stored, prepared, args, calls, pending, lidx, depth, wires, verdict>>

cfg == Concrete(sc)

FirstOK(p) == CASE First = "any"   -> TRUE
                [] First = "short" -> Len(p) <= 1
                [] OTHER           -> Len(p) = MaxPlugins /\ p[1] = First

InitSingle ==
  \E p \in {q \in PlugSeqs(MaxPlugins) : FirstOK(q)} :
  \E w \in Wraps(p), s \in Shorts(p), d \in {"none", "tag"}, ca \in CallerAuth :
  \E r \in ReqSeqs(d, 1), kn \in KeyNames(p, d), hn \in HdrNames(p), pa \in BOOLEAN, co \in BOOLEAN :
  \E bo \in (IF BodyTied THEN {~co} ELSE BOOLEAN) :
     sc = [plugs |-> p, tree |-> w, short |-> s, dflt |-> d, reqs |-> r, rets |-> AllNew(1), ca |-> ca, kn |-> kn,
           hn |-> hn, params |-> pa, cookies |-> co, body |-> bo, sched |-> <<>>]

\* sessions: the caller-side Authorization header only in the per-request layer (that is what can leak), caller
\* params / cookies / body always present (every request is judged for them)
InitSession ==
  \E p \in {q \in PlugSeqs(MaxPlugins) : FirstOK(q)} :
  \E w \in Wraps(p), s \in Shorts(p), d \in {"none", "tag"}, ca \in {"none", "req-equal", "req-casevar"} :
  \E r \in ReqSeqs(d, MaxReqs), t \in RetSeqs(p, MaxReqs), kn \in KeyNames(p, d), hn \in HdrNames(p) :
     sc = [plugs |-> p, tree |-> w, short |-> s, dflt |-> d, reqs |-> r, rets |-> t, ca |-> ca, kn |-> kn,
           hn |-> hn, params |-> TRUE, cookies |-> TRUE, body |-> TRUE, sched |-> <<>>]

\* overlapping plug-in groups: everything in a group writes the same thing, so the ORDER of application is observable
OverlapGroups == {{"B", "O", "OR", "H"}, {"KH", "KH2"}, {"KQ", "KQ2"}, {"KC", "KC2"}}
OverlapSeqs == UNION {{q \in UNION {[1..n -> g] : n \in 2..MaxPlugins} : Injective(q)} : g \in OverlapGroups}
InitNesting ==
  \E w \in TreeUniverse(MaxTreeLen, 3) :
  \E p \in {q \in OverlapSeqs : Len(q) = Stars(w)} :
     sc = [plugs |-> p, tree |-> w, short |-> FALSE, dflt |-> "tag", reqs |-> <<"disjoint">>, rets |-> AllNew(1),
           ca |-> "none", kn |-> "disjoint", hn |-> "equal", params |-> TRUE, cookies |-> TRUE, body |-> TRUE,
           sched |-> <<>>]

Init ==
  /\ CASE Family = "single" -> InitSingle [] Family = "session" -> InitSession [] OTHER -> InitNesting
  /\ pc = "defaults" /\ k = 1
  /\ tdefaults = cfg.defaults
  /\ stored = InitialToken(cfg)
  /\ prepared = <<>>
  /\ args = [headers |-> <<>>, params |-> <<>>, cookies |-> <<>>]
  /\ pending = <<>> /\ lidx = 1 /\ depth = 0
  /\ calls = <<>>
  /\ wires = <<>>
  /\ verdict = {}

Defaults ==
  /\ pc = "defaults"
  /\ prepared' = StepDefaults(Variant, tdefaults)
  /\ calls' = <<>>
  /\ pc' = "perrequest"
  /\ UNCHANGED <<sc, k, tdefaults, stored, args, pending, lidx, depth, wires, verdict>>

PerRequest ==
  /\ pc = "perrequest"
  /\ prepared' = StepPerRequest(Variant, cfg.requests[k], prepared)
  /\ tdefaults' = DefaultsAfter(Variant, tdefaults, prepared')
  /\ args' = ScratchOf(Variant, cfg.reqargs[k], prepared')
  /\ pending' = cfg.tree /\ lidx' = 1 /\ depth' = 0
  /\ pc' = IF cfg.tree # <<>> THEN "auth" ELSE IF cfg.bearer # "" THEN "shortcut" ELSE "send"
  /\ UNCHANGED <<sc, k, stored, calls, wires, verdict>>

AfterAuth(rest) == IF rest = <<>> THEN "send" ELSE "auth"
Leaf == cfg.plugins[lidx]

\* CompositeAuth.authenticate_request is entered: it will visit its members in the order given
Enter ==
  /\ pc = "auth" /\ pending # <<>> /\ Head(pending) = "("
  /\ pending' = Tail(pending) /\ depth' = depth + 1
  /\ UNCHANGED <<sc, pc, k, tdefaults, stored, prepared, args, calls, lidx, wires, verdict>>

\* ... and returns to its caller
Exit ==
  /\ pc = "auth" /\ pending # <<>> /\ Head(pending) = ")"
  /\ pending' = Tail(pending) /\ depth' = depth - 1
  /\ pc' = AfterAuth(Tail(pending))
  /\ UNCHANGED <<sc, k, tdefaults, stored, prepared, args, calls, lidx, wires, verdict>>

Refresh ==
  /\ pc = "auth" /\ pending # <<>> /\ Head(pending) = "*"
  /\ IsRefresh(Leaf) /\ calls = <<>>
  /\ calls' = Append(calls, stored)                        \* the callback is shown the stored token
  /\ stored' = RefreshStep(Leaf, k, stored)                \* and its k-th answer is (or is not) taken over
  /\ UNCHANGED <<sc, pc, k, tdefaults, prepared, args, pending, lidx, depth, wires, verdict>>

Plugin ==
  /\ pc = "auth" /\ pending # <<>> /\ Head(pending) = "*"
  /\ IsRefresh(Leaf) => calls # <<>>
  /\ args' = ApplyPlugin(Variant, Leaf, IF IsRefresh(Leaf) THEN stored ELSE Leaf.val, args)
  /\ pending' = Tail(pending) /\ lidx' = lidx + 1
  /\ pc' = AfterAuth(Tail(pending))
  /\ UNCHANGED <<sc, k, tdefaults, stored, prepared, calls, depth, wires, verdict>>

Shortcut ==
  /\ pc = "shortcut"
  /\ prepared' = StepShortcut(Variant, cfg, prepared)
  /\ tdefaults' = DefaultsAfter(Variant, tdefaults, prepared')
  /\ pc' = "send"
  /\ UNCHANGED <<sc, k, stored, args, pending, lidx, depth, calls, wires, verdict>>

Send ==
  /\ pc = "send"
  /\ wires' = Append(wires, WireOf(Variant, cfg.reqargs[k], IF cfg.tree # <<>> THEN args.headers ELSE prepared, args, calls,
                                   tdefaults))
  /\ IF k < Len(cfg.requests) THEN k' = k + 1 /\ pc' = "defaults" ELSE k' = k /\ pc' = "sent"
  /\ UNCHANGED <<sc, tdefaults, stored, prepared, args, pending, lidx, depth, calls, verdict>>

Judge ==
  /\ pc = "sent"
  /\ verdict' = SessionFailures(cfg, wires)
  /\ pc' = "done"
  /\ Emit => PrintT("SCEN " \o ToJson([sc |-> sc, cfg |-> cfg, design |-> SetToSeq(verdict')]))
  /\ UNCHANGED <<sc, k, tdefaults, stored, prepared, args, pending, lidx, depth, calls, wires>>

Next == Defaults \/ PerRequest \/ Enter \/ Exit \/ Refresh \/ Plugin \/ Shortcut \/ Send \/ Judge
Spec == Init /\ [][Next]_vars

\* ---------------------------------------------------------------------------------------------
\* properties

TypeOK ==
  /\ (pc = "defaults" /\ k = 1) => ScenarioOK(sc, MaxPlugins, MaxReqs)     \* sc never changes: judged where it starts
  /\ pc \in {"defaults", "perrequest", "auth", "shortcut", "send", "sent", "done"}
  /\ k \in 1..Len(sc.reqs) /\ Len(wires) <= Len(sc.reqs)
  /\ Len(pending) <= Len(sc.tree) /\ lidx \in 1..(Len(sc.plugs) + 1)
  /\ depth >= 0 /\ (pc # "auth" => depth = 0)
  /\ (pc = "perrequest") => Len(LeafOrder(sc.tree)) = Len(sc.plugs)

Done == pc = "done"      \* nothing changes the wires between the last Send and Judge: judging the final state suffices

\* the step-wise machine and the closed-form model of the code path agree (the monitor uses the closed form)
MachineIsModel == Done => wires = ModelSession(Variant, cfg)

Clean(cs) == Done => \A f \in verdict : f.clause \notin cs
\* clauses of C17 as state predicates over the judged session (names of DESIGN.md Appendix F)
SentEqualsFold      == Clean({"C17.header_precedence", "C17.plugin_order"})
KeyPlacement        == Clean({"C17.apikey_location", "C17.apikey_name"})
CallerArgsUntouched == Clean({"C17.caller_params_changed", "C17.body_changed"})
TokenFresh          == Clean({"C17.token_stale"})
                       /\ (pc = "defaults" /\ RefreshIdx(View(cfg, 1)) # {}     \* between requests the plug-in holds the
                             => stored = RefTok(cfg.plugins[CHOOSE i \in RefreshIdx(View(cfg, 1)) : TRUE], k - 1))  \* reference token
DefaultsAsConfigured == tdefaults = cfg.defaults
\* serving a request does not touch the transport's configuration
DefaultsUnchanged   == [][tdefaults' = tdefaults]_vars
\* every request sent is what a fresh transport (configured defaults, reference token) would have sent for it
RequestIsolation    == Done => \A i \in DOMAIN wires : wires[i].headers = IsolatedWire(Variant, cfg, i).headers
\* everything at once, for the variant that is meant to satisfy the reference
DesignOK            == Done => verdict = {}
=============================================================================
