---------------------------- MODULE Gen_EnumPipe ----------------------------
(* X06 scenario generator: one SCEN line per document of the bounded family, with its positions (what each one admits) *)
(* and the permutations of declaration order that Stable compares.                                                    *)
EXTENDS EnumPipe, Json
CONSTANT Tier
VARIABLES sc, done

PosOut(doc) == LET ps == SetToSeq(Positions(doc)) IN
  [i \in DOMAIN ps |-> [id |-> ps[i].id, owner |-> ps[i].owner, ok |-> ps[i].ok, key |-> ps[i].key, where |-> ps[i].where, src |-> ps[i].src,
                        to |-> ps[i].to, req |-> ps[i].req, base |-> ps[i].decl.base, admits |-> SetToSeq(DeclSet(ps[i].decl)),
                        disc |-> ps[i].unions # {}]]
Init == sc \in Family(Tier) /\ done = FALSE
Emit == /\ ~done /\ done' = TRUE /\ UNCHANGED sc
        /\ PrintT("SCEN " \o ToJson([doc |-> sc, perms |-> Perms(sc), positions |-> PosOut(sc)]))
GSpec == Init /\ [][Emit]_<<sc, done>>
=============================================================================
