------------------------------ MODULE Surface ------------------------------
(***************************************************************************)
(* C07 / C13 - tags -> tag clients, their Protocols, their mocks and the   *)
(* APIClient / MockAPIClient properties.                                   *)
(*                                                                         *)
(* Abstract document = sequence of operations                              *)
(*    [oid, method, path, tags : Seq(tag), keys : Seq(Fold(tag)), opid,    *)
(*     idshape, kind, ...]                                                 *)
(* Fold(t) = lower-case alphanumerics of t.  It partitions tags into       *)
(* classes.  FoldTable below is the table for the tag universe of the      *)
(* generators; the harness recomputes every key with plain string          *)
(* operations (independently of the code's normalize_tag_key) and refuses  *)
(* to run when the two disagree.                                           *)
(*                                                                         *)
(* Reference meaning (C07):                                                *)
(*   ExpectedClients(ops) : class -> the operations it must offer.  For    *)
(*   every operation and every class of the operation (`default` when it   *)
(*   has no tag) EXACTLY ONE method on that class's client; every class's  *)
(*   client reachable as an APIClient property; names valid, unique per    *)
(*   client, consistent with the strategy;                                 *)
(*   Accepted(doc) => |methods| = ExpectedMethodCount(ops) - or generation *)
(*   raised (a visible failure is fine, a silent drop is not).             *)
(* Parity (C13): the client class, its Protocol and its mock have the same *)
(* method names, per method identical parameter sequences (name, kind,     *)
(* has-default, default, annotation) and return annotation - for every     *)
(* `def` in source order, overload stubs included - and matching nature;   *)
(* every mock method raises NotImplementedError; MockAPIClient has the     *)
(* properties of APIClient; client and mock satisfy the Protocol.          *)
(*                                                                         *)
(* JudgeC07 / JudgeC13 evaluate those meanings on an OBSERVED surface      *)
(* (record built by harness/surfacepipe.py from the `surface`, `wire`,     *)
(* `mockcall` and `surfacex` observations) and return the failing clauses  *)
(* with a locus computed from the observation.                             *)
(***************************************************************************)
EXTENDS Naturals, Sequences, FiniteSets, SequencesExt, FiniteSetsExt, TLC

Default == "default"

FoldTable ==
  [t \in {"a", "A", "b", "user-accounts", "User Accounts", "userAccounts", "useraccounts", "user_accounts", "UserAccounts", "request", "close", "config",
          "Billing/Invoices", "billing-invoices", "v1.users", "v1-users", "R&D", "r-d", "ops:admin", "ops admin"} |->
     CASE t \in {"a", "A"} -> "a"
       [] t = "b" -> "b"
       [] t \in {"user-accounts", "User Accounts", "userAccounts", "useraccounts", "user_accounts", "UserAccounts"} -> "useraccounts"
       [] t \in {"Billing/Invoices", "billing-invoices"} -> "billinginvoices"
       [] t \in {"v1.users", "v1-users"} -> "v1users"
       [] t \in {"R&D", "r-d"} -> "rd"
       [] t \in {"ops:admin", "ops admin"} -> "opsadmin"
       [] OTHER -> t]
Fold(t) == FoldTable[t]
KeysOf(tags) == [i \in 1..Len(tags) |-> Fold(tags[i])]

\* ---- reference meaning ------------------------------------------------------------------
KeySeq(op) == IF Len(op.keys) = 0 THEN <<Default>> ELSE op.keys
TagClasses(op) == ToSet(KeySeq(op))
AllClasses(ops) == UNION {TagClasses(ops[i]) : i \in DOMAIN ops}
OpsOf(ops, k) == {i \in DOMAIN ops : k \in TagClasses(ops[i])}
ExpectedClients(ops) == [k \in AllClasses(ops) |-> OpsOf(ops, k)]
ExpectedMethodCount(ops) == MapThenSumSet(LAMBDA i : Cardinality(TagClasses(ops[i])), DOMAIN ops)
\* 1-based position of the first tag of class k in the operation's tag list (1 for `default`), 0 when absent
TagPos(op, k) ==
  LET s == KeySeq(op)  hit == {j \in 1..Len(s) : s[j] = k} IN IF hit = {} THEN 0 ELSE Min(hit)
MinTagPos(ops, k) == IF OpsOf(ops, k) = {} THEN 0 ELSE Min({TagPos(ops[i], k) : i \in OpsOf(ops, k)})
\* the raw spellings of a class in the document; more than one = spelling variants of one tag
Spellings(ops, k) == UNION {{ops[i].tags[j] : j \in {j \in 1..Len(ops[i].tags) : ops[i].keys[j] = k}} : i \in DOMAIN ops}
Variants(ops, k) == Cardinality(Spellings(ops, k)) > 1

\* ---- C07 on an observed surface -----------------------------------------------------------
\*  t.clients[c] == [cls, prop, key, reachable, silent, dupdefs, methods : Seq([name, ident, ops, sent, rel, got, ...])]
Reach(t) == {c \in DOMAIN t.clients : t.clients[c].reachable}
MethodOps(m) == ToSet(m.ops)
Served(cl) == UNION {MethodOps(cl.methods[m]) : m \in DOMAIN cl.methods}
ClientsOfKey(t, k) == {c \in Reach(t) : t.clients[c].key = k}
Orphans(t) == {c \in Reach(t) : t.clients[c].key \notin AllClasses(t.ops)}
\* the client of a class: by the folded property name; failing that, an otherwise unexplained reachable client that
\* offers exactly the class's operations
ClientFor(t, k) ==
  IF ClientsOfKey(t, k) # {} THEN ClientsOfKey(t, k)
  ELSE {c \in Orphans(t) : Served(t.clients[c]) = OpsOf(t.ops, k) /\ OpsOf(t.ops, k) # {}}
Warned(t, i) == t.ops[i].warned
AllWarned(t, k) == \A i \in OpsOf(t.ops, k) : Warned(t, i)
MethodsFor(t, k, i) ==
  {<<c, m>> \in UNION {{<<c, m>> : m \in DOMAIN t.clients[c].methods} : c \in ClientFor(t, k)} : i \in MethodOps(t.clients[c].methods[m])}
AnyMethodFor(t, i) == \E c \in Reach(t) : \E m \in DOMAIN t.clients[c].methods : i \in MethodOps(t.clients[c].methods[m])
EmittedUnreachable(t, k) == \E c \in DOMAIN t.clients : ~t.clients[c].reachable /\ t.clients[c].key = k

ClientFails(t) ==
  {[clause |-> "C07.client_unreachable",
    locus |-> [shadowed_by |-> IF k \in ToSet(t.apiattrs) THEN k ELSE "", class_emitted |-> EmittedUnreachable(t, k), strategy |-> t.strategy]] :
     k \in {k \in AllClasses(t.ops) : ClientFor(t, k) = {} /\ ~AllWarned(t, k)}}

PairFail(t, k, i) ==
  LET ms == MethodsFor(t, k, i)
      cs == ClientFor(t, k)
      op == t.ops[i]
      pos == TagPos(op, k) IN
  IF Warned(t, i) /\ ms = {}
    THEN {[clause |-> "C07.op_unreachable", locus |-> [warned |-> TRUE, wclass |-> op.wclass, rendering |-> t.rendering, tagpos |-> pos]]}
  ELSE IF cs = {} THEN {}                          \* reported once per class as client_unreachable
  ELSE IF Cardinality(ms) > 1
    THEN {[clause |-> "C07.op_duplicated", locus |-> [how |-> "several_methods", n |-> Cardinality(ms), tagpos |-> pos]]}
  ELSE IF ms # {} THEN {}
  ELSE IF \E c \in cs : Len(t.clients[c].dupdefs) > 0
    THEN {[clause |-> "C07.ops_collapsed", locus |-> [how |-> "same_name_defs", strategy |-> t.strategy, idshape |-> op.idshape]]}
  ELSE IF \E c \in cs : t.clients[c].silent > 0 THEN {}     \* a method of this client never sent a request: undetermined
  ELSE {[clause |-> "C07.op_unreachable", locus |-> [warned |-> FALSE, wclass |-> "", rendering |-> t.rendering, tagpos |-> pos]]}

PairFails(t) == UNION {UNION {PairFail(t, k, i) : i \in OpsOf(t.ops, k)} : k \in AllClasses(t.ops)}

DropFails(t) ==
  {[clause |-> "C07.silent_drop", locus |-> [wclass |-> t.ops[i].wclass, rendering |-> t.rendering]] :
     i \in {i \in DOMAIN t.ops : Warned(t, i) /\ ~AnyMethodFor(t, i)}}

MethodFail(t, c, m) ==
  LET cl == t.clients[c]  me == cl.methods[m]  os == MethodOps(me) IN
  (IF Cardinality(os) > 1 THEN {[clause |-> "C07.ops_collapsed", locus |-> [how |-> "one_method_many_operations", strategy |-> t.strategy, idshape |-> ""]]} ELSE {})
  \cup (IF \E i \in os : cl.key \notin TagClasses(t.ops[i]) /\ c \notin UNION {ClientFor(t, k) : k \in TagClasses(t.ops[i])}
          THEN {[clause |-> "C07.op_duplicated", locus |-> [how |-> "foreign_client", n |-> 1, tagpos |-> 0]]} ELSE {})
  \cup (IF ~me.ident THEN {[clause |-> "C07.name_invalid", locus |-> [why |-> me.why]]} ELSE {})
  \cup (IF me.rel = "other" THEN {[clause |-> "C07.name_strategy", locus |-> [strategy |-> t.strategy, got |-> me.got, idshape |-> me.idshape, path_has_param |-> me.hasparam]]} ELSE {})
MethodFails(t) == UNION {UNION {MethodFail(t, c, m) : m \in DOMAIN t.clients[c].methods} : c \in Reach(t)}

NMethods(t) == MapThenSumSet(LAMBDA c : Len(t.clients[c].methods), Reach(t))
Undetermined(t) ==
  Cardinality({<<k, i>> \in AllClasses(t.ops) \X DOMAIN t.ops :
                 /\ i \in OpsOf(t.ops, k) /\ ~Warned(t, i) /\ ClientFor(t, k) # {} /\ MethodsFor(t, k, i) = {}
                 /\ \A c \in ClientFor(t, k) : Len(t.clients[c].dupdefs) = 0
                 /\ \E c \in ClientFor(t, k) : t.clients[c].silent > 0})

\* |methods| = sum over operations of |tagClasses(op)|  (follows from the clauses above when none fails; counted for the evidence)
CountOK(t) == NMethods(t) = ExpectedMethodCount(t.ops)

JudgeC07(t) ==
  IF t.status = "noimport_missing_endpoint"
    THEN {[clause |-> "C07.client_unreachable", locus |-> [shadowed_by |-> "", class_emitted |-> FALSE, strategy |-> t.strategy, cause |-> "client_module_imports_missing_endpoint"]]}
  ELSE IF t.status # "ok" THEN {}
  ELSE ClientFails(t) \cup PairFails(t) \cup DropFails(t) \cup MethodFails(t)

AnteC07(t) ==
  IF t.status # "ok" THEN [classes |-> 0, pairs |-> 0, methods |-> 0, warned |-> 0, count_ok |-> FALSE, undetermined |-> 0, expected |-> 0]
  ELSE [classes |-> Cardinality(AllClasses(t.ops)), pairs |-> ExpectedMethodCount(t.ops), methods |-> NMethods(t),
        warned |-> Cardinality({i \in DOMAIN t.ops : Warned(t, i)}), count_ok |-> CountOK(t), undetermined |-> Undetermined(t),
        expected |-> ExpectedMethodCount(t.ops)]

\* ---- C13 on an observed surface -----------------------------------------------------------
\*  side == [has, nat, iter, defs : Seq([over, ret, params : Seq(<<name, kind, hasdefault, default, annotation>>)]),
\*           rt : [has, ret, params]]
ParamDiff(a, b) ==
  IF Len(a) # Len(b) THEN "count"
  ELSE LET d == {j \in 1..Len(a) : a[j] # b[j]} IN
       IF d = {} THEN ""
       ELSE LET j == Min(d) IN
            IF a[j][1] # b[j][1] THEN "name"
            ELSE IF a[j][2] # b[j][2] THEN "kind"
            ELSE IF a[j][3] # b[j][3] \/ a[j][4] # b[j][4] THEN "default"
            ELSE "annotation"
DefDiff(x, y) ==
  IF x.over # y.over THEN "overloads"
  ELSE IF ParamDiff(x.params, y.params) # "" THEN ParamDiff(x.params, y.params)
  ELSE IF x.ret # y.ret THEN "return" ELSE ""
\* first differing element between two sides ("" when identical)
SideDiff(x, y) ==
  IF Len(x.defs) # Len(y.defs) THEN "overloads"
  ELSE LET d == {j \in 1..Len(x.defs) : DefDiff(x.defs[j], y.defs[j]) # ""} IN
       IF d # {} THEN DefDiff(x.defs[Min(d)], y.defs[Min(d)])
       ELSE IF x.rt.has /\ y.rt.has /\ ParamDiff(x.rt.params, y.rt.params) # "" THEN ParamDiff(x.rt.params, y.rt.params)
       ELSE IF x.rt.has /\ y.rt.has /\ x.rt.ret # y.rt.ret THEN "return" ELSE ""

NatureOK(c, s, isProto) ==
  CASE c.nat = "coro" -> s.nat = "coro"
    [] c.nat = "agen" -> s.nat = "agen" \/ (isProto /\ s.nat = "plain" /\ s.iter)
    [] OTHER -> s.nat = c.nat

MockJudged(t) == t.mockok = "yes"
\* the client module imports: APIClient's properties are known and methods are mapped to operations by their requests.
\* Otherwise (status "noimport") only the emitted text of the three classes is compared.
Wired(t) == t.status = "ok"

MethodParity(t, cl, me) ==
  LET pos == IF Len(me.ops) = 0 THEN 0 ELSE TagPos(t.ops[me.ops[1]], cl.key) IN
  (IF cl.proto = "yes" /\ ~me.p.has THEN {[clause |-> "C13.method_missing", locus |-> [side |-> "protocol", tagpos |-> pos, variants |-> Variants(t.ops, cl.key)]]} ELSE {})
  \cup (IF MockJudged(t) /\ Wired(t) /\ cl.mock = "yes" /\ ~me.m.has THEN {[clause |-> "C13.method_missing", locus |-> [side |-> "mock", tagpos |-> pos, variants |-> Variants(t.ops, cl.key)]]} ELSE {})
  \cup (IF cl.proto = "yes" /\ me.p.has /\ SideDiff(me.c, me.p) # ""
          THEN {[clause |-> "C13.signature_differs", locus |-> [side |-> "protocol", element |-> SideDiff(me.c, me.p)]]} ELSE {})
  \cup (IF MockJudged(t) /\ cl.mock = "yes" /\ me.m.has /\ SideDiff(me.c, me.m) # ""
          THEN {[clause |-> "C13.signature_differs", locus |-> [side |-> "mock", element |-> SideDiff(me.c, me.m)]]} ELSE {})
  \cup (IF cl.proto = "yes" /\ me.p.has /\ ~NatureOK(me.c, me.p, TRUE)
          THEN {[clause |-> "C13.nature", locus |-> [side |-> "protocol", client |-> me.c.nat, other |-> me.p.nat]]} ELSE {})
  \cup (IF MockJudged(t) /\ cl.mock = "yes" /\ me.m.has /\ ~NatureOK(me.c, me.m, FALSE)
          THEN {[clause |-> "C13.nature", locus |-> [side |-> "mock", client |-> me.c.nat, other |-> me.m.nat]]} ELSE {})
  \cup (IF MockJudged(t) /\ cl.mock = "yes" /\ me.m.has /\ me.mockcall # "NotImplementedError"
          THEN {[clause |-> "C13.mock_does_not_raise", locus |-> [outcome |-> me.mockcall]]} ELSE {})

MockMethodMissing(t, cl) == \E m \in DOMAIN cl.methods : ~cl.methods[m].m.has

ClientParity(t, cl) ==
  LET pos == MinTagPos(t.ops, cl.key) IN
  (IF cl.proto = "no" THEN {[clause |-> "C13.protocol_unsatisfied", locus |-> [side |-> "client", why |-> "no_protocol_class"]]} ELSE {})
  \cup (IF cl.proto = "unparsable" THEN {[clause |-> "C13.signature_differs", locus |-> [side |-> "protocol", element |-> "unparsable"]]} ELSE {})
  \cup (IF MockJudged(t) /\ cl.mock = "no" THEN {[clause |-> "C13.mock_class_missing", locus |-> [tagpos |-> pos, variants |-> Variants(t.ops, cl.key)]]} ELSE {})
  \cup (IF MockJudged(t) /\ cl.mock = "unparsable" THEN {[clause |-> "C13.signature_differs", locus |-> [side |-> "mock", element |-> "unparsable"]]} ELSE {})
  \cup (IF MockJudged(t) /\ Wired(t) /\ cl.reachable /\ cl.prop \notin ToSet(t.mockprops)
          THEN {[clause |-> "C13.apiclient_property_missing", locus |-> [side |-> "mock", tagpos |-> pos, variants |-> Variants(t.ops, cl.key)]]} ELSE {})
  \cup UNION {MethodParity(t, cl, cl.methods[m]) : m \in DOMAIN cl.methods}
  \cup {[clause |-> "C13.method_missing", locus |-> [side |-> "client", tagpos |-> 0, variants |-> Variants(t.ops, cl.key), from |-> "protocol"]] : n \in ToSet(cl.pextra)}
  \cup (IF MockJudged(t) THEN {[clause |-> "C13.method_missing", locus |-> [side |-> "client", tagpos |-> 0, variants |-> Variants(t.ops, cl.key), from |-> "mock"]] : n \in ToSet(cl.mextra)} ELSE {})
  \cup (IF cl.cproto_ok = "no" THEN {[clause |-> "C13.protocol_unsatisfied", locus |-> [side |-> "client", why |-> "isinstance_false"]]} ELSE {})
  \cup (IF MockJudged(t) /\ cl.mproto_ok = "no" /\ ~MockMethodMissing(t, cl)
          THEN {[clause |-> "C13.protocol_unsatisfied", locus |-> [side |-> "mock", why |-> "isinstance_false"]]} ELSE {})

JudgeC13(t) ==
  IF t.status \notin {"ok", "noimport"} THEN {}
  ELSE UNION {ClientParity(t, t.clients[c]) : c \in DOMAIN t.clients}
       \cup (IF MockJudged(t) /\ Wired(t) THEN {[clause |-> "C13.apiclient_property_missing", locus |-> [side |-> "api", tagpos |-> 0, variants |-> \E k \in AllClasses(t.ops) : Variants(t.ops, k)]] :
                                      p \in ToSet(t.mockprops) \ ToSet(t.apiprops)} ELSE {})

AnteC13(t) ==
  IF t.status \notin {"ok", "noimport"} THEN [clients |-> 0, methods |-> 0, defs |-> 0, mocks |-> 0, mockmethods |-> 0, streaming |-> 0, overloaded |-> 0, mockjudged |-> FALSE]
  ELSE LET ms == UNION {{<<c, m>> : m \in DOMAIN t.clients[c].methods} : c \in DOMAIN t.clients}
           M(x) == t.clients[x[1]].methods[x[2]] IN
       [clients |-> Len(t.clients), methods |-> Cardinality(ms),
        defs |-> MapThenSumSet(LAMBDA x : Len(M(x).c.defs), ms),
        mocks |-> IF MockJudged(t) THEN Cardinality({c \in DOMAIN t.clients : t.clients[c].mock = "yes"}) ELSE 0,
        mockmethods |-> IF MockJudged(t) THEN Cardinality({x \in ms : M(x).m.has}) ELSE 0,
        streaming |-> Cardinality({x \in ms : M(x).c.nat = "agen"}),
        overloaded |-> Cardinality({x \in ms : Len(M(x).c.defs) > 1}),
        mockjudged |-> MockJudged(t)]
=============================================================================
