------------------------- MODULE Trace_SchemaParse -------------------------
(***************************************************************************)
(* Conformance of the real parser with SchemaParse.tla, and the design-    *)
(* level fidelity statement.  One trace per document:                      *)
(*   [id, order, raw : name -> node, cfg, doc : [order, edges],            *)
(*    real : [ev : Seq([k, n, o]), keys : Seq(name),                       *)
(*            fields : name -> Seq(key), foreign : Seq(name), err]]        *)
(* The model is run on the same abstract document (SchemaParse!Build) and  *)
(* its call sequence, registry and per-schema field sets are compared with *)
(* what the real parser did.  Disagreement is DRIFT (the model must be     *)
(* updated), never a property failure; the design-level verdicts           *)
(* (DesignLost, DesignRest) are the specification-level statement of C02 / *)
(* C08 for the modelled design.                                            *)
(***************************************************************************)
EXTENDS SchemaParse, Docs, Json, IOUtils

Traces == ndJsonDeserialize(IOEnv.TRACE_FILE)
VARIABLES tid, done

CfgOf(t) == [maxDepth     |-> t.cfg.maxDepth,
             synthetic    |-> ToSet(t.cfg.synthetic),
             hasChildren  |-> ToSet(t.cfg.hasChildren),
             hasChildItem |-> ToSet(t.cfg.hasChildItem),
             hasItem      |-> ToSet(t.cfg.hasItem),
             san          |-> t.cfg.san,
             nestedOf     |-> [n \in DOMAIN t.cfg.nestedOf |-> ToSet(t.cfg.nestedOf[n])]]

EvEq(a, b) == a.k = b.k /\ a.n = b.n /\ a.o = b.o
FirstDiff(m, r) ==
  LET L == IF Len(m) < Len(r) THEN Len(m) ELSE Len(r)
      bad == {i \in 1..L : ~EvEq(m[i], r[i])}
  IN IF bad # {} THEN CHOOSE i \in bad : \A j \in bad : i <= j
     ELSE IF Len(m) # Len(r) THEN L + 1 ELSE 0

Report(t) ==
  LET x == Build(CfgOf(t), t.raw, InitCtx(4000), t.order)
      declared == ToSet(t.order)
      fd == FirstDiff(x.ev, t.real.ev)
      fieldDiff == {n \in declared : n \in DOMAIN t.real.fields /\ ModelFields(x, n) # ToSet(t.real.fields[n])}
      keyDiff == ((DOMAIN x.ps) \ ToSet(t.real.keys)) \cup (ToSet(t.real.keys) \ (DOMAIN x.ps))
      designLost == {n \in declared : ~t.inhcycle /\ {f.key : f \in ExpectedFields(t.doc, n)} # ModelFields(x, n)}
  IN [id |-> t.id, terminated |-> Terminated(x), atrest |-> AtRestAfter(x), nev |-> Len(x.ev),
      evdiff |-> fd, fielddiff |-> SetToSeq(fieldDiff), keydiff |-> SetToSeq(keyDiff),
      designLost |-> SetToSeq(designLost),
      designForeign |-> SetToSeq(x.foreign),
      foreigndiff |-> SetToSeq((x.foreign \ ToSet(t.real.foreign)) \cup (ToSet(t.real.foreign) \ x.foreign)),
      modelAround |-> IF fd = 0 THEN <<>> ELSE SubSeq(x.ev, IF fd > 3 THEN fd - 3 ELSE 1, IF fd + 2 <= Len(x.ev) THEN fd + 2 ELSE Len(x.ev)),
      realAround |-> IF fd = 0 THEN <<>> ELSE SubSeq(t.real.ev, IF fd > 3 THEN fd - 3 ELSE 1, IF fd + 2 <= Len(t.real.ev) THEN fd + 2 ELSE Len(t.real.ev))]

Init == tid \in 1..Len(Traces) /\ done = FALSE
Judge == /\ ~done /\ done' = TRUE /\ UNCHANGED tid
         /\ PrintT("VERDICT " \o ToJson(Report(Traces[tid])))
Spec == Init /\ [][Judge]_<<tid, done>>
=============================================================================
