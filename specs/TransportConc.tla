---------------------------- MODULE TransportConc ----------------------------
(***************************************************************************)
(* C17 - requests IN FLIGHT TOGETHER on one HttpxTransport: the SCHEDULE   *)
(* is a dimension and TLC explores the interleavings.                      *)
(*                                                                         *)
(* asyncio is cooperative: a coroutine runs undisturbed until it really    *)
(* suspends.  Inside HttpxTransport.request the only suspension point with *)
(* the bundled plug-ins is OAuth2Auth awaiting its refresh callback (alone *)
(* or anywhere inside CompositeAuth); the request is built and handed to   *)
(* the underlying transport without another suspension.  `running` is the  *)
(* coroutine that holds the event loop (0 = none):                         *)
(*                                                                         *)
(*   Start(r)      running = 0, r not started: kwargs are taken apart,     *)
(*                 defaults + per-request headers merged, the dict for the *)
(*                 plug-ins filled - r runs                                *)
(*   Enter / Exit / Plugin(r)   the walk over the auth tree, r running     *)
(*   AwaitBegin(r) the refresh callback is called (shown the stored token) *)
(*                 and does not answer yet: r suspends, running = 0        *)
(*   AwaitEnd(r)   running = 0, r suspended: the callback answers, the     *)
(*                 stored token is (or is not) replaced - r runs again     *)
(*   Send(r)       the request leaves; r is done, running = 0              *)
(*                                                                         *)
(* Start and AwaitEnd of DIFFERENT requests are enabled together whenever  *)
(* nobody runs: those are the interleavings.  Everything a request has     *)
(* computed (prepared headers, the dict handed to the plug-ins `args`, the *)
(* other request arguments `kw`, its position in the auth tree) is indexed *)
(* by the request; what is SHARED is explicit: `tdefaults`, `stored`,      *)
(* `ncall`.  The property is per request: what leaves = defaults (+) that  *)
(* request's own headers / arguments (+) auth, nothing of another request  *)
(* (RequestIsolation, and the clauses of TransportCore!SessionFailures     *)
(* with the token plan of the schedule).                                   *)
(*                                                                         *)
(* `sched` records the order of start / resume events; Judge prints the    *)
(* scenario WITH its schedule (SCEN line), and the harness replays exactly *)
(* that interleaving on the real transport (a refresh callback that awaits *)
(* a future the harness resolves in the prescribed order).                 *)
(*                                                                         *)
(* Variants: "as_is"; "shared_scratch" (the dict handed to the plug-ins is *)
(* one per transport) and "shared_request_args" (the outgoing arguments    *)
(* are assembled in one per-transport dict across the await) are broken    *)
(* designs that MUST violate RequestIsolation - the property binds.        *)
(***************************************************************************)
EXTENDS TransportCore, TLC, Json

CONSTANTS MaxPlugins,    \* plug-in sequences of <= MaxPlugins that contain OAuth2-with-refresh (the one that suspends)
          NReqs,         \* 2..3 requests in flight
          Variant,       \* "as_is" | "shared_scratch" | "shared_request_args"
          Emit

Reqs == 1..NReqs

VARIABLES sc, pc, st, running, tdefaults, stored, ncall,
          prepared, args, kw, pending, lidx, calls, callno,
          wires, sched, verdict
vars == <<sc, pc, st, running, tdefaults, stored, ncall, prepared, args, kw, pending, lidx, calls, callno, wires, sched,
          verdict>>

cfg  == Concrete(sc)                                  \* the configuration (its schedule is still open)
cfgS == Concrete([sc EXCEPT !.sched = sched])         \* ... with the schedule this behaviour took

\* which dict a request uses: its own - or, in the broken designs, the one of the transport
Slot(r)   == IF Variant = "shared_scratch" THEN 1 ELSE r
KwSlot(r) == IF Variant = "shared_request_args" THEN 1 ELSE r

EmptyArgs == [headers |-> <<>>, params |-> <<>>, cookies |-> <<>>]
EmptyKw   == [params |-> <<>>, cookies |-> <<>>, body |-> "", path |-> ""]

Init ==
  /\ \E p \in {q \in PlugSeqs(MaxPlugins) : InSeq("OR", q)} :
     \E w \in Wraps(p), r \in ReqSeqs("tag", NReqs) :
        sc = [plugs |-> p, tree |-> w, short |-> FALSE, dflt |-> "tag", reqs |-> r, rets |-> AllNew(NReqs),
              ca |-> "none", kn |-> "disjoint", hn |-> "disjoint", params |-> TRUE, cookies |-> TRUE, body |-> TRUE,
              sched |-> <<>>]
  /\ pc = "run"
  /\ st = [r \in Reqs |-> "idle"] /\ running = 0
  /\ tdefaults = cfg.defaults /\ stored = InitialToken(cfg) /\ ncall = 0
  /\ prepared = [r \in Reqs |-> <<>>]
  /\ args = [r \in Reqs |-> EmptyArgs]
  /\ kw = [r \in Reqs |-> EmptyKw]
  /\ pending = [r \in Reqs |-> <<>>] /\ lidx = [r \in Reqs |-> 1]
  /\ calls = [r \in Reqs |-> <<>>] /\ callno = [r \in Reqs |-> 0]
  /\ wires = [r \in Reqs |-> NoWire]
  /\ sched = <<>>
  /\ verdict = {}

Leaf(r) == cfg.plugins[lidx[r]]
AtLeaf(r) == pending[r] # <<>> /\ Head(pending[r]) = "*"

\* request(**kwargs) is called: kwargs without headers are the outgoing arguments; _prepare_headers merges defaults and
\* per-request headers and fills the dict for the plug-ins (copies of headers / params / cookies)
Start(r) ==
  /\ pc = "run" /\ running = 0 /\ st[r] = "idle"
  /\ LET p == StepPerRequest(Variant, cfg.requests[r], StepDefaults(Variant, tdefaults)) IN
       /\ prepared' = [prepared EXCEPT ![r] = p]
       /\ args' = [args EXCEPT ![Slot(r)] = ScratchOf(Variant, cfg.reqargs[r], p)]
  /\ kw' = [kw EXCEPT ![KwSlot(r)] = cfg.reqargs[r]]
  /\ pending' = [pending EXCEPT ![r] = cfg.tree] /\ lidx' = [lidx EXCEPT ![r] = 1]
  /\ st' = [st EXCEPT ![r] = "run"] /\ running' = r
  /\ sched' = Append(sched, [k |-> "start", r |-> r])
  /\ UNCHANGED <<sc, pc, tdefaults, stored, ncall, calls, callno, wires, verdict>>

Enter(r) ==
  /\ running = r /\ pending[r] # <<>> /\ Head(pending[r]) = "("
  /\ pending' = [pending EXCEPT ![r] = Tail(@)]
  /\ UNCHANGED <<sc, pc, st, running, tdefaults, stored, ncall, prepared, args, kw, lidx, calls, callno, wires, sched, verdict>>

Exit(r) ==
  /\ running = r /\ pending[r] # <<>> /\ Head(pending[r]) = ")"
  /\ pending' = [pending EXCEPT ![r] = Tail(@)]
  /\ UNCHANGED <<sc, pc, st, running, tdefaults, stored, ncall, prepared, args, kw, lidx, calls, callno, wires, sched, verdict>>

\* `new_token = await self.refresh_callback(self.access_token)`: the callback is entered and suspends
AwaitBegin(r) ==
  /\ running = r /\ AtLeaf(r) /\ IsRefresh(Leaf(r)) /\ calls[r] = <<>>
  /\ calls' = [calls EXCEPT ![r] = <<stored>>]
  /\ ncall' = ncall + 1 /\ callno' = [callno EXCEPT ![r] = ncall + 1]
  /\ st' = [st EXCEPT ![r] = "susp"] /\ running' = 0
  /\ UNCHANGED <<sc, pc, tdefaults, stored, prepared, args, kw, pending, lidx, wires, sched, verdict>>

\* ... the callback answers: `if new_token and new_token != self.access_token: self.access_token = new_token`
AwaitEnd(r) ==
  /\ pc = "run" /\ running = 0 /\ st[r] = "susp"
  /\ stored' = RefreshStep(Leaf(r), callno[r], stored)
  /\ st' = [st EXCEPT ![r] = "run"] /\ running' = r
  /\ sched' = Append(sched, [k |-> "resume", r |-> r])
  /\ UNCHANGED <<sc, pc, tdefaults, ncall, prepared, args, kw, pending, lidx, calls, callno, wires, verdict>>

\* a leaf's authenticate_request writes into the dict it was handed
Plugin(r) ==
  /\ running = r /\ AtLeaf(r)
  /\ IsRefresh(Leaf(r)) => calls[r] # <<>>
  /\ args' = [args EXCEPT ![Slot(r)] = ApplyPlugin(Variant, Leaf(r), IF IsRefresh(Leaf(r)) THEN stored ELSE Leaf(r).val, @)]
  /\ pending' = [pending EXCEPT ![r] = Tail(@)] /\ lidx' = [lidx EXCEPT ![r] = @ + 1]
  /\ UNCHANGED <<sc, pc, st, running, tdefaults, stored, ncall, prepared, kw, calls, callno, wires, sched, verdict>>

\* back in _prepare_headers / request: headers (and params / cookies) the plug-ins left, the other arguments, off it goes
Send(r) ==
  /\ running = r /\ pending[r] = <<>>
  /\ LET h == IF cfg.tree # <<>> THEN args[Slot(r)].headers
              ELSE IF cfg.bearer # "" THEN StepShortcut(Variant, cfg, prepared[r]) ELSE prepared[r] IN
       wires' = [wires EXCEPT ![r] = WireOf(Variant, kw[KwSlot(r)], h, args[Slot(r)], calls[r], tdefaults)]
  /\ st' = [st EXCEPT ![r] = "done"] /\ running' = 0
  /\ UNCHANGED <<sc, pc, tdefaults, stored, ncall, prepared, args, kw, pending, lidx, calls, callno, sched, verdict>>

AllDone == \A r \in Reqs : st[r] = "done"

Judge ==
  /\ pc = "run" /\ AllDone
  /\ verdict' = SessionFailures(cfgS, wires)
  /\ pc' = "done"
  /\ Emit => PrintT("SCEN " \o ToJson([sc |-> [sc EXCEPT !.sched = sched], cfg |-> cfgS, design |-> SetToSeq(verdict')]))
  /\ UNCHANGED <<sc, st, running, tdefaults, stored, ncall, prepared, args, kw, pending, lidx, calls, callno, wires, sched>>

Next == Judge \/ \E r \in Reqs : Start(r) \/ Enter(r) \/ Exit(r) \/ AwaitBegin(r) \/ AwaitEnd(r) \/ Plugin(r) \/ Send(r)
Spec == Init /\ [][Next]_vars

\* ---------------------------------------------------------------------------------------------
\* properties

TypeOK ==
  /\ pc \in {"run", "done"} /\ running \in 0..NReqs
  /\ \A r \in Reqs : st[r] \in {"idle", "run", "susp", "done"}
  /\ (running # 0 => st[running] = "run") /\ \A r \in Reqs : st[r] = "run" => running = r     \* one coroutine at a time
  /\ ncall <= NReqs /\ Len(sched) <= 2 * NReqs
  /\ (pc = "done") => ScenarioOK([sc EXCEPT !.sched = sched], MaxPlugins, NReqs)

Done == pc = "done"
\* the step-wise machine agrees with the closed form along its own schedule (the monitor uses the closed form)
MachineIsModel == Done => wires = ModelSched(Variant, cfgS)

Clean(cs) == Done => \A f \in verdict : f.clause \notin cs
KeyPlacement        == Clean({"C17.apikey_location", "C17.apikey_name"})
CallerArgsUntouched == Clean({"C17.caller_params_changed", "C17.body_changed"})
TokenFresh          == Clean({"C17.token_stale"})
DefaultsUnchanged   == [][tdefaults' = tdefaults]_vars
\* what leaves for request r is what a transport with no other request around would have sent for it
Sent(w) == [headers |-> w.headers, query |-> w.query, cookies |-> w.cookies, body |-> w.body, path |-> w.path]
RequestIsolation    == Done => \A r \in Reqs : Sent(wires[r]) = Sent(IsolatedWire(Variant, cfgS, r))
\* no header value, parameter, cookie, body or path of ANOTHER request is ever in what a request sends
NothingForeign      == Done => \A f \in verdict : f.locus.origin # "other-request"
=============================================================================
