-------------------------- MODULE Gen_WriterPaths --------------------------
(***************************************************************************)
(* X02: every call sequence of length MaxLen over PathCalls (calls in the  *)
(* external form [op, t, p, w, k, a] with string texts), together with the *)
(* text the sequence denotes according to WriterOps.tla.  The harness      *)
(* replays each sequence on a fresh real writer (and on a second instance  *)
(* interleaved with a third) - see harness/w_writer.py.                    *)
(***************************************************************************)
EXTENDS WriterOps, Json

CONSTANTS PathCalls, MaxLen, Mw0
VARIABLES path, st
vars == <<path, st>>

Init == path = <<>> /\ st = New(Mw0)
Next ==
  /\ Len(path) < MaxLen
  /\ \E c \in PathCalls :
       /\ path' = Append(path, c)
       /\ st' = Apply(IntCall(c), st).st
       /\ (Len(path') = MaxLen => PrintT("SCEN " \o ToJson([calls |-> path', code |-> Str(GetCode(st')), level |-> st'.level])))
Spec == Init /\ [][Next]_vars

\* whatever the sequence, the level is the number of indents minus the dedents that had something to undo
LevelNonNegative == st.level >= 0
=============================================================================
