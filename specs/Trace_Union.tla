----------------------------- MODULE Trace_Union -----------------------------
(***************************************************************************)
(* C14 monitor (total): judges what the REAL converter did with every      *)
(* (union, payload) pair against UnionCodec!ChooseVariant.                 *)
(*   trace == [id, u : union, cases : Seq([cid, p]),   (+ fresh, see below) *)
(*             obs : Seq([cid, pos, out, chosen, ckind, reenc, ekind])]    *)
(* cases[i].cid = i.  One VERDICT line per trace: every failing            *)
(* observation with its clause and locus, how often each clause's          *)
(* antecedent was exercised, and where the code-shaped model ImplChoose    *)
(* predicted something else than what was observed (drift, not a verdict). *)
(***************************************************************************)
EXTENDS UnionCodec, Json, IOUtils

Traces == ndJsonDeserialize(IOEnv.TRACE_FILE)
VARIABLES tid, done

\* per payload (independent of the position it was decoded at): what the property demands, what the code-shaped
\* model predicts and how that prediction would be judged
CaseRec(t, c) ==
  LET p == t.cases[c].p
      e == ChooseVariant(p, t.u)
      m == ImplChoose(p, t.u)
  IN [e |-> e, m |-> m, vm |-> JudgeE(p, t.u, m, e)]

\* A trace with a field `fresh` is a HISTORY trace: `obs` was recorded after another union with the same discriminator
\* table (but other variant classes) had been decoded through the same converter module, `fresh[i]` is the outcome of
\* the same decode in a fresh process.  HistoryIndependent: they are the same outcome (C14.history_dependent).
HasFresh(t) == "fresh" \in DOMAIN t

ObsRec(t, i, cr) ==
  LET o == t.obs[i]
      p == t.cases[o.cid].p
      v0 == JudgeE(p, t.u, o, cr.e)
      v == IF v0 = "ok" /\ HasFresh(t) /\ ~SameOutcome(o, t.fresh[i]) THEN "C14.history_dependent" ELSE v0
      m == cr.m
      \* the code-shaped model and the observation disagree on outcome class, produced variant or verdict
      d == \/ m.out # o.out
           \/ (o.out = "ok" /\ (IF o.chosen > 0 THEN o.chosen # m.chosen
                                ELSE IF m.chosen = 0 THEN o.ckind # "null"
                                ELSE ~KindMatches(o.ckind, t.u.vars[m.chosen])))
           \/ v # cr.vm
  IN [cid |-> o.cid, pos |-> o.pos, clause |-> v, drift |-> d,
      locus |-> IF v = "ok" THEN <<>> ELSE LocusE(p, t.u, o, cr.e),
      model |-> m.out, chosen |-> m.chosen]

Verdict(t) ==
  LET crs  == [c \in 1..Len(t.cases) |-> CaseRec(t, c)]
      recs == [i \in 1..Len(t.obs) |-> ObsRec(t, i, crs[t.obs[i].cid])]
      n(P(_)) == Cardinality({i \in 1..Len(t.obs) : P(crs[t.obs[i].cid].e)})
  IN [id |-> t.id, nobs |-> Len(t.obs), n_hist |-> IF HasFresh(t) THEN Len(t.obs) ELSE 0,
      fails |-> SelectSeq(recs, LAMBDA r : r.clause # "ok"),
      drift |-> SelectSeq(recs, LAMBDA r : r.drift),
      n_value |-> n(LAMBDA e : e.exp = "value"),
      n_disc_value |-> n(LAMBDA e : e.exp = "value" /\ t.u.disc.mode # "none"),
      n_unmapped |-> n(LAMBDA e : e.exp = "error" /\ e.why = "unmapped"),
      n_mapped_fails |-> n(LAMBDA e : e.exp = "error" /\ e.why = "mapped_fails"),
      n_unspecified |-> n(LAMBDA e : e.exp = "unspecified")]

Init == tid \in 1..Len(Traces) /\ done = FALSE
Judge1 ==
  /\ ~done
  /\ done' = TRUE
  /\ UNCHANGED tid
  /\ PrintT("VERDICT " \o ToJson(Verdict(Traces[tid])))
Spec == Init /\ [][Judge1]_<<tid, done>>
=============================================================================
