---------------------------- MODULE SchemaParse ----------------------------
(***************************************************************************)
(* Big-step, implementation-shaped model of the schema parser              *)
(*   src/pyopenapi_gen/core/parsing/schema_parser.py                       *)
(*     _parse_schema / _resolve_ref / _parse_properties / array items /    *)
(*     additionalProperties / composition keywords                         *)
(*   src/pyopenapi_gen/core/parsing/keywords/all_of_parser.py              *)
(*   src/pyopenapi_gen/core/loader/schemas/extractor.py  build_schemas     *)
(* over the cycle tracker of CycleTrackerCore.                             *)
(*                                                                         *)
(* The parser is deterministic, so it is modelled as a RECURSIVE evaluator *)
(* threading a context                                                     *)
(*   x == [t   : tracker state (stack, st, depth, reg),                    *)
(*         ps  : parsed_schemas  name -> entry,                            *)
(*         ev  : the sequence of enter / exit calls made so far,           *)
(*         cyc : detected_cycles (set of cycle paths),                     *)
(*         fuel]                                                           *)
(*   entry == [name, kind, fields, circ]                                   *)
(*     kind \in {"real","circ","self","depth","unres"}                     *)
(*     fields = set of property keys (what C02 judges), circ = the         *)
(*     _is_circular_ref mark put on a REAL schema by lines 902-921.        *)
(*   x.foreign = names under which a parse call for one node was answered  *)
(*     with the REAL entry built from a DIFFERENT node (the registry is    *)
(*     keyed by derived name only): AnswersOwnNode says this never happens.*)
(* The small-step view that C08 needs is recovered by replaying `ev`       *)
(* through the CycleTrackerCore step functions (the same functions the     *)
(* trace monitor uses).  `fuel` turns a non-terminating DESIGN into a      *)
(* verdict instead of a hung TLC.                                          *)
(*                                                                         *)
(* Schema nodes are abstract trees (harness/schemanode.py builds them from *)
(* the concrete OpenAPI document with plain structural inspection):        *)
(*   [k : "null" | "ref" | "schema", to, type, hasProps, hasDesc, isEnum,  *)
(*    props : Seq([key, pname, dname, node]), allOf, oneOf, anyOf,         *)
(*    items : Seq(node) (0/1), addl : Seq(node) (0/1), iname]              *)
(* pname / dname / iname are the NAMES the code derives for a property     *)
(* node (contextual <Parent><Prop> or NoName for simple primitives and     *)
(* simple arrays), for an own property of an allOf schema                  *)
(* ("<schema>.<prop>") and for inline array items ("<Name>Item"): string   *)
(* business, computed by the harness with plain string operations.         *)
(* Schema names are assumed to be fixed points of sanitize_class_name      *)
(* (PascalCase); other name sets are not modelled.                         *)
(***************************************************************************)
EXTENDS CycleTrackerCore, TLC

\* src = identity (document path) of the raw node an entry was built from; "ph" / "anon" / "unres" for entries built from no node
\* ch = content hash of that node (harness-supplied): two nodes with equal content mean the same, answering one with the other is harmless
Placeholder(n, kind) == [name |-> n, kind |-> kind, fields |-> {}, circ |-> kind = "circ", src |-> "ph", ch |-> "ph"]
Anonymous == [name |-> NoName, kind |-> "real", fields |-> {}, circ |-> FALSE, src |-> "anon", ch |-> "anon"]

HasKey(f, k) == k \in DOMAIN f
Put(f, k, v) == [x \in (DOMAIN f) \cup {k} |-> IF x = k THEN v ELSE f[x]]

Ev(x, e) == [x EXCEPT !.ev = Append(x.ev, e)]

\* unified_enter_schema through ParsingContext (records the call, stores the placeholder the tracker stores)
DoEnter(c, x, n, allowSelf) ==
  LET r == EnterF(c, x.t, n, allowSelf)
      t2 == [stack |-> r.stack, st |-> r.st, depth |-> r.depth, reg |-> r.reg]
      direct == r.o = "create_cycle" /\ Direct(n, x.t.stack)
      kind == IF r.o = "create_depth" THEN "depth" ELSE IF allowSelf /\ direct THEN "self" ELSE "circ"
      x1 == [x EXCEPT !.t = t2, !.ev = Append(x.ev, [k |-> "enter", n |-> n, o |-> r.o])]
      x2 == IF r.stored THEN [x1 EXCEPT !.ps = Put(x1.ps, n, Placeholder(n, kind))] ELSE x1
      x3 == IF r.o = "create_cycle" /\ ~(allowSelf /\ direct) THEN [x2 EXCEPT !.cyc = x2.cyc \cup {CyclePath(n, x.t.stack)}] ELSE x2
  IN [x |-> x3, o |-> r.o, ph |-> Placeholder(n, kind)]

DoExit(x, n) ==
  LET r == ExitF(x.t, n) IN
  [x EXCEPT !.t = [stack |-> r.stack, st |-> r.st, depth |-> r.depth, reg |-> r.reg],
            !.ev = Append(x.ev, [k |-> "exit", n |-> n, o |-> "none"])]

\* IRSchema.__post_init__ sanitises the name; registration uses that sanitised name as the key (c.san: harness-supplied)
San(c, n) == IF n \in DOMAIN c.san THEN c.san[n] ELSE n

Promotable(e) == e.kind \notin {"unres", "depth", "circ"}

RECURSIVE Parse(_, _, _, _, _, _), Body(_, _, _, _, _, _), ResolveRef(_, _, _, _, _),
          Members(_, _, _, _, _, _), Props(_, _, _, _, _, _, _), OwnDotted(_, _, _, _, _, _, _)

\* a call for `node` under name n is answered with the registered entry: foreign when that entry is a real schema built from another node
Answered(x, n, node) ==
  LET e1 == x.ps[n] IN
  IF node.k = "schema" /\ e1.kind = "real" /\ ~e1.circ /\ e1.src \notin {node.nid, "ph", "anon", "unres"} /\ e1.ch # node.ch
  THEN [x EXCEPT !.foreign = @ \cup {n}] ELSE x

\* _parse_schema(name, node, allow_self_reference=allowSelf); raw = raw_spec_schemas (name -> node)
Parse(c, raw, x, n, node, allowSelf) ==
  IF x.fuel = 0 THEN [x |-> x, res |-> Anonymous]
  ELSE
  LET x0 == [x EXCEPT !.fuel = x.fuel - 1]
      e == DoEnter(c, x0, n, allowSelf)
  IN CASE e.o = "existing" ->
            LET x1 == DoExit(e.x, n) IN
            IF n # NoName /\ HasKey(x1.ps, n) THEN [x |-> Answered(x1, n, node), res |-> x1.ps[n]]
            ELSE \* state reset, body parsed WITHOUT a new enter, exit again in `finally`
              LET x2 == IF n # NoName THEN [x1 EXCEPT !.t = [x1.t EXCEPT !.st = SetSt(x1.t, n, "NS")]] ELSE x1
                  b == Body(c, raw, x2, n, node, allowSelf)
              IN [x |-> DoExit(b.x, n), res |-> b.res]
       [] e.o = "placeholder" ->
            LET x1 == DoExit(e.x, n) IN
            [x |-> IF HasKey(x1.ps, n) THEN Answered(x1, n, node) ELSE x1, res |-> IF HasKey(x1.ps, n) THEN x1.ps[n] ELSE [Anonymous EXCEPT !.name = n]]
       [] e.o \in {"create_cycle", "create_depth"} ->
            [x |-> DoExit(e.x, n), res |-> e.ph]
       [] OTHER ->   \* continue
            LET b == Body(c, raw, e.x, n, node, allowSelf) IN
            [x |-> DoExit(b.x, n), res |-> b.res]

\* _resolve_ref: reuse a registered schema (unless it is a depth placeholder), else parse the referenced schema
ResolveRef(c, raw, x, target, allowSelf) ==
  IF HasKey(x.ps, target) /\ x.ps[target].kind # "depth" THEN [x |-> x, res |-> x.ps[target]]
  ELSE IF ~HasKey(raw, target) THEN [x |-> x, res |-> [name |-> target, kind |-> "unres", fields |-> {}, circ |-> FALSE, src |-> "unres", ch |-> "unres"]]
  ELSE Parse(c, raw, x, target, raw[target], allowSelf)

\* parse a sequence of anonymous member nodes (oneOf / anyOf / allOf); acc collects the member results
Members(c, raw, x, ms, allowSelf, acc) ==
  IF ms = <<>> THEN [x |-> x, res |-> acc]
  ELSE LET r == Parse(c, raw, x, NoName, Head(ms), allowSelf)
       IN Members(c, raw, r.x, Tail(ms), allowSelf, Append(acc, r.res))

\* _process_all_of, second half: own properties parsed under the dotted name "<schema>.<prop>"
OwnDotted(c, raw, x, n, ps, allowSelf, keys) ==
  IF ps = <<>> THEN [x |-> x, keys |-> keys]
  ELSE LET p == Head(ps)
           dn == p.dname
           r == Parse(c, raw, x, dn, p.node, allowSelf)
       IN OwnDotted(c, raw, r.x, n, Tail(ps), allowSelf, keys \cup {p.key})

\* _parse_properties: `done` = keys already merged from allOf (skipped here)
Props(c, raw, x, parent, ps, allowSelf, done) ==
  IF ps = <<>> THEN [x |-> x, keys |-> done]
  ELSE
  LET p == Head(ps)
      nd == p.node
  IN IF p.key \in done THEN Props(c, raw, x, parent, Tail(ps), allowSelf, done)
     ELSE IF nd.k = "ref" THEN
        LET r == ResolveRef(c, raw, x, nd.to, allowSelf) IN
        Props(c, raw, r.x, parent, Tail(ps), allowSelf, done \cup {p.key})
     ELSE IF nd.k = "schema" /\ nd.type = "object" /\ (nd.hasProps \/ nd.hasDesc) /\ parent # NoName THEN
        \* inline object promoted to <Parent><Prop>; registered by the caller unless a placeholder came back
        LET r == Parse(c, raw, x, p.pname, nd, allowSelf)
            x1 == IF Promotable(r.res) THEN [r.x EXCEPT !.ps = Put(r.x.ps, IF r.res.name # NoName THEN r.res.name ELSE p.pname, r.res)] ELSE r.x
        IN Props(c, raw, x1, parent, Tail(ps), allowSelf, done \cup {p.key})
     ELSE
        \* every other property node: parsed anonymously when it is a simple primitive / simple array (p.pname = NoName),
        \* otherwise under the contextual name <Parent><Prop> (p.pname; the naming rule is string business, done by the harness)
        LET r == Parse(c, raw, x, p.pname, nd, allowSelf)
        IN Props(c, raw, r.x, parent, Tail(ps), allowSelf, done \cup {p.key})

\* the body of _parse_schema after a CONTINUE_PARSING enter (the try block)
Body(c, raw, x, n, node, allowSelf) ==
  IF node.k = "null" THEN [x |-> x, res |-> [Anonymous EXCEPT !.name = n]]
  ELSE IF node.k = "ref" THEN
     LET r == ResolveRef(c, raw, x, node.to, allowSelf)
         store == n # NoName /\ ~(r.res.name # NoName /\ r.res.name # n /\ HasKey(r.x.ps, r.res.name)) /\ ~HasKey(r.x.ps, n)
     IN [x |-> IF store THEN [r.x EXCEPT !.ps = Put(r.x.ps, n, r.res)] ELSE r.x, res |-> r.res]
  ELSE
  LET \* composition keywords, in the order of _parse_composition_keywords: anyOf, oneOf, allOf
      a1 == Members(c, raw, x, node.anyOf, allowSelf, <<>>)
      a2 == Members(c, raw, a1.x, node.oneOf, allowSelf, <<>>)
      a3 == Members(c, raw, a2.x, node.allOf, allowSelf, <<>>)
      inherited == UNION {a3.res[i].fields : i \in 1..Len(a3.res)}
      own == IF node.allOf # <<>> THEN OwnDotted(c, raw, a3.x, n, node.props, allowSelf, inherited)
             ELSE [x |-> a3.x, keys |-> {}]
      isObj == node.type = "object" \/ (node.type = "none" /\ (node.hasProps \/ node.allOf # <<>> \/ (node.oneOf = <<>> /\ node.anyOf = <<>> /\ ~node.isEnum)))
      pr == IF isObj /\ node.hasProps THEN Props(c, raw, own.x, n, node.props, allowSelf, own.keys)
            ELSE [x |-> own.x, keys |-> own.keys]
      \* array items: parsed once for items_ir and once more in the "re-parse" block
      itemName == node.iname     \* <Name>Item for inline items, NoName for $ref / primitive / typeless items (harness: string business)
      typeless == node.items # <<>> /\ node.items[1].k = "schema" /\ node.items[1].type = "none" /\ node.items[1].allOf = <<>>
                     /\ node.items[1].oneOf = <<>> /\ node.items[1].anyOf = <<>> /\ ~node.items[1].hasProps
      i1 == IF node.type = "array" /\ node.items # <<>> /\ ~typeless THEN Parse(c, raw, pr.x, itemName, node.items[1], allowSelf) ELSE [x |-> pr.x, res |-> Anonymous]
      ap == IF node.addl # <<>> THEN Parse(c, raw, i1.x, NoName, node.addl[1], allowSelf) ELSE [x |-> i1.x, res |-> Anonymous]
      i2 == IF node.type = "array" /\ node.items # <<>> /\ ~typeless THEN Parse(c, raw, ap.x, itemName, node.items[1], allowSelf) ELSE [x |-> ap.x, res |-> Anonymous]
      xf == i2.x
      me0 == [name |-> IF n = NoName THEN NoName ELSE San(c, n), kind |-> "real", fields |-> IF isObj THEN pr.keys ELSE {}, circ |-> FALSE, src |-> node.nid, ch |-> node.ch]
      \* lines 902-921: a REAL schema that starts and ends a detected cycle is marked circular (direct or through an Item)
      marked == n # NoName /\ \E p \in xf.cyc : p[1] = n /\ p[Len(p)] = n /\ (Len(p) = 2 \/ (Len(p) = 3 /\ p[2] \in c.hasItem))
      me == [me0 EXCEPT !.circ = marked]
      shadowed == n # NoName /\ HasKey(xf.ps, n) /\ xf.ps[n].circ       \* `_is_circular_ref` of whatever is registered under the name
      isPrim == node.type \in {"string", "integer", "number", "boolean"} /\ ~node.isEnum
      register == n # NoName /\ ~(isPrim /\ ~HasKey(raw, n))
  IN IF shadowed THEN [x |-> xf, res |-> xf.ps[n]]             \* schema_parser.py:846-850: the stored cycle placeholder wins
     ELSE [x |-> IF register THEN [xf EXCEPT !.ps = Put(xf.ps, San(c, n), me)] ELSE xf, res |-> me]     \* key = schema_ir.name

\* build_schemas: every declared schema in declaration order, skipped when already registered
RECURSIVE Build(_, _, _, _)
Build(c, raw, x, order) ==
  IF order = <<>> THEN x
  ELSE LET n == Head(order) IN
       IF HasKey(x.ps, n) THEN Build(c, raw, x, Tail(order))
       ELSE Build(c, raw, Parse(c, raw, x, n, raw[n], TRUE).x, Tail(order))

InitCtx(fuel) == [t |-> [stack |-> <<>>, st |-> <<>>, depth |-> 0, reg |-> {}], ps |-> <<>>, ev |-> <<>>, cyc |-> {}, foreign |-> {}, fuel |-> fuel]

\* ---- what the design promises (evaluated on the result)
Terminated(x) == x.fuel > 0
AtRestAfter(x) == AtRestS(x.t)
ModelFields(x, n) == IF HasKey(x.ps, n) THEN x.ps[n].fields ELSE {}
AnswersOwnNode(x) == x.foreign = {}
=============================================================================
