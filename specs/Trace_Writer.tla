---------------------------- MODULE Trace_Writer ----------------------------
(***************************************************************************)
(* X02 monitor: judges what the REAL CodeWriter / LineWriter did.          *)
(* One record per line of TRACE_FILE (harness/w_writer.py):                *)
(*   [id, kind |-> "step", s, c, r, ret, exc]   s = writer before the call,*)
(*        c = the call, r = the real writer after it, ret = what a query   *)
(*        returned, exc = "none" or the exception type                     *)
(*   [id, kind |-> "pure", same]   the same call sequence on a second      *)
(*        instance (used while a third one is busy) gave the same writer   *)
(*   [id, kind |-> "fresh", s, mw]   the state of a newly made writer      *)
(* Total: every record gets exactly one VERDICT line naming the first      *)
(* statement of WriterOps.tla that the real post-state breaks (or "ok";    *)
(* "drift" = the code differs from the model where nothing is promised).   *)
(* The judgement is relative to the pre-state of the record, so a          *)
(* deviation does not cascade along a recorded call sequence.              *)
(***************************************************************************)
EXTENDS WriterOps, Json, IOUtils

Traces == ndJsonDeserialize(IOEnv.TRACE_FILE)
VARIABLES tid, done

V(cl, k, fam) == [clause |-> cl, kind |-> k, fam |-> fam]

\* everything agrees but the just-newlined flag: on an empty current line the flag decides whether the next text
\* starts at the current indentation ("Start a new line, with current indentation"), elsewhere nothing depends on it
FlagVerdict(R, fam) == IF Cur(R) = <<>> THEN V("X02.line_start", "next_text_indentation", fam) ELSE V("drift", "hidden_flag", fam)

\* lines written by a line-writing call: the first line that differs from what the call denotes names the statement
LineVerdict(S, E, R) ==
  \* (e = denoted region, g = real region)
  Then(Region(S, E), LAMBDA e : Then(Region(S, R), LAMBDA g :
    LET m == IF Len(e) < Len(g) THEN Len(e) ELSE Len(g)
        diffs == {i \in 1..m : e[i] # g[i]}
        k == CHOOSE i \in diffs : \A j \in diffs : i <= j
    IN IF diffs = {} THEN (IF Len(e) = Len(g) THEN FlagVerdict(R, "lines")
                           ELSE V("X02.line_count", IF Len(g) > Len(e) THEN "more_lines" ELSE "fewer_lines", "lines"))
       ELSE IF e[k] = <<>> /\ AllSpaces(g[k]) THEN V("X02.blank_clean", "blank_padded", "lines")
       ELSE IF HasAny(e[k], {"~"}) /\ ~HasAny(g[k], {"~"}) THEN V("X02.block_lines", "split_at_nonpython_break", "lines")
       ELSE IF LStrip(e[k]) = LStrip(g[k]) THEN V("X02.indent", "pad", "lines")
       ELSE V("X02.text_preserved", "text", "lines")))

WrapVerdict(S, c, E, R) ==
  IF ~WrapTextOk(c, S, R) THEN V("X02.wrap_text", "characters", "wrap")
  ELSE IF ~WrapWidthOk(c, S, R) THEN V("X02.wrap_width", "too_wide", "wrap")
  ELSE IF ~WrapAlignOk(c, S, R) THEN V("X02.wrap_align", "continuation", "wrap")
  ELSE IF ~WrapRejoinOk(c, S, R) THEN V("X02.wrap_tokens", "token_broken", "wrap")
  ELSE IF c.op # "append_wrapped" /\ (Len(R.lines) <= Len(S.lines) \/ R.lines[Len(R.lines)] # <<>>)
       THEN V("X02.line_count", "line_not_ended", "wrap")
  ELSE IF ExactLayout(c, S) /\ R.lines # E.lines THEN V("X02.wrap_layout", "not_greedy", "wrap")
  ELSE IF R.lines = E.lines THEN FlagVerdict(R, "wrap")
  ELSE V("ok", "laws_only", "wrap")

J(S, c, R, E, ret, exc) ==
  IF exc # "none" THEN (IF InContract(c, S) THEN V("X02.no_exception", exc, "any") ELSE V("drift", "exception_out_of_contract", "none"))
  ELSE IF R = E.st /\ ret = E.ret THEN V("ok", "exact", IF ~InContract(c, S) THEN "none" ELSE IF c.op \in Wrapping THEN "wrap" ELSE IF c.op \in Queries THEN "query" ELSE "lines")
  ELSE IF ~InContract(c, S) THEN (IF ExactLayout(c, S) THEN V("drift", "out_of_contract", "none") ELSE V("ok", "unmodelled", "none"))
  ELSE IF R.level # E.st.level THEN V("X02.level", "level", "any")
  ELSE IF R.mw # E.st.mw THEN V("X02.width_restored", "width_leaks", "any")
  ELSE IF ~IsPrefix(Done(S), R.lines) THEN V("X02.append_only", "completed_line_changed", "any")
  ELSE IF c.op \in Queries THEN (IF R # S THEN V("X02.query_pure", "state_changed", "query") ELSE V("X02.query_value", "value", "query"))
  ELSE IF c.op \in Wrapping THEN WrapVerdict(S, c, E.st, R)
  ELSE LineVerdict(S, E.st, R)

Judge(x) ==
  IF x.kind = "pure" THEN (IF x.same THEN V("ok", "exact", "pure") ELSE V("X02.pure", "instances_differ", "pure"))
  ELSE IF x.kind = "fresh" THEN (IF x.s = ExtState(New(x.mw)) THEN V("ok", "exact", "pure") ELSE V("X02.pure", "new_writer_not_empty", "pure"))
  ELSE Then(IntState(x.s), LAMBDA S : Then(IntCall(x.c), LAMBDA c : Then(IntState(x.r), LAMBDA R :
         Then(Apply(c, S), LAMBDA E : J(S, c, R, E, T(x.ret), x.exc)))))

Init == tid \in 1..Len(Traces) /\ done = FALSE
Fin == /\ ~done /\ done' = TRUE /\ UNCHANGED tid
       /\ LET x == Traces[tid] IN
          \A v \in {Judge(x)} :
            PrintT("VERDICT " \o ToJson([id |-> x.id, clause |-> v.clause, fam |-> v.fam,
                                         locus |-> [op |-> IF x.kind = "step" THEN x.c.op ELSE "sequence", kind |-> v.kind]]))
Spec == Init /\ [][Fin]_<<tid, done>>
=============================================================================
