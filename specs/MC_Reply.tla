----------------------------- MODULE MC_Reply -----------------------------
(***************************************************************************)
(* C05 - design check.  One call of a generated endpoint method, from the  *)
(* generator's decisions to what the caller receives:                      *)
(*                                                                         *)
(*   stage "generate"  SelectSignature (response_strategy's copy of the    *)
(*                     primary-response selection fixes the annotation and *)
(*                     the ResponseStrategy), SelectHandler (endpoint_     *)
(*                     utils' copy fixes which `case` gets the strategy-   *)
(*                     based return) - in either order;                    *)
(*   stage "match"     LoadFails when the emitted module is not valid      *)
(*                     Python; else the emitted `match response.status_    *)
(*                     code`: one                                          *)
(*                     action per kind of case (CasePrimary, CaseSecondary,*)
(*                     CaseDefault);                                       *)
(*   stage "extract"   one action per kind of emitted extraction           *)
(*                     (ReturnNone, StreamBytes, StreamSseJson,            *)
(*                     ContentTypeSwitch, StructureJson, CastJson,         *)
(*                     ReturnText, RaiseDefault; variant "fixed" only:     *)
(*                     StreamRecords);                                     *)
(*   stage "done"      Judge evaluates the property's clauses             *)
(*                     (Reply!Failures) INTO A VERDICT: one DESIGN line    *)
(*                     per (scenario, body) that fails, so a single run    *)
(*                     lists every specification-level counterexample.     *)
(*                                                                         *)
(* Scenario space: declared sets of <= MaxDecl statuses of {200, 201, 202, *)
(* 204, 206, default} with a designated served response (primary,          *)
(* secondary or default) x Reply!Cells x Reply!Bodies(level).              *)
(* Variant "as_is" mirrors the code; "fixed" satisfies the whole property  *)
(* (INVARIANT Property); "sig201" / "hdl201" prefer 201 over 200 in one    *)
(* ("sigsorted": lowest instead of first-declared other 2xx)               *)
(* selection copy only (INVARIANT SelectionsAgree must then fail).         *)
(***************************************************************************)
EXTENDS Reply, Json

CONSTANTS MaxDecl, Level, Variant, Emit

VARIABLES sc,       \* the scenario [served, cell, others, sib, ord, share]
          body,     \* what the server sends
          stage, sig, hdl, branch, outcome,
          acts      \* the actions taken so far (recorded: Judge reports them, the harness refuses a run in which an
                    \* action never fired - TLC's -coverage costs three times the run)
vars == <<sc, body, stage, sig, hdl, branch, outcome, acts>>

ASSUME Variant \in Variants /\ MaxDecl \in 1..3 /\ Level \in 1..2

D == Decl(sc)
DS == DocSeq(sc)
Unset == "-"

Init ==
  /\ sc \in {s \in Scenarios(MaxDecl) : WellFormedScenario(s)}
  /\ body \in Bodies(sc.cell.c, sc.cell.sh, Level)
  /\ stage = "generate" /\ sig = Unset /\ hdl = Unset /\ branch = Unset /\ outcome = NoOutcome /\ acts = {}

\* response_strategy.py:113 - decides the annotation and the strategy
SelectSignature ==
  /\ stage = "generate" /\ sig = Unset
  /\ sig' = PrimarySig(Variant, D, DS)
  /\ stage' = IF hdl # Unset THEN "match" ELSE stage
  /\ acts' = acts \cup {"SelectSignature"}
  /\ UNCHANGED <<sc, body, hdl, branch, outcome>>

\* endpoint_utils.py:139 - decides which `case` is "the primary one"
SelectHandler ==
  /\ stage = "generate" /\ hdl = Unset
  /\ hdl' = PrimaryHdl(Variant, D, DS)
  /\ stage' = IF sig # Unset THEN "match" ELSE stage
  /\ acts' = acts \cup {"SelectHandler"}
  /\ UNCHANGED <<sc, body, sig, branch, outcome>>

Strat == IF Variant = "fixed" THEN FixedStrategy(D[sc.served]) ELSE Strategy(D[sig])

Go(a, b) == branch' = b /\ stage' = "extract" /\ acts' = acts \cup {a} /\ UNCHANGED <<sc, body, sig, hdl, outcome>>
Finish(a, o) == outcome' = o /\ stage' = "done" /\ acts' = acts \cup {a} /\ UNCHANGED <<sc, body, sig, hdl, branch>>

\* the emitted endpoint module is not valid Python: nothing can be called
LoadFails ==
  /\ stage = "match" /\ Unimportable(Variant, D, DS)
  /\ Finish("LoadFails", Raised("SyntaxError"))

Loaded == stage = "match" /\ ~Unimportable(Variant, D, DS)
Imp == CattrsImported(Variant, D, DS, sc.sib)

\* `case <primary>:` - the strategy-based return
CasePrimary ==
  /\ Loaded /\ (Variant = "fixed" \/ (sc.served = hdl /\ hdl # "default"))
  /\ Go("CasePrimary", "strategy")
\* `case <other 2xx>:` - resolved per response, always through response.json()
CaseSecondary ==
  /\ Loaded /\ Variant # "fixed" /\ sc.served # hdl /\ sc.served # "default"
  /\ Go("CaseSecondary", "secondary")
\* `case _:  # Default response`
CaseDefault ==
  /\ Loaded /\ Variant # "fixed" /\ sc.served = "default"
  /\ Go("CaseDefault", "default")

\* the strategy a branch extracts with
BranchStrategy ==
  IF branch = "secondary" THEN (IF D[sc.served].c = "none" THEN [k |-> "none", ty |-> "None"] ELSE [k |-> "type", ty |-> TypeOf(D[sc.served].sh)])
  ELSE Strat
DefaultRaises == branch = "default" /\ (D["default"].c = "none" \/ Strat.k = "none")

Extract(a, kinds, o) ==
  /\ stage = "extract" /\ ~DefaultRaises
  /\ BranchStrategy.k \in kinds
  /\ Finish(a, o)

ReturnNone        == stage = "extract" /\ Extract("ReturnNone", {"none"}, Returned("none", JNull))
StreamBytes       == stage = "extract" /\ Extract("StreamBytes", {"aiter_bytes"}, IterBytes(body))
StreamSseJson     == stage = "extract" /\ Extract("StreamSseJson", {"aiter_json"}, IterSseJson(body))
ContentTypeSwitch == stage = "extract" /\ Extract("ContentTypeSwitch", {"switch"}, StrategyReturn(Imp, BranchStrategy, body))
\* (each action starts with its own stage guard so that TLC's coverage keeps the action's name)
StructureJson     == /\ stage = "extract" /\ UsesCattrs(BranchStrategy.ty)
                     /\ Extract("StructureJson", {"type"}, FromJson(Imp, BranchStrategy.ty, body))
CastJson          == /\ stage = "extract" /\ ~UsesCattrs(BranchStrategy.ty)
                     /\ Extract("CastJson", {"type"}, FromJson(Imp, BranchStrategy.ty, body))
ReturnText        == stage = "extract" /\ Extract("ReturnText", {"text"}, Returned("str", ServedText(body)))
StreamRecords     == stage = "extract" /\ Extract("StreamRecords", {"aiter_records"}, IterRecords(BranchStrategy.ty, body))
RaiseDefault      == stage = "extract" /\ DefaultRaises /\ Finish("RaiseDefault", Raised("HTTPError"))

TheCtx == Ctx(RoleOf(D, DS, sc.served), sc.cell.c, sc.cell.sh, "method")
TheAnn == Ann(Variant, D, DS)

Judge ==
  /\ stage = "done"
  /\ stage' = "judged" /\ acts' = acts \cup {"Judge"} /\ UNCHANGED <<sc, body, sig, hdl, branch, outcome>>
  /\ PrintT("ACTS " \o ToJson(SetToSeq(acts)))
  /\ LET fs == Failures(TheCtx, body, TheAnn, outcome)
     IN  (Emit /\ fs # {}) =>
           PrintT("DESIGN " \o ToJson([sib |-> sc.sib, order |-> DS, share |-> sc.share, served |-> sc.served, others |-> SetToSeq(sc.others), c |-> sc.cell.c, sh |-> sc.cell.sh,
                                       ct |-> body.ct, var |-> body.var, kind |-> outcome.kind, fails |-> SetToSeq(fs)]))

Next == \/ SelectSignature \/ SelectHandler \/ LoadFails
        \/ CasePrimary \/ CaseSecondary \/ CaseDefault
        \/ ReturnNone \/ StreamBytes \/ StreamSseJson \/ ContentTypeSwitch \/ StructureJson \/ CastJson
        \/ ReturnText \/ StreamRecords \/ RaiseDefault
        \/ Judge

Spec == Init /\ [][Next]_vars

\* ---------------------------------------------------------------------------------------------
Finished == stage \in {"done", "judged"}

TypeOK ==
  /\ stage \in {"generate", "match", "extract", "done", "judged"}
  /\ WellFormedScenario(sc)
  /\ sig \in Statuses \cup {Unset} /\ hdl \in Statuses \cup {Unset}
  /\ branch \in {Unset, "strategy", "secondary", "default"}
  /\ outcome.kind \in {"none", "return", "items", "raise"}
  /\ (Finished <=> outcome.kind # "none")

\* the machine's actions compose to the constant-level function the trace monitor compares the real code with
MachineIsModel == Finished => outcome = ModelOutcome(Variant, D, DS, sc.sib, sc.served, body)

\* both copies of the selection logic pick the same response (signature and handler agree)
SelectionsAgree == (sig # Unset /\ hdl # Unset) => sig = hdl
\* ... and it is the response the documented priority names
SelectionIsDocumented == (sig # Unset) => sig = PrimaryBy(DocOrder, D, DS)

\* state constraint of the negative-control runs (variants sig201 / hdl201 / sigsorted / hdlfirst): one cell is enough to
\* exhibit a disagreement of the two selection copies
ControlCell == sc.cell = [c |-> "json", sh |-> "object"] /\ ~sc.sib /\ sc.share = "inline"

\* the judge and the property as stated are the same predicate
JudgeAgrees == Finished => (Holds(TheCtx, body, TheAnn, outcome) <=> Failures(TheCtx, body, TheAnn, outcome) = {})

\* the whole property (variant "fixed")
Property == Finished => Holds(TheCtx, body, TheAnn, outcome)

\* clauses the as-is design does satisfy
NoContentIsNone == (Finished /\ body.ct = "none") => (outcome.kind = "return" /\ outcome.pykind = "none")
PrimaryJsonHolds ==
  (Finished /\ TheCtx.role = "primary" /\ sc.cell.c = "json") => Holds(TheCtx, body, TheAnn, outcome)
StreamsKeepOrder ==
  (Finished /\ outcome.kind = "items") => \A f \in Failures(TheCtx, body, TheAnn, outcome) : f.clause # "C05.stream_order"
=============================================================================
