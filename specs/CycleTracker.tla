--------------------------- MODULE CycleTracker ---------------------------
(***************************************************************************)
(* Design model of the cycle tracker API (step functions in                *)
(* CycleTrackerCore): free or LIFO-disciplined use over a fixed name set.  *)
(***************************************************************************)
EXTENDS CycleTrackerCore


CONSTANTS
  Names,        \* schema names of this instance
  Cfg,          \* configuration record c
  Disciplined,  \* TRUE: calls are bracketed LIFO (ghost `frames`); FALSE: free API use
  DepthCap      \* state constraint

VARIABLES
  stack, st, depth, reg,
  frames,  \* ghost: names of enters not yet exited
  last     \* outcome of the last call (what the conformance replay compares)

vars == <<stack, st, depth, reg, frames, last>>
S == [stack |-> stack, st |-> st, depth |-> depth, reg |-> reg]

Init ==
  /\ stack = <<>>
  /\ st = [n \in Names |-> "NS"]
  /\ depth = 0
  /\ reg = {}
  /\ frames = <<>>
  /\ last = [a |-> "init", n |-> NoName, o |-> "none"]

Enter(n, allowSelf) ==
  LET r == EnterF(Cfg, S, n, allowSelf) IN
  /\ stack' = r.stack /\ st' = r.st /\ depth' = r.depth /\ reg' = r.reg
  /\ frames' = Append(frames, n)
  /\ last' = [a |-> "enter", n |-> n, o |-> r.o]

Exit(n) ==
  LET r == ExitF(S, n) IN
  /\ Disciplined => (frames # <<>> /\ frames[Len(frames)] = n)
  /\ stack' = r.stack /\ st' = r.st /\ depth' = r.depth /\ reg' = r.reg
  /\ frames' = IF frames # <<>> THEN SubSeq(frames, 1, Len(frames) - 1) ELSE frames
  /\ last' = [a |-> "exit", n |-> n, o |-> "none"]

Next == \E n \in Names \cup {NoName} : (\E b \in BOOLEAN : Enter(n, b)) \/ Exit(n)

Spec == Init /\ [][Next]_vars

Bound == depth <= DepthCap /\ Len(frames) <= DepthCap

----------------------------------------------------------------------------
(* Invariants of the tracker design *)

TypeOK ==
  /\ st \in [Names -> States]
  /\ depth \in Nat
  /\ reg \subseteq Names
  /\ SeqSet(stack) \subseteq Names

NoDupOnStack == \A i, j \in 1..Len(stack) : i # j => stack[i] # stack[j]
InProgressIsOnStack == \A n \in Names : st[n] = "IP" => InSeq(n, stack)
StoredIsPlaceholder == \A n \in reg : st[n] \in PH

\* C08 at design level: under LIFO-bracketed use the tracker is at rest whenever no call is open,
\* and the depth counter equals the number of open calls.
RestWhenClosed   == Disciplined => (frames = <<>> => AtRestS(S))
DepthIsOpenCalls == Disciplined => depth = Len(frames)
\* the limit: under bracketed use no more than MaxDepth named schemas are ever in progress
LimitRespected   == Disciplined => Len(stack) <= Cfg.maxDepth
\* terminal states are absorbing for enter: a DONE / placeholder name is never put in progress again
TerminalAbsorbing == [][\A n \in Names : st[n] \in PH \cup {"DONE"} => st'[n] = st[n]]_vars

=============================================================================
