--------------------------- MODULE Gen_SharedCore ---------------------------
(* Behaviour generator for C11: SharedCore with the history of generate calls kept in `hist`, so the state
   graph is the TREE of all histories of length <= MaxLen (dumped with -dump dot; every node carries the
   history that reaches it and the specification's state after it).
   Canon = TRUE keeps one representative per renaming of the clients (a client that has not been generated
   yet may only be picked when every client before it in Order has been generated). *)
EXTENDS SharedCore

CONSTANTS Order, Canon
VARIABLE hist

gvars == <<layout, registry, aliases, needs, generated, priv, n, regstate, nenv, envkind, hist>>

Pos(c) == CHOOSE i \in 1..Len(Order) : Order[i] = c
Canonical(c) == (Canon => (c \in generated \/ \A i \in 1..(Pos(c) - 1) : Order[i] \in generated)) = TRUE

GInit == Init /\ hist = <<>>
GNext == \/ \E c \in Clients, codes \in CodeSets, force \in BOOLEAN :
            /\ Canonical(c)
            /\ Generate(c, codes, force, layout.id)
            /\ hist' = Append(hist, [c |-> c, codes |-> codes, force |-> force, env |-> "gen"])
         \/ \E k \in CorruptKinds :
            /\ Corrupt(k)
            /\ hist' = Append(hist, [c |-> "-", codes |-> {}, force |-> FALSE, env |-> k])
         \/ \E c \in Clients, codes \in CodeSets, at \in {"int-registry", "int-aliases"} :
            /\ Canonical(c)
            /\ Interrupted(c, codes, at)
            /\ hist' = Append(hist, [c |-> c, codes |-> codes, force |-> TRUE, env |-> at])
GSpec == GInit /\ [][GNext]_gvars
=============================================================================
