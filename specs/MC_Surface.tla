---------------------------- MODULE MC_Surface ----------------------------
(***************************************************************************)
(* Design-level model of the three grouping rules AS THE CODE HAS THEM:    *)
(*   endpoints  (endpoints_emitter.emit)        : every tag, folded        *)
(*   APIClient  (client_visitor.visit)          : every tag, folded; the   *)
(*        tag properties are written BEFORE `request` / `close`, so a      *)
(*        property of that name is overwritten in the class body           *)
(*   mocks      (mocks_emitter._group_operations_by_tag): FIRST RAW tag;   *)
(*        one mock file per sanitised module name (a later raw tag with    *)
(*        the same module name overwrites the file), one MockAPIClient     *)
(*        constructor argument per RAW tag (duplicates = SyntaxError)      *)
(* over ALL tag assignments of <= MaxOps operations, each with at most two *)
(* tags from MCTags.  Variant "fixed" groups mocks the way endpoints are   *)
(* grouped and escapes property names that APIClient uses itself; for it   *)
(* the reference meaning holds as real INVARIANTS.  For "as_is" the        *)
(* deviations are evaluated into `verdict` (clause + locus, the loci of    *)
(* the monitors) and printed, one DESIGN line per tag assignment.          *)
(***************************************************************************)
EXTENDS Surface, Json

CONSTANTS Variant,     \* "as_is" | "fixed"
          MaxOps

MCTags == {"a", "b", "user-accounts", "User Accounts", "userAccounts", "request"}
TagLists == {<<>>} \cup {<<t>> : t \in MCTags} \cup {<<p[1], p[2]>> : p \in {q \in MCTags \X MCTags : q[1] # q[2]}}
\* module / property name the sanitiser derives (all spelling variants of one class give the same one here)
ModName(t) == IF t = Default THEN Default ELSE IF Fold(t) = "useraccounts" THEN "user_accounts" ELSE Fold(t)
ModOfKey(k) == IF k = "useraccounts" THEN "user_accounts" ELSE k
ApiAttrs == {"request", "close", "config", "transport"}

VARIABLES doc,        \* Seq of operations [tags, keys]
          pc,
          endpoints,  \* class key -> operations of its endpoint client
          props,      \* APIClient properties that survive the class body
          mocks,      \* module name -> operations of the mock class in that file
          mockargs,   \* MockAPIClient constructor arguments, in order
          mockprops,
          verdict
vars == <<doc, pc, endpoints, props, mocks, mockargs, mockprops, verdict>>

Ops == doc
N == Len(doc)
First(i) == IF Len(doc[i].tags) = 0 THEN Default ELSE doc[i].tags[1]
\* distinct first raw tags in order of first appearance
FirstSeq ==
  LET idx == {i \in 1..N : \A h \in 1..(i - 1) : First(h) # First(i)} IN
  [j \in 1..Cardinality(idx) |-> First(SetToSortSeq(idx, LAMBDA x, y : x < y)[j])]
GroupOfRaw(t) == {i \in 1..N : First(i) = t}
LastRawOfModule(n) == FirstSeq[Max({j \in 1..Len(FirstSeq) : ModName(FirstSeq[j]) = n})]

Init ==
  /\ doc \in UNION {[1..n -> {[tags |-> tl, keys |-> KeysOf(tl)] : tl \in TagLists}] : n \in 1..MaxOps}
  /\ pc = "endpoints" /\ endpoints = <<>> /\ props = {} /\ mocks = <<>> /\ mockargs = <<>> /\ mockprops = {} /\ verdict = {}

GroupEndpoints ==
  /\ pc = "endpoints" /\ pc' = "client"
  /\ endpoints' = ExpectedClients(Ops)
  /\ UNCHANGED <<doc, props, mocks, mockargs, mockprops, verdict>>

GroupClient ==
  /\ pc = "client" /\ pc' = "mocks"
  /\ props' = IF Variant = "as_is" THEN {ModOfKey(k) : k \in AllClasses(Ops)} \ ApiAttrs
                                   ELSE {ModOfKey(k) : k \in AllClasses(Ops)}
  /\ UNCHANGED <<doc, endpoints, mocks, mockargs, mockprops, verdict>>

GroupMocks ==
  /\ pc = "mocks" /\ pc' = "judge"
  /\ IF Variant = "as_is"
       THEN /\ mockargs' = [j \in 1..Len(FirstSeq) |-> ModName(FirstSeq[j])]
            /\ mocks' = [n \in {ModName(FirstSeq[j]) : j \in 1..Len(FirstSeq)} |-> GroupOfRaw(LastRawOfModule(n))]
            /\ mockprops' = {ModName(FirstSeq[j]) : j \in 1..Len(FirstSeq)} \ ApiAttrs
       ELSE /\ mockargs' = SetToSeq({ModOfKey(k) : k \in AllClasses(Ops)})
            /\ mocks' = [n \in {ModOfKey(k) : k \in AllClasses(Ops)} |-> OpsOf(Ops, CHOOSE k \in AllClasses(Ops) : ModOfKey(k) = n)]
            /\ mockprops' = {ModOfKey(k) : k \in AllClasses(Ops)}
  /\ UNCHANGED <<doc, endpoints, props, verdict>>

DupArgs(s) == \E i, j \in 1..Len(s) : i < j /\ s[i] = s[j]

Deviations ==
  {[clause |-> "C07.client_unreachable", locus |-> [shadowed_by |-> k, class_emitted |-> k \in DOMAIN endpoints]] : k \in {k \in AllClasses(Ops) : ModOfKey(k) \notin props}}
  \cup (IF DupArgs(mockargs)
          THEN {[clause |-> "C01.mock_client_syntax", locus |-> [args |-> Len(mockargs), clients |-> Cardinality(ToSet(mockargs))]]}
          ELSE {[clause |-> "C13.mock_class_missing", locus |-> [tagpos |-> MinTagPos(Ops, k), variants |-> Variants(Ops, k)]] :
                   k \in {k \in AllClasses(Ops) : ModOfKey(k) \notin DOMAIN mocks}}
               \cup {[clause |-> "C13.apiclient_property_missing", locus |-> [side |-> "mock", tagpos |-> MinTagPos(Ops, k), variants |-> Variants(Ops, k)]] :
                   k \in {k \in AllClasses(Ops) : ModOfKey(k) \in props /\ ModOfKey(k) \notin mockprops}}
               \cup UNION {{[clause |-> "C13.method_missing", locus |-> [side |-> "mock", tagpos |-> TagPos(Ops[i], k), variants |-> Variants(Ops, k)]] :
                              i \in OpsOf(Ops, k) \ mocks[ModOfKey(k)]} :
                           k \in {k \in AllClasses(Ops) : ModOfKey(k) \in DOMAIN mocks}})

Judge ==
  /\ pc = "judge" /\ pc' = "done"
  /\ verdict' = Deviations
  /\ PrintT("DESIGN " \o ToJson([n |-> N, multi |-> \E i \in 1..N : Len(doc[i].tags) > 1, fails |-> SetToSeq(verdict')]))
  /\ UNCHANGED <<doc, endpoints, props, mocks, mockargs, mockprops>>

Next == GroupEndpoints \/ GroupClient \/ GroupMocks \/ Judge
Spec == Init /\ [][Next]_vars

\* ---- invariants ---------------------------------------------------------------------------
TypeOK == pc \in {"endpoints", "client", "mocks", "judge", "done"}
\* C07: every (operation, class) pair has exactly one method on that class's endpoint client (both variants)
ExactlyOncePerClass ==
  pc # "endpoints" => /\ DOMAIN endpoints = AllClasses(Ops)
                      /\ \A k \in AllClasses(Ops) : endpoints[k] = OpsOf(Ops, k)
                      /\ MapThenSumSet(LAMBDA k : Cardinality(endpoints[k]), DOMAIN endpoints) = ExpectedMethodCount(Ops)
\* what only the fixed design satisfies
ClientsReachable == pc \in {"mocks", "judge", "done"} => \A k \in AllClasses(Ops) : ModOfKey(k) \in props
MockParity ==
  pc \in {"judge", "done"} => /\ ~DupArgs(mockargs)
                              /\ mockprops = props
                              /\ \A k \in AllClasses(Ops) : ModOfKey(k) \in DOMAIN mocks /\ mocks[ModOfKey(k)] = endpoints[k]
NoDeviation == pc = "done" => verdict = {}
=============================================================================
