----------------------------- MODULE Pagination -----------------------------
(***************************************************************************)
(* Growth beyond the listed properties: src/pyopenapi_gen/core/pagination.py*)
(*   paginate_by_next(fetch_page, items_key, next_key, params...)          *)
(* as a loop over pages.  A server is a function from the token it is      *)
(* asked for (NoTok on the first call) to a page [items, next]; `next` may *)
(* be a further token, or one of the falsy values the code treats as       *)
(* "last page" (absent key, None, "", 0).                                  *)
(*   Fetch   : one awaited fetch_page call with the current params         *)
(*   Yield   : one item handed to the consumer                             *)
(*   Advance : token stored into params[next_key] / loop exit              *)
(* Properties: the requests follow the chain of tokens; every item of every*)
(* visited page is yielded exactly once, in order (`out` = concatenation); *)
(* the iteration ends exactly when a falsy token arrives; on a cyclic      *)
(* server it never ends (the design has no visited-set) - stated as        *)
(* NoTerminationOnCycle so that the fact is explicit.                      *)
(***************************************************************************)
EXTENDS Naturals, Sequences, FiniteSets, TLC, Json, SequencesExt

CONSTANTS Tokens,     \* real page tokens, e.g. {"t1","t2"}
          Falsy,      \* values that end the iteration: {"absent","none","empty","zero"}
          ItemSets,   \* possible item lists of a page
          MaxSteps    \* bound on Fetch steps for cyclic servers
NoTok == "NOTOK"

VARIABLES server, asked, pc, page, idx, out, reqs, done
vars == <<server, asked, pc, page, idx, out, reqs, done>>

Pages == [items : ItemSets, next : Tokens \cup Falsy]
Servers == [Tokens \cup {NoTok} -> Pages]

Init ==
  /\ server \in Servers
  /\ asked = NoTok /\ pc = "fetch" /\ page = [items |-> <<>>, next |-> "absent"] /\ idx = 1
  /\ out = <<>> /\ reqs = <<>> /\ done = FALSE

Fetch ==
  /\ pc = "fetch" /\ ~done /\ Len(reqs) < MaxSteps
  /\ page' = server[asked] /\ reqs' = Append(reqs, asked) /\ idx' = 1 /\ pc' = "yield"
  /\ UNCHANGED <<server, asked, out, done>>

Yield ==
  /\ pc = "yield" /\ idx <= Len(page.items)
  /\ out' = Append(out, page.items[idx]) /\ idx' = idx + 1
  /\ UNCHANGED <<server, asked, pc, page, reqs, done>>

Advance ==
  /\ pc = "yield" /\ idx > Len(page.items)
  /\ IF page.next \in Falsy THEN done' = TRUE /\ pc' = "end" /\ UNCHANGED asked
     ELSE asked' = page.next /\ pc' = "fetch" /\ UNCHANGED done
  /\ UNCHANGED <<server, page, idx, out, reqs>>

Next == Fetch \/ Yield \/ Advance
Spec == Init /\ [][Next]_vars /\ WF_vars(Next)

\* ---- reference meaning: the chain of tokens from NoTok, cut at the first falsy `next` (or at MaxSteps)
RECURSIVE Chain(_, _, _)
Chain(s, t, fuel) == IF fuel = 0 THEN <<>> ELSE <<t>> \o (IF s[t].next \in Falsy THEN <<>> ELSE Chain(s, s[t].next, fuel - 1))
Concat(s, ts) == FoldLeft(LAMBDA acc, t : acc \o s[t].items, <<>>, ts)
Acyclic(s) == LET c == Chain(s, NoTok, MaxSteps) IN s[c[Len(c)]].next \in Falsy

RequestsFollowChain == IsPrefix(reqs, Chain(server, NoTok, MaxSteps))
ItemsInOrder == IsPrefix(out, Concat(server, Chain(server, NoTok, MaxSteps)))
DoneMeansComplete == done => (reqs = Chain(server, NoTok, MaxSteps) /\ out = Concat(server, reqs) /\ Acyclic(server))
NoTerminationOnCycle == ~Acyclic(server) => ~done
Terminates == Acyclic(server) => <>done
=============================================================================
