---------------------------- MODULE TransportCore ----------------------------
(***************************************************************************)
(* C17 - constant-level part of the transport specification.               *)
(*                                                                         *)
(*  * the scenario vocabulary (abstract scenario `sc`) and its ONE         *)
(*    concretisation `Concrete(sc)` (names, values, plug-in records) - the *)
(*    harness builds the real objects from exactly this record;            *)
(*  * the REFERENCE meaning of a configuration: `ExpectedHeaders` (fold of *)
(*    the plug-ins over (per-request over defaults), header names compared *)
(*    case-insensitively), `ExpectedQuery`, `ExpectedCookies`;             *)
(*  * the IMPLEMENTATION-SHAPED functions of HttpxTransport._prepare_      *)
(*    headers / request and of the bundled plug-ins (python dicts are      *)
(*    ordered, case-SENSITIVE; auth runs on a headers-only scratch dict),  *)
(*    plus the variant "fixed" (case-insensitive merge, plug-ins get the   *)
(*    real request arguments) used to show the reference is satisfiable;   *)
(*  * the judge `Failures(cfg, obs)` : the set of failing C17 clauses of   *)
(*    an observed request (modelled wire or real captured httpx.Request).  *)
(*                                                                         *)
(* A "dict" is a sequence of <<key, value>> pairs in insertion order.      *)
(* An observation is                                                       *)
(*   [headers : Seq(<<raw name, lower-case name, value>>),                 *)
(*    query, cookies : Seq(<<name, value>>), body : STRING,                *)
(*    refresh : Seq(STRING)   arguments the refresh callback was called w/ *)
(*    err : STRING]           "none" or the exception type                 *)
(***************************************************************************)
EXTENDS Naturals, Sequences, FiniteSets, SequencesExt, FiniteSetsExt

\* ---------------------------------------------------------------------------------------------
\* names

Lower(n) ==
  CASE n = "Authorization" -> "authorization"
    [] n = "X-Tag"         -> "x-tag"
    [] n = "X-Def"         -> "x-def"
    [] n = "X-Req"         -> "x-req"
    [] n = "X-Custom-Key"  -> "x-custom-key"
    [] n = "X-Client-ID"   -> "x-client-id"
    [] OTHER               -> n          \* every other name of the vocabulary is lower-case already

Pats  == {"disjoint", "equal", "casevar"}
Kinds == {"B", "KH", "KQ", "KC", "H", "O", "OR"}

\* ---------------------------------------------------------------------------------------------
\* scenario space

Injective(s) == \A i, j \in DOMAIN s : i # j => s[i] # s[j]
PlugSeqs(max) == {s \in UNION {[1..n -> Kinds] : n \in 0..max} : Injective(s)}

Wraps(p) == CASE Len(p) = 0 -> {"none"}
              [] Len(p) = 1 -> {"direct", "composite"}
              [] Len(p) = 2 -> {"flat", "nestR"}
              [] OTHER      -> {"flat", "nestL", "nestR"}

\* the bearer_token= shortcut: alone, or next to one plug-in ("auth takes precedence")
Shorts(p) == IF Len(p) <= 1 THEN BOOLEAN ELSE {FALSE}

\* <<defaults, per-request>> : per-request header name relative to the default header X-Tag
DefReq == {<<"none", "none">>, <<"none", "disjoint">>, <<"tag", "none">>, <<"tag", "disjoint">>,
           <<"tag", "equal">>, <<"tag", "casevar">>}

\* a caller-supplied Authorization header (what Bearer / OAuth2 / the shortcut write): layer and spelling
CallerAuth == {"none", "def-equal", "def-casevar", "req-equal", "req-casevar"}

InSeq(x, s) == \E i \in DOMAIN s : s[i] = x
\* name of the header-located API key relative to the caller's X-Tag
KeyNames(p, dr) == IF InSeq("KH", p) /\ dr[1] = "tag" THEN Pats ELSE {"disjoint"}
\* extra header of HeadersAuth relative to Authorization
HdrNames(p) == IF InSeq("H", p) THEN Pats ELSE {"disjoint"}

ScenarioOK(s, max) ==
  /\ s.plugs \in PlugSeqs(max)
  /\ s.wrap \in Wraps(s.plugs) /\ s.short \in Shorts(s.plugs)
  /\ <<s.dflt, s.req>> \in DefReq /\ s.ca \in CallerAuth
  /\ s.kn \in KeyNames(s.plugs, <<s.dflt, s.req>>) /\ s.hn \in HdrNames(s.plugs)
  /\ s.params \in BOOLEAN /\ s.cookies \in BOOLEAN /\ s.body \in BOOLEAN

\* ---------------------------------------------------------------------------------------------
\* concretisation (the only place where names and values are chosen)

PluginOf(k, sc) ==
  LET base == [kind |-> "", loc |-> "header", name |-> "", val |-> "", hdrs |-> <<>>, refresh |-> FALSE, newval |-> ""] IN
  CASE k = "B"  -> [base EXCEPT !.kind = "bearer", !.name = "Authorization", !.val = "tok-b"]
    [] k = "KH" -> [base EXCEPT !.kind = "apikey", !.val = "key-h",
                                !.name = CASE sc.kn = "disjoint" -> "X-Custom-Key"
                                           [] sc.kn = "equal"    -> "X-Tag"
                                           [] sc.kn = "casevar"  -> "x-tag"]
    [] k = "KQ" -> [base EXCEPT !.kind = "apikey", !.loc = "query", !.name = "k_q", !.val = "key-q"]
    [] k = "KC" -> [base EXCEPT !.kind = "apikey", !.loc = "cookie", !.name = "k_c", !.val = "key-c"]
    [] k = "H"  -> [base EXCEPT !.kind = "headers",
                                !.hdrs = <<<<"X-Client-ID", "h-cid">>>> \o
                                         (CASE sc.hn = "disjoint" -> <<>>
                                            [] sc.hn = "equal"    -> <<<<"Authorization", "h-auth">>>>
                                            [] sc.hn = "casevar"  -> <<<<"authorization", "h-auth">>>>)]
    [] k = "O"  -> [base EXCEPT !.kind = "oauth2", !.name = "Authorization", !.val = "tok-o"]
    [] k = "OR" -> [base EXCEPT !.kind = "oauth2", !.name = "Authorization", !.val = "tok-r0", !.refresh = TRUE,
                                !.newval = "tok-r1"]

CallerAuthPair(sc, layer) ==
  CASE sc.ca = layer \o "-equal"   -> <<<<"Authorization", "caller-auth">>>>
    [] sc.ca = layer \o "-casevar" -> <<<<"authorization", "caller-auth">>>>
    [] OTHER                       -> <<>>

Concrete(sc) ==
  [defaults   |-> (IF sc.dflt = "tag" THEN <<<<"X-Tag", "d-tag">>, <<"X-Def", "d-only">>>> ELSE <<>>)
                    \o CallerAuthPair(sc, "def"),
   reqHeaders |-> (CASE sc.req = "none"     -> <<>>
                     [] sc.req = "disjoint" -> <<<<"X-Req", "r-only">>>>
                     [] sc.req = "equal"    -> <<<<"X-Tag", "r-tag">>>>
                     [] sc.req = "casevar"  -> <<<<"x-tag", "r-tag">>>>)
                    \o CallerAuthPair(sc, "req"),
   plugins    |-> [i \in DOMAIN sc.plugs |-> PluginOf(sc.plugs[i], sc)],
   wrap       |-> sc.wrap,
   bearer     |-> IF sc.short THEN "tok-s" ELSE "",
   params     |-> IF sc.params THEN <<<<"q", "1">>, <<"page", "2">>>> ELSE <<>>,
   cookies    |-> IF sc.cookies THEN <<<<"sid", "c1">>>> ELSE <<>>,
   body       |-> IF sc.body THEN "payload-1" ELSE ""]
\* empty defaults => default_headers=None ; empty reqHeaders => no `headers=` argument ; likewise params,
\* cookies ; body "" => no content= argument

\* ---------------------------------------------------------------------------------------------
\* REFERENCE meaning (independent of how the code is organised)

Pairs(d) == {d[i] : i \in DOMAIN d}

\* a dict read case-insensitively: lower-case name -> value of its last entry
CIMap(d) == [n \in {Lower(d[i][1]) : i \in DOMAIN d} |->
               d[Max({i \in DOMAIN d : Lower(d[i][1]) = n})][2]]
Over(top, base) == [n \in (DOMAIN top) \cup (DOMAIN base) |-> IF n \in DOMAIN top THEN top[n] ELSE base[n]]

HeaderWrites(p) ==
  CASE p.kind = "bearer"  -> <<<<"Authorization", "Bearer " \o p.val>>>>
    [] p.kind = "oauth2"  -> <<<<"Authorization", "Bearer " \o (IF p.refresh THEN p.newval ELSE p.val)>>>>
    [] p.kind = "apikey"  -> IF p.loc = "header" THEN <<<<p.name, p.val>>>> ELSE <<>>
    [] p.kind = "headers" -> p.hdrs

ShortcutPlugin(tok) == [kind |-> "bearer", loc |-> "header", name |-> "Authorization", val |-> tok, hdrs |-> <<>>,
                        refresh |-> FALSE, newval |-> ""]
\* documented: "If both auth and bearer_token are provided, auth takes precedence"
Plugs(cfg) == IF cfg.plugins # <<>> THEN cfg.plugins
              ELSE IF cfg.bearer # "" THEN <<ShortcutPlugin(cfg.bearer)>> ELSE <<>>

RECURSIVE FoldPlugins(_, _)
FoldPlugins(h, ps) == IF ps = <<>> THEN h ELSE FoldPlugins(Over(CIMap(HeaderWrites(Head(ps))), h), Tail(ps))

ExpectedHeaders(cfg) == FoldPlugins(Over(CIMap(cfg.reqHeaders), CIMap(cfg.defaults)), Plugs(cfg))

KeyPairs(cfg, loc) == LET ks == SelectSeq(cfg.plugins, LAMBDA p : p.kind = "apikey" /\ p.loc = loc)
                      IN [i \in DOMAIN ks |-> <<ks[i].name, ks[i].val>>]
ExpectedQuery(cfg)   == cfg.params \o KeyPairs(cfg, "query")
ExpectedCookies(cfg) == cfg.cookies \o KeyPairs(cfg, "cookie")

\* ---------------------------------------------------------------------------------------------
\* IMPLEMENTATION-SHAPED functions

Has(d, k)    == \E i \in DOMAIN d : d[i][1] = k
Put(d, k, v) == IF Has(d, k) THEN [i \in DOMAIN d |-> IF d[i][1] = k THEN <<k, v>> ELSE d[i]]
                ELSE Append(d, <<k, v>>)
HasCI(d, k)    == \E i \in DOMAIN d : Lower(d[i][1]) = Lower(k)
PutCI(d, k, v) == IF HasCI(d, k) THEN [i \in DOMAIN d |-> IF Lower(d[i][1]) = Lower(k) THEN <<k, v>> ELSE d[i]]
                  ELSE Append(d, <<k, v>>)
HPut(variant, d, k, v) == IF variant = "fixed" THEN PutCI(d, k, v) ELSE Put(d, k, v)
RECURSIVE HUpdate(_, _, _)
HUpdate(variant, d, e) == IF e = <<>> THEN d ELSE HUpdate(variant, HPut(variant, d, e[1][1], e[1][2]), Tail(e))

\* 1. prepared_headers = {} ; prepared_headers.update(default_headers)
StepDefaults(variant, cfg) == HUpdate(variant, <<>>, cfg.defaults)
\* 2. prepared_headers.update(kwargs["headers"])
StepPerRequest(variant, cfg, prepared) == HUpdate(variant, prepared, cfg.reqHeaders)
\* 3. temp_request_args_for_auth = {"headers": prepared_headers.copy()}   (as is: nothing else of the request)
ScratchOf(variant, cfg, prepared) ==
  IF variant = "fixed" THEN [headers |-> prepared, params |-> cfg.params, cookies |-> cfg.cookies]
  ELSE [headers |-> prepared, params |-> <<>>, cookies |-> <<>>]
\* OAuth2Auth: new = await refresh_callback(self.access_token); if new and new != access_token: access_token = new
Refreshed(p) == IF p.newval # "" /\ p.newval # p.val THEN p.newval ELSE p.val
\* plugin.authenticate_request(request_args) ; tok = the plug-in's access_token at that moment
ApplyPlugin(variant, p, tok, args) ==
  CASE p.kind = "bearer"  -> [args EXCEPT !.headers = HPut(variant, @, "Authorization", "Bearer " \o p.val)]
    [] p.kind = "oauth2"  -> [args EXCEPT !.headers = HPut(variant, @, "Authorization", "Bearer " \o tok)]
    [] p.kind = "headers" -> [args EXCEPT !.headers = HUpdate(variant, @, p.hdrs)]
    [] p.kind = "apikey"  ->
         CASE p.loc = "header" -> [args EXCEPT !.headers = HPut(variant, @, p.name, p.val)]
           [] p.loc = "query"  -> [args EXCEPT !.params  = Put(@, p.name, p.val)]
           [] p.loc = "cookie" -> [args EXCEPT !.cookies = Put(@, p.name, p.val)]
\* elif self._bearer_token is not None: prepared_headers["Authorization"] = ...
StepShortcut(variant, cfg, prepared) == HPut(variant, prepared, "Authorization", "Bearer " \o cfg.bearer)

\* request_args = kwargs without headers ; request_args["headers"] = prepared ; client.request(**request_args):
\* httpx sends every dict entry (case variants are separate entries); as is, params / cookies of the scratch dict
\* are not part of the request
WireOf(variant, cfg, headers, args, calls) ==
  [headers |-> [i \in DOMAIN headers |-> <<headers[i][1], Lower(headers[i][1]), headers[i][2]>>],
   query   |-> IF variant = "fixed" THEN args.params ELSE cfg.params,
   cookies |-> IF variant = "fixed" THEN args.cookies ELSE cfg.cookies,
   body    |-> cfg.body,
   refresh |-> calls,
   err     |-> "none"]

RECURSIVE RunPlugins(_, _, _, _)
RunPlugins(variant, ps, args, calls) ==    \* -> <<args, calls>>
  IF ps = <<>> THEN <<args, calls>>
  ELSE LET p == Head(ps)
           r == p.kind = "oauth2" /\ p.refresh IN
       RunPlugins(variant, Tail(ps), ApplyPlugin(variant, p, IF r THEN Refreshed(p) ELSE p.val, args),
                  IF r THEN Append(calls, p.val) ELSE calls)

\* the whole modelled code path in one expression (the state machine of Transport.tla is checked against it)
ModelWire(variant, cfg) ==
  LET prepared == StepPerRequest(variant, cfg, StepDefaults(variant, cfg))
      scratch  == ScratchOf(variant, cfg, prepared) IN
  IF cfg.plugins # <<>> THEN
       LET r == RunPlugins(variant, cfg.plugins, scratch, <<>>) IN WireOf(variant, cfg, r[1].headers, r[1], r[2])
  ELSE IF cfg.bearer # "" THEN WireOf(variant, cfg, StepShortcut(variant, cfg, prepared), scratch, <<>>)
  ELSE WireOf(variant, cfg, prepared, scratch, <<>>)

\* ---------------------------------------------------------------------------------------------
\* the JUDGE : failing clauses of an observation

NoLocus == [header |-> "", overlap |-> "", tail |-> "", location |-> "", found |-> "", arg |-> ""]
Fail(c, l) == [clause |-> c, locus |-> l]

LowerNames(d) == {Lower(d[i][1]) : i \in DOMAIN d}
Universe(cfg) == LowerNames(cfg.defaults) \cup LowerNames(cfg.reqHeaders)
                 \cup UNION {LowerNames(HeaderWrites(Plugs(cfg)[i])) : i \in DOMAIN Plugs(cfg)}
WritersOf(cfg, n) == {i \in DOMAIN Plugs(cfg) : n \in LowerNames(HeaderWrites(Plugs(cfg)[i]))}

EntriesOf(obs, n) == SelectSeq(obs.headers, LAMBDA h : h[2] = n)
Eff(obs, n)  == LET es == EntriesOf(obs, n) IN [i \in DOMAIN es |-> es[i][3]]     \* the values sent for n, in order
Raws(obs, n) == LET es == EntriesOf(obs, n) IN {es[i][1] : i \in DOMAIN es}

\* SentEqualsFold : every header of the vocabulary is sent exactly once, with the folded value.
\* The locus is computed from the observation itself (how many values, how many spellings, is the last one right).
HeaderFailures(cfg, obs) ==
  LET exp   == ExpectedHeaders(cfg)
      plugs == Plugs(cfg)
      ExpSeq(n)  == IF n \in DOMAIN exp THEN <<exp[n]>> ELSE <<>>
      Writers(n) == {i \in DOMAIN plugs : n \in LowerNames(HeaderWrites(plugs[i]))}
      Overlap(e, raws) == IF Len(e) = 0 THEN "missing"
                          ELSE IF Cardinality(raws) > 1 THEN "casevar"
                          ELSE IF Len(e) > 1 THEN "equal" ELSE "single"
      TailOf(e, x) == IF Len(e) = 0 THEN "none" ELSE IF x # <<>> /\ e[Len(e)] = x[1] THEN "ok" ELSE "wrong"
      Clause(n, e) == LET w == Writers(n) IN
                      IF w = {} THEN "C17.header_precedence"
                      ELSE LET p == plugs[Max(w)] IN
                           IF p.kind = "oauth2" /\ p.refresh /\ e = <<"Bearer " \o p.val>> THEN "C17.token_stale"
                           ELSE "C17.plugin_order"
      One(n) == LET e == Eff(obs, n) IN
                IF e = ExpSeq(n) THEN {}
                ELSE {Fail(Clause(n, e), [NoLocus EXCEPT !.header = n, !.overlap = Overlap(e, Raws(obs, n)),
                                                         !.tail = TailOf(e, ExpSeq(n))])}
  IN UNION {One(n) : n \in Universe(cfg)}

Where(obs, k) == IF \E i \in DOMAIN obs.headers : obs.headers[i][3] = k THEN "header"
                 ELSE IF \E i \in DOMAIN obs.query : obs.query[i][2] = k THEN "query"
                 ELSE IF \E i \in DOMAIN obs.cookies : obs.cookies[i][2] = k THEN "cookie" ELSE "nowhere"

\* KeyPlacement : the key value is found in the configured location under the configured name.  A header-located
\* key that a LATER plug-in legitimately overwrites is not expected on the wire (SentEqualsFold judges that name).
KeyFailuresOf(cfg, obs, i) ==
  LET p == cfg.plugins[i]
      inHdr == {j \in DOMAIN obs.headers : obs.headers[j][3] = p.val}
      list  == IF p.loc = "query" THEN obs.query ELSE obs.cookies
      inLst == {j \in DOMAIN list : list[j][2] = p.val} IN
  IF p.loc = "header" THEN
       IF Max(WritersOf(cfg, Lower(p.name))) # i THEN {}
       ELSE IF \E j \in inHdr : obs.headers[j][2] = Lower(p.name) THEN {}
       ELSE IF inHdr # {} THEN {Fail("C17.apikey_name", [NoLocus EXCEPT !.location = "header",
                                                           !.found = obs.headers[Min(inHdr)][2]])}
       ELSE {Fail("C17.apikey_location", [NoLocus EXCEPT !.location = "header", !.found = Where(obs, p.val)])}
  ELSE
       IF \E j \in inLst : list[j][1] = p.name THEN {}
       ELSE IF inLst # {} THEN {Fail("C17.apikey_name", [NoLocus EXCEPT !.location = p.loc,
                                                           !.found = list[Min(inLst)][1]])}
       ELSE {Fail("C17.apikey_location", [NoLocus EXCEPT !.location = p.loc, !.found = Where(obs, p.val)])}

KeyIdx(cfg) == {i \in DOMAIN cfg.plugins : cfg.plugins[i].kind = "apikey"}
KeyFailures(cfg, obs) == UNION {KeyFailuresOf(cfg, obs, i) : i \in KeyIdx(cfg)}

\* CallerArgsUntouched : what is sent besides the API keys is exactly what the caller passed
KeyVals(cfg) == {cfg.plugins[i].val : i \in KeyIdx(cfg)}
CallerPart(cfg, list) == SelectSeq(list, LAMBDA e : e[2] \notin KeyVals(cfg))
CallerFailures(cfg, obs) ==
  (IF CallerPart(cfg, obs.query) # cfg.params
     THEN {Fail("C17.caller_params_changed", [NoLocus EXCEPT !.arg = "params"])} ELSE {})
  \cup (IF CallerPart(cfg, obs.cookies) # cfg.cookies
     THEN {Fail("C17.caller_params_changed", [NoLocus EXCEPT !.arg = "cookies"])} ELSE {})
  \cup (IF obs.body # cfg.body
     THEN {Fail("C17.body_changed", [NoLocus EXCEPT !.found = IF obs.body = "" THEN "empty" ELSE "different"])}
     ELSE {})

\* TokenFresh : a configured refresh callback is consulted (the header value itself is judged by HeaderClause)
RefreshIdx(cfg) == {i \in DOMAIN cfg.plugins : cfg.plugins[i].kind = "oauth2" /\ cfg.plugins[i].refresh}
TokenFailures(cfg, obs) ==
  IF RefreshIdx(cfg) # {} /\ obs.refresh = <<>>
    THEN {Fail("C17.token_stale", [NoLocus EXCEPT !.found = "callback-not-called"])} ELSE {}

Failures(cfg, obs) ==
  IF obs.err # "none" THEN {Fail("C17.no_request", [NoLocus EXCEPT !.found = obs.err])}
  ELSE HeaderFailures(cfg, obs) \cup KeyFailures(cfg, obs) \cup CallerFailures(cfg, obs) \cup TokenFailures(cfg, obs)

\* how often each clause's antecedent was evaluated for this configuration (vacuity accounting)
Antecedents(cfg) ==
  [headers |-> Cardinality({n \in Universe(cfg) : WritersOf(cfg, n) = {}}),
   plugin_headers |-> Cardinality({n \in Universe(cfg) : WritersOf(cfg, n) # {}}),
   keys |-> Cardinality(KeyIdx(cfg)), refresh |-> Cardinality(RefreshIdx(cfg)),
   params |-> Len(cfg.params), cookies |-> Len(cfg.cookies), body |-> IF cfg.body = "" THEN 0 ELSE 1]

\* the model and an observation agree on everything the judge looks at (else: DRIFT, never a failure)
Project(cfg, obs) == [headers |-> SelectSeq(obs.headers, LAMBDA h : h[2] \in Universe(cfg)),
                      query |-> obs.query, cookies |-> obs.cookies, body |-> obs.body, refresh |-> obs.refresh,
                      err |-> obs.err]
=============================================================================
