---------------------------- MODULE TransportCore ----------------------------
(***************************************************************************)
(* C17 - constant-level part of the transport specification.               *)
(*                                                                         *)
(*  * the scenario vocabulary (abstract scenario `sc`) and its ONE         *)
(*    concretisation `Concrete(sc)` (names, values, plug-in records) - the *)
(*    harness builds the real objects from exactly this record.  A         *)
(*    scenario is a SESSION: one transport, a sequence of requests (each   *)
(*    with its own per-request headers), and - for OAuth2 with a refresh   *)
(*    callback - what the callback returns at each call (a new token, the  *)
(*    token it was shown, "" or None).  The auth configuration is a TREE:  *)
(*    `tree` is a token sequence over "(" ")" "*" - a composite is a       *)
(*    parenthesised group, "*" stands for the next plug-in of `plugs` -    *)
(*    and its MEANING is the left-to-right application of its leaves in    *)
(*    depth-first order, however the composites are nested;                *)
(*  * the REFERENCE meaning: request i carries `ExpectedHeaders` = fold of *)
(*    the plug-ins over (ITS per-request headers over the CONFIGURED       *)
(*    defaults), header names compared case-insensitively - nothing of an  *)
(*    earlier request; the OAuth2 token is the last non-empty token the    *)
(*    callback delivered, else the configured one (`RefTok`);              *)
(*  * the IMPLEMENTATION-SHAPED functions of HttpxTransport._prepare_      *)
(*    headers / request and of the bundled plug-ins (python dicts are      *)
(*    ordered, case-SENSITIVE; auth runs on copies of the request's        *)
(*    headers / params / cookies and what it leaves there is sent;         *)
(*    the transport's default-headers dict and the plug-in's access_token  *)
(*    are STATE that lives across requests), plus the variants "fixed"     *)
(*    (case-insensitive merge of header names)                             *)
(*    and "aliased_defaults" (a deliberately broken design used to show    *)
(*    that the isolation properties bind);                                 *)
(*  * the judge `Failures(view, obs)` / `SessionFailures(cfg, obsSeq)`.    *)
(*                                                                         *)
(* A "dict" is a sequence of <<key, value>> pairs in insertion order.      *)
(* An observation (one per request of the session) is                      *)
(*   [headers : Seq(<<raw name, lower-case name, value>>),                 *)
(*    query, cookies : Seq(<<name, value>>), body : STRING,                *)
(*    refresh : Seq(STRING)   what the refresh callback was shown during   *)
(*                            this request                                 *)
(*    defaults : Seq(<<name, value>>)  the dict that was passed as         *)
(*                            default_headers=, read AFTER the request     *)
(*    err : STRING]           "none" or the exception type                 *)
(***************************************************************************)
EXTENDS Naturals, Sequences, FiniteSets, SequencesExt, FiniteSetsExt

\* ---------------------------------------------------------------------------------------------
\* names

Lower(n) ==
  CASE n = "Authorization" -> "authorization"
    [] n = "X-Tag"         -> "x-tag"
    [] n = "X-Def"         -> "x-def"
    [] n = "X-Req"         -> "x-req"
    [] n = "X-Custom-Key"  -> "x-custom-key"
    [] n = "X-Client-ID"   -> "x-client-id"
    [] OTHER               -> n          \* every other name of the vocabulary is lower-case already

IdxStr(i) == CASE i = 1 -> "1" [] i = 2 -> "2" [] i = 3 -> "3" [] OTHER -> "4"

Pats     == {"disjoint", "equal", "casevar"}
Kinds    == {"B", "KH", "KQ", "KC", "H", "O", "OR"}
\* second API keys with the SAME location and name as the first ones (what they set overlaps)
Kinds2   == {"KH2", "KQ2", "KC2"}
ReqPats  == {"none", "disjoint", "equal", "casevar"}     \* per-request header name relative to the default X-Tag
RetKinds == {"new", "same", "empty", "none"}            \* what the refresh callback returns at one call

\* ---------------------------------------------------------------------------------------------
\* scenario space

Injective(s) == \A i, j \in DOMAIN s : i # j => s[i] # s[j]
PlugSeqs(max) == {s \in UNION {[1..n -> Kinds] : n \in 0..max} : Injective(s)}

\* ---- the auth configuration as a tree: token sequences over "(" ")" "*"
Toks == {"(", ")", "*"}
Count(t, x, i) == Cardinality({j \in 1..i : t[j] = x})
DepthAt(t, i)  == Count(t, "(", i) - Count(t, ")", i)
Stars(t)       == Count(t, "*", Len(t))
\* nothing (no auth=), a bare plug-in, or ONE composite whose members are plug-ins or composites, nested <= maxDepth
TreeOK(t, maxDepth) ==
  \/ t = <<>> \/ t = <<"*">>
  \/ /\ Len(t) >= 2 /\ t[1] = "(" /\ DepthAt(t, Len(t)) = 0
     /\ \A i \in 1..(Len(t) - 1) : DepthAt(t, i) >= 1 /\ DepthAt(t, i) <= maxDepth
\* every tree of at most maxLen tokens (singleton and empty nested groups included)
TreeUniverse(maxLen, maxDepth) == {t \in UNION {[1..m -> Toks] : m \in 2..maxLen} : TreeOK(t, maxDepth)}
\* the reference meaning of a tree: its leaves, left to right (= `plugs`, since "*" is "the next plug-in")
LeafOrder(t) == SelectSeq(t, LAMBDA x : x = "*")

\* the wrappings of the "single" / "session" families: none / direct / CompositeAuth(p) / flat / nested right / nested left
Wraps(p) == CASE Len(p) = 0 -> {<<>>}
              [] Len(p) = 1 -> {<<"*">>, <<"(", "*", ")">>}
              [] Len(p) = 2 -> {<<"(", "*", "*", ")">>, <<"(", "*", "(", "*", ")", ")">>}
              [] OTHER      -> {<<"(", "*", "*", "*", ")">>, <<"(", "(", "*", "*", ")", "*", ")">>,
                                <<"(", "*", "(", "*", "*", ")", ")">>}

\* the bearer_token= shortcut: alone, or next to one plug-in ("auth takes precedence")
Shorts(p) == IF Len(p) <= 1 THEN BOOLEAN ELSE {FALSE}

\* per-request patterns that make sense for a defaults choice (without X-Tag in the defaults "equal" / "casevar"
\* are just other disjoint names)
ReqPatsFor(dflt) == IF dflt = "tag" THEN ReqPats ELSE {"none", "disjoint"}
ReqSeqs(dflt, n) == [1..n -> ReqPatsFor(dflt)]

\* a caller-supplied Authorization header (what Bearer / OAuth2 / the shortcut write): layer and spelling; the
\* per-request one is passed with the FIRST request of the session only
CallerAuth == {"none", "def-equal", "def-casevar", "req-equal", "req-casevar"}

InSeq(x, s) == \E i \in DOMAIN s : s[i] = x
\* name of the header-located API key relative to the caller's X-Tag
KeyNames(p, dflt) == IF InSeq("KH", p) /\ dflt = "tag" THEN Pats ELSE {"disjoint"}
\* extra header of HeadersAuth relative to Authorization
HdrNames(p) == IF InSeq("H", p) THEN Pats ELSE {"disjoint"}
\* refresh-callback scripts: varied only when OAuth2-with-refresh is configured
AllNew(n) == [i \in 1..n |-> "new"]
RetSeqs(p, n) == IF InSeq("OR", p) THEN [1..n -> RetKinds] ELSE {AllNew(n)}

ScenarioOK(s, maxPlugs, maxReqs) ==
  /\ Len(s.plugs) <= maxPlugs /\ Injective(s.plugs) /\ \A i \in DOMAIN s.plugs : s.plugs[i] \in Kinds \cup Kinds2
  /\ TreeOK(s.tree, 3) /\ Stars(s.tree) = Len(s.plugs) /\ s.short \in Shorts(s.plugs)
  /\ s.dflt \in {"none", "tag"} /\ Len(s.reqs) \in 1..maxReqs /\ s.reqs \in ReqSeqs(s.dflt, Len(s.reqs))
  /\ s.rets \in RetSeqs(s.plugs, Len(s.reqs))
  /\ s.ca \in CallerAuth
  /\ s.kn \in Pats /\ s.hn \in Pats
  /\ s.params \in BOOLEAN /\ s.cookies \in BOOLEAN /\ s.body \in BOOLEAN
  /\ \A j \in DOMAIN s.sched : s.sched[j].k \in {"start", "resume"} /\ s.sched[j].r \in DOMAIN s.reqs

\* ---------------------------------------------------------------------------------------------
\* concretisation (the only place where names and values are chosen)

\* what the callback returns at its i-th call: a fresh token, "<same>" (the worker returns the token it was shown),
\* "" or "<none>" (the worker returns None)
RetValue(kind, i) == CASE kind = "new"   -> "tok-r" \o IdxStr(i)
                       [] kind = "same"  -> "<same>"
                       [] kind = "empty" -> ""
                       [] kind = "none"  -> "<none>"

PluginOf(k, sc) ==
  LET base == [kind |-> "", loc |-> "header", name |-> "", val |-> "", hdrs |-> <<>>, refresh |-> FALSE,
               rets |-> <<>>, newval |-> "", toks |-> {}] IN
  CASE k = "B"  -> [base EXCEPT !.kind = "bearer", !.name = "Authorization", !.val = "tok-b"]
    [] k = "KH" -> [base EXCEPT !.kind = "apikey", !.val = "key-h",
                                !.name = CASE sc.kn = "disjoint" -> "X-Custom-Key"
                                           [] sc.kn = "equal"    -> "X-Tag"
                                           [] sc.kn = "casevar"  -> "x-tag"]
    [] k = "KQ" -> [base EXCEPT !.kind = "apikey", !.loc = "query", !.name = "k_q", !.val = "key-q"]
    [] k = "KC" -> [base EXCEPT !.kind = "apikey", !.loc = "cookie", !.name = "k_c", !.val = "key-c"]
    [] k = "KH2" -> [base EXCEPT !.kind = "apikey", !.val = "key-h2",
                                 !.name = CASE sc.kn = "disjoint" -> "X-Custom-Key"
                                            [] sc.kn = "equal"    -> "X-Tag"
                                            [] sc.kn = "casevar"  -> "x-tag"]
    [] k = "KQ2" -> [base EXCEPT !.kind = "apikey", !.loc = "query", !.name = "k_q", !.val = "key-q2"]
    [] k = "KC2" -> [base EXCEPT !.kind = "apikey", !.loc = "cookie", !.name = "k_c", !.val = "key-c2"]
    [] k = "H"  -> [base EXCEPT !.kind = "headers",
                                !.hdrs = <<<<"X-Client-ID", "h-cid">>>> \o
                                         (CASE sc.hn = "disjoint" -> <<>>
                                            [] sc.hn = "equal"    -> <<<<"Authorization", "h-auth">>>>
                                            [] sc.hn = "casevar"  -> <<<<"authorization", "h-auth">>>>)]
    [] k = "O"  -> [base EXCEPT !.kind = "oauth2", !.name = "Authorization", !.val = "tok-o"]
    [] k = "OR" -> [base EXCEPT !.kind = "oauth2", !.name = "Authorization", !.val = "tok-r0", !.refresh = TRUE,
                                !.rets = [i \in DOMAIN sc.rets |-> RetValue(sc.rets[i], i)],
                                \* every token text this plug-in could ever put after "Bearer " (right or wrong)
                                !.toks = {"tok-r0", "", "None", "<none>"} \cup {"tok-r" \o IdxStr(i) : i \in DOMAIN sc.rets}]

CallerAuthPair(sc, layer) ==
  CASE sc.ca = layer \o "-equal"   -> <<<<"Authorization", "caller-auth">>>>
    [] sc.ca = layer \o "-casevar" -> <<<<"authorization", "caller-auth">>>>
    [] OTHER                       -> <<>>

\* per-request headers of the i-th request: values carry the request number, so a value that shows up in a later
\* request is recognisable as a leak
ReqHeadersOf(sc, i) ==
  (CASE sc.reqs[i] = "none"     -> <<>>
     [] sc.reqs[i] = "disjoint" -> <<<<"X-Req", "r" \o IdxStr(i) \o "-only">>>>
     [] sc.reqs[i] = "equal"    -> <<<<"X-Tag", "r" \o IdxStr(i) \o "-tag">>>>
     [] sc.reqs[i] = "casevar"  -> <<<<"x-tag", "r" \o IdxStr(i) \o "-tag">>>>)
  \o (IF i = 1 THEN CallerAuthPair(sc, "req") ELSE <<>>)

\* the other arguments of the i-th request: every value carries the request number, so that whatever leaves the
\* transport can be attributed to the request it was given for
ReqArgsOf(sc, i) ==
  [params  |-> IF sc.params THEN <<<<"q", IdxStr(i)>>, <<"page", "2">>>> ELSE <<>>,
   cookies |-> IF sc.cookies THEN <<<<"sid", "c" \o IdxStr(i)>>>> ELSE <<>>,
   body    |-> IF sc.body THEN "payload-" \o IdxStr(i) ELSE "",
   path    |-> "/p" \o IdxStr(i)]

Concrete(sc) ==
  [defaults   |-> (IF sc.dflt = "tag" THEN <<<<"X-Tag", "d-tag">>, <<"X-Def", "d-only">>>> ELSE <<>>)
                    \o CallerAuthPair(sc, "def"),
   requests   |-> [i \in DOMAIN sc.reqs |-> ReqHeadersOf(sc, i)],
   plugins    |-> [i \in DOMAIN sc.plugs |-> PluginOf(sc.plugs[i], sc)],
   tree       |-> sc.tree,
   bearer     |-> IF sc.short THEN "tok-s" ELSE "",
   reqargs    |-> [i \in DOMAIN sc.reqs |-> ReqArgsOf(sc, i)],
   sched      |-> sc.sched]
\* empty defaults => default_headers=None ; empty request headers => no `headers=` argument ; likewise params,
\* cookies ; body "" => no content= argument.
\* sched = <<>> : the requests are made one after the other (the refresh callback answers at once) ; otherwise the
\* requests are IN FLIGHT TOGETHER and sched is the order of [k |-> "start" | "resume", r |-> request] events: the
\* refresh callback suspends until the harness resumes that request.

\* ---------------------------------------------------------------------------------------------
\* REFERENCE meaning (independent of how the code is organised)

\* a dict read case-insensitively: lower-case name -> value of its last entry
CIMap(d) == [n \in {Lower(d[i][1]) : i \in DOMAIN d} |->
               d[Max({i \in DOMAIN d : Lower(d[i][1]) = n})][2]]
Over(top, base) == [n \in (DOMAIN top) \cup (DOMAIN base) |-> IF n \in DOMAIN top THEN top[n] ELSE base[n]]

IsRefresh(p) == p.kind = "oauth2" /\ p.refresh
NoToken(x)   == x \in {"", "<none>"}

\* TokenFresh: the token in force after the i-th call of the callback = the last non-empty token it delivered, else
\* the configured one ("<same>" = it handed back what it was shown)
RECURSIVE RefTok(_, _)
RefTok(p, i) == IF i = 0 THEN p.val
                ELSE LET prev == RefTok(p, i - 1)
                         d    == IF p.rets[i] = "<same>" THEN prev ELSE p.rets[i]
                     IN IF NoToken(d) THEN prev ELSE d

HasRefresh(cfg)    == SelectSeq(cfg.plugins, IsRefresh) # <<>>
RefreshPlugin(cfg) == SelectSeq(cfg.plugins, IsRefresh)[1]

\* Token plan: for every request the number of ITS callback call and the reference token before / after it.
\* Requests made one after the other: call i, RefTok(i-1), RefTok(i).  Requests in flight together: the callback is
\* called (and shown the token in force) when the request starts, and its answer is taken when the request resumes.
RECURSIVE SchedPlan(_, _, _, _, _)
SchedPlan(p, ev, tok, ncall, plan) ==
  IF ev = <<>> THEN plan
  ELSE LET e == Head(ev) IN
       IF e.k = "start"
         THEN SchedPlan(p, Tail(ev), tok, ncall + 1,
                        [plan EXCEPT ![e.r] = [call |-> ncall + 1, before |-> tok, after |-> tok]])
         ELSE LET c == plan[e.r].call
                  d == IF p.rets[c] = "<same>" THEN plan[e.r].before ELSE p.rets[c]
                  t == IF NoToken(d) THEN tok ELSE d
              IN SchedPlan(p, Tail(ev), t, ncall, [plan EXCEPT ![e.r].after = t])
TokPlan(cfg) ==
  IF ~HasRefresh(cfg) THEN [i \in DOMAIN cfg.requests |-> [call |-> i, before |-> "", after |-> ""]]
  ELSE LET p == RefreshPlugin(cfg) IN
       IF cfg.sched = <<>>
         THEN [i \in DOMAIN cfg.requests |-> [call |-> i, before |-> RefTok(p, i - 1), after |-> RefTok(p, i)]]
         ELSE SchedPlan(p, cfg.sched, p.val, 0, [i \in DOMAIN cfg.requests |-> [call |-> 0, before |-> "", after |-> ""]])

\* the configuration as request i must see it: the CONFIGURED defaults, ITS per-request headers and arguments, the
\* plug-ins with the reference token before (.val) and after (.newval) this request's refresh - NOTHING of any other
\* request of the session, whatever the schedule
ViewPlugin(p, pl) == IF IsRefresh(p) THEN [p EXCEPT !.val = pl.before, !.newval = pl.after] ELSE p
LowerNames(d) == {Lower(d[i][1]) : i \in DOMAIN d}
PairsOf(d) == {d[i] : i \in DOMAIN d}
View(cfg, i) ==
  LET pl == TokPlan(cfg)[i]
      others == DOMAIN cfg.requests \ {i} IN
  [defaults   |-> cfg.defaults,
   reqHeaders |-> cfg.requests[i],
   plugins    |-> [j \in DOMAIN cfg.plugins |-> ViewPlugin(cfg.plugins[j], pl)],
   bearer     |-> cfg.bearer,
   params     |-> cfg.reqargs[i].params, cookies |-> cfg.reqargs[i].cookies, body |-> cfg.reqargs[i].body,
   path       |-> cfg.reqargs[i].path,
   \* header names the other requests of the session use; what the OTHER requests passed (values of their per-request
   \* headers, their params / cookies, bodies, paths)
   others     |-> UNION {LowerNames(cfg.requests[j]) : j \in DOMAIN cfg.requests},
   foreign    |-> UNION {{cfg.requests[j][m][2] : m \in DOMAIN cfg.requests[j]} : j \in others},
   foreignArgs |-> (UNION {PairsOf(cfg.reqargs[j].params) \cup PairsOf(cfg.reqargs[j].cookies) : j \in others})
                   \ (PairsOf(cfg.reqargs[i].params) \cup PairsOf(cfg.reqargs[i].cookies)),
   foreignBodies |-> {cfg.reqargs[j].body : j \in others} \ {cfg.reqargs[i].body, ""},
   foreignPaths  |-> {cfg.reqargs[j].path : j \in others}]

HeaderWrites(p) ==
  CASE p.kind = "bearer"  -> <<<<"Authorization", "Bearer " \o p.val>>>>
    [] p.kind = "oauth2"  -> <<<<"Authorization", "Bearer " \o (IF p.refresh THEN p.newval ELSE p.val)>>>>
    [] p.kind = "apikey"  -> IF p.loc = "header" THEN <<<<p.name, p.val>>>> ELSE <<>>
    [] p.kind = "headers" -> p.hdrs

ShortcutPlugin(tok) == [kind |-> "bearer", loc |-> "header", name |-> "Authorization", val |-> tok, hdrs |-> <<>>,
                        refresh |-> FALSE, rets |-> <<>>, newval |-> "", toks |-> {}]
\* documented: "If both auth and bearer_token are provided, auth takes precedence"
Plugs(v) == IF v.plugins # <<>> THEN v.plugins
            ELSE IF v.bearer # "" THEN <<ShortcutPlugin(v.bearer)>> ELSE <<>>

RECURSIVE FoldPlugins(_, _)
FoldPlugins(h, ps) == IF ps = <<>> THEN h ELSE FoldPlugins(Over(CIMap(HeaderWrites(Head(ps))), h), Tail(ps))

ExpectedHeaders(v) == FoldPlugins(Over(CIMap(v.reqHeaders), CIMap(v.defaults)), Plugs(v))

\* API keys of one location: a later key of the same name replaces the earlier one
KeyPairs(v, loc) == LET ks == SelectSeq(v.plugins, LAMBDA p : p.kind = "apikey" /\ p.loc = loc)
                        last == SelectSeq([i \in DOMAIN ks |-> i], LAMBDA i : \A j \in DOMAIN ks : j > i => ks[j].name # ks[i].name)
                    IN [i \in DOMAIN last |-> <<ks[last[i]].name, ks[last[i]].val>>]
ExpectedQuery(v)   == v.params \o KeyPairs(v, "query")
ExpectedCookies(v) == v.cookies \o KeyPairs(v, "cookie")

\* ---------------------------------------------------------------------------------------------
\* IMPLEMENTATION-SHAPED functions

Has(d, k)    == \E i \in DOMAIN d : d[i][1] = k
Put(d, k, v) == IF Has(d, k) THEN [i \in DOMAIN d |-> IF d[i][1] = k THEN <<k, v>> ELSE d[i]]
                ELSE Append(d, <<k, v>>)
HasCI(d, k)    == \E i \in DOMAIN d : Lower(d[i][1]) = Lower(k)
PutCI(d, k, v) == IF HasCI(d, k) THEN [i \in DOMAIN d |-> IF Lower(d[i][1]) = Lower(k) THEN <<k, v>> ELSE d[i]]
                  ELSE Append(d, <<k, v>>)
HPut(variant, d, k, v) == IF variant = "fixed" THEN PutCI(d, k, v) ELSE Put(d, k, v)
RECURSIVE HUpdate(_, _, _)
HUpdate(variant, d, e) == IF e = <<>> THEN d ELSE HUpdate(variant, HPut(variant, d, e[1][1], e[1][2]), Tail(e))

\* 1. prepared_headers = {} ; prepared_headers.update(self._default_headers)       (tdefaults = that attribute, STATE)
StepDefaults(variant, tdefaults) == HUpdate(variant, <<>>, tdefaults)
\* 2. prepared_headers.update(kwargs["headers"])
StepPerRequest(variant, reqHeaders, prepared) == HUpdate(variant, prepared, reqHeaders)
\* what step 2 leaves in the transport's default-headers dict: nothing as written (prepared is a fresh dict); in the
\* broken variant prepared IS that dict whenever it is non-empty (`prepared = self._default_headers or {}`)
DefaultsAfter(variant, tdefaults, prepared) ==
  IF variant = "aliased_defaults" /\ tdefaults # <<>> THEN prepared ELSE tdefaults
\* 3. temp_request_args_for_auth = {"headers": prepared_headers.copy(), "params": dict(kwargs.get("params") or {}),
\*    "cookies": dict(kwargs.get("cookies") or {})}  - since /repo a4b4b62 the plug-ins see (copies of) the request's query
\*    parameters and cookies; before, the scratch dict carried the headers only and query / cookie API keys were lost
ScratchOf(variant, ra, prepared) == [headers |-> prepared, params |-> ra.params, cookies |-> ra.cookies]
\* OAuth2Auth: new = await refresh_callback(self.access_token); if new and new != access_token: access_token = new
\* (stored = self.access_token, i = number of this call)
RefreshStep(p, i, stored) ==
  LET new == IF p.rets[i] = "<same>" THEN stored ELSE p.rets[i] IN
  IF ~NoToken(new) /\ new # stored THEN new ELSE stored
\* plugin.authenticate_request(request_args) ; tok = the plug-in's access_token at that moment
ApplyPlugin(variant, p, tok, args) ==
  CASE p.kind = "bearer"  -> [args EXCEPT !.headers = HPut(variant, @, "Authorization", "Bearer " \o p.val)]
    [] p.kind = "oauth2"  -> [args EXCEPT !.headers = HPut(variant, @, "Authorization", "Bearer " \o tok)]
    [] p.kind = "headers" -> [args EXCEPT !.headers = HUpdate(variant, @, p.hdrs)]
    [] p.kind = "apikey"  ->
         CASE p.loc = "header" -> [args EXCEPT !.headers = HPut(variant, @, p.name, p.val)]
           [] p.loc = "query"  -> [args EXCEPT !.params  = Put(@, p.name, p.val)]
           [] p.loc = "cookie" -> [args EXCEPT !.cookies = Put(@, p.name, p.val)]
\* elif self._bearer_token is not None: prepared_headers["Authorization"] = ...
StepShortcut(variant, cfg, prepared) == HPut(variant, prepared, "Authorization", "Bearer " \o cfg.bearer)

\* for key in ("params", "cookies"): if authenticated_args.get(key): kwargs[key] = authenticated_args[key]
\* request_args = kwargs without headers ; request_args["headers"] = prepared ; client.request(**request_args):
\* httpx sends every dict entry (case variants are separate entries).
\* `defaults` = the transport's default-headers dict after the request.
WireOf(variant, ra, headers, args, calls, tdefaults) ==
  [headers  |-> [i \in DOMAIN headers |-> <<headers[i][1], Lower(headers[i][1]), headers[i][2]>>],
   query    |-> IF args.params # <<>> THEN args.params ELSE ra.params,
   cookies  |-> IF args.cookies # <<>> THEN args.cookies ELSE ra.cookies,
   body     |-> ra.body,
   path     |-> ra.path,
   refresh  |-> calls,
   defaults |-> tdefaults,
   err      |-> "none"]

RECURSIVE RunPlugins(_, _, _, _, _, _)
RunPlugins(variant, ps, i, args, stored, calls) ==    \* -> <<args, stored, calls>>
  IF ps = <<>> THEN <<args, stored, calls>>
  ELSE LET p == Head(ps) IN
       IF IsRefresh(p)
         THEN LET tok == RefreshStep(p, i, stored) IN
              RunPlugins(variant, Tail(ps), i, ApplyPlugin(variant, p, tok, args), tok, Append(calls, stored))
         ELSE RunPlugins(variant, Tail(ps), i, ApplyPlugin(variant, p, p.val, args), stored, calls)

\* the modelled code path of the i-th request (whose callback call is number ci) in one expression; st = [tdefaults,
\* stored] is what the transport and the OAuth2 plug-in remember between requests
OneRequestC(variant, cfg, i, ci, st) ==    \* -> [wire, st]
  LET ra       == cfg.reqargs[i]
      prepared == StepPerRequest(variant, cfg.requests[i], StepDefaults(variant, st.tdefaults))
      td       == DefaultsAfter(variant, st.tdefaults, prepared)
      scratch  == ScratchOf(variant, ra, prepared) IN
  IF cfg.tree # <<>> THEN
       LET r == RunPlugins(variant, cfg.plugins, ci, scratch, st.stored, <<>>) IN
       [wire |-> WireOf(variant, ra, r[1].headers, r[1], r[3], td), st |-> [tdefaults |-> td, stored |-> r[2]]]
  ELSE IF cfg.bearer # "" THEN
       \* the shortcut writes into prepared itself (which, aliased, is the defaults dict)
       LET h == StepShortcut(variant, cfg, prepared)
           t == DefaultsAfter(variant, st.tdefaults, h) IN
       [wire |-> WireOf(variant, ra, h, scratch, <<>>, t), st |-> [st EXCEPT !.tdefaults = t]]
  ELSE [wire |-> WireOf(variant, ra, prepared, scratch, <<>>, td), st |-> [st EXCEPT !.tdefaults = td]]
OneRequest(variant, cfg, i, st) == OneRequestC(variant, cfg, i, i, st)

InitialToken(cfg) == IF HasRefresh(cfg) THEN RefreshPlugin(cfg).val ELSE ""
InitialState(cfg) == [tdefaults |-> cfg.defaults, stored |-> InitialToken(cfg)]

RECURSIVE RunSession(_, _, _, _)
RunSession(variant, cfg, i, st) ==
  IF i > Len(cfg.requests) THEN <<>>
  ELSE LET r == OneRequest(variant, cfg, i, st) IN <<r.wire>> \o RunSession(variant, cfg, i + 1, r.st)
\* the whole modelled session, requests one after the other (the state machine of Transport.tla is checked against it)
ModelSession(variant, cfg) == RunSession(variant, cfg, 1, InitialState(cfg))

\* ---- requests in flight together: the modelled code path along a schedule of start / resume events.
\* A coroutine runs undisturbed until it suspends; with the bundled plug-ins the only suspension point inside
\* HttpxTransport.request is OAuth2Auth awaiting its refresh callback.  Everything a request has computed so far
\* (prepared headers, the dict handed to the plug-ins, the remaining plug-ins) is LOCAL to it.
NoWire == [headers |-> <<>>, query |-> <<>>, cookies |-> <<>>, body |-> "", path |-> "", refresh |-> <<>>,
           defaults |-> <<>>, err |-> "not-sent"]
FirstRefresh(ps) == IF \E j \in DOMAIN ps : IsRefresh(ps[j]) THEN Min({j \in DOMAIN ps : IsRefresh(ps[j])}) ELSE Len(ps) + 1
StartReq(variant, cfg, r, cs) ==
  LET ra       == cfg.reqargs[r]
      prepared == StepPerRequest(variant, cfg.requests[r], StepDefaults(variant, cs.tdefaults))
      td       == DefaultsAfter(variant, cs.tdefaults, prepared)
      scratch  == ScratchOf(variant, ra, prepared)
      f        == FirstRefresh(cfg.plugins)
      pre      == RunPlugins(variant, SubSeq(cfg.plugins, 1, f - 1), 0, scratch, cs.stored, <<>>) IN
  IF cfg.tree = <<>> \/ f > Len(cfg.plugins)
    THEN LET o == OneRequestC(variant, cfg, r, 0, [tdefaults |-> cs.tdefaults, stored |-> cs.stored]) IN
         [cs EXCEPT !.tdefaults = o.st.tdefaults, !.wires[r] = o.wire]
    ELSE [cs EXCEPT !.tdefaults = td, !.ncall = @ + 1,
                    !.loc[r] = [args |-> pre[1], rest |-> SubSeq(cfg.plugins, f, Len(cfg.plugins)),
                                calls |-> <<cs.stored>>, call |-> cs.ncall + 1]]
ResumeReq(variant, cfg, r, cs) ==
  LET l   == cs.loc[r]
      p   == Head(l.rest)
      tok == RefreshStep(p, l.call, cs.stored)
      fin == RunPlugins(variant, Tail(l.rest), l.call, ApplyPlugin(variant, p, tok, l.args), tok, l.calls) IN
  [cs EXCEPT !.stored = fin[2],
             !.wires[r] = WireOf(variant, cfg.reqargs[r], fin[1].headers, fin[1], fin[3], cs.tdefaults)]
RECURSIVE RunSched(_, _, _, _)
RunSched(variant, cfg, ev, cs) ==
  IF ev = <<>> THEN cs.wires
  ELSE RunSched(variant, cfg, Tail(ev), IF Head(ev).k = "start" THEN StartReq(variant, cfg, Head(ev).r, cs)
                                         ELSE ResumeReq(variant, cfg, Head(ev).r, cs))
ModelSched(variant, cfg) ==
  RunSched(variant, cfg, cfg.sched,
           [tdefaults |-> cfg.defaults, stored |-> InitialToken(cfg), ncall |-> 0,
            loc |-> [r \in DOMAIN cfg.requests |-> [args |-> [headers |-> <<>>, params |-> <<>>, cookies |-> <<>>],
                                                    rest |-> <<>>, calls |-> <<>>, call |-> 0]],
            wires |-> [r \in DOMAIN cfg.requests |-> NoWire]])
ModelOf(variant, cfg) == IF cfg.sched = <<>> THEN ModelSession(variant, cfg) ELSE ModelSched(variant, cfg)

\* RequestIsolation: what request i looks like when NOTHING but the configuration, its own per-request headers and
\* arguments and the token in force reaches it (a transport fresh from its constructor, no other request around)
IsolatedWire(variant, cfg, i) ==
  LET pl == TokPlan(cfg)[i]
  IN OneRequestC(variant, cfg, i, pl.call, [tdefaults |-> cfg.defaults, stored |-> pl.before]).wire

\* ---------------------------------------------------------------------------------------------
\* the JUDGE : failing clauses of one observed request against the view of its position in the session

NoLocus == [header |-> "", overlap |-> "", tail |-> "", location |-> "", found |-> "", arg |-> "", origin |-> "",
            request |-> ""]
Fail(c, l) == [clause |-> c, locus |-> l]

Universe(v) == LowerNames(v.defaults) \cup LowerNames(v.reqHeaders) \cup v.others
               \cup UNION {LowerNames(HeaderWrites(Plugs(v)[i])) : i \in DOMAIN Plugs(v)}
WritersOf(v, n) == {i \in DOMAIN Plugs(v) : n \in LowerNames(HeaderWrites(Plugs(v)[i]))}

EntriesOf(obs, n) == SelectSeq(obs.headers, LAMBDA h : h[2] = n)
Eff(obs, n)  == LET es == EntriesOf(obs, n) IN [i \in DOMAIN es |-> es[i][3]]     \* the values sent for n, in order
Raws(obs, n) == LET es == EntriesOf(obs, n) IN {es[i][1] : i \in DOMAIN es}

\* SentEqualsFold : every header of the vocabulary (including the names other requests of the session use) is sent
\* exactly once with the folded value, or not at all when nothing contributes it.
\* The locus is computed from the observation itself: how many values, how many spellings, is the last one right,
\* does a value of an EARLIER request's per-request headers appear.
HeaderFailures(v, obs) ==
  LET exp   == ExpectedHeaders(v)
      plugs == Plugs(v)
      ExpSeq(n)  == IF n \in DOMAIN exp THEN <<exp[n]>> ELSE <<>>
      Writers(n) == {i \in DOMAIN plugs : n \in LowerNames(HeaderWrites(plugs[i]))}
      Overlap(e, raws) == IF Len(e) = 0 THEN "missing"
                          ELSE IF Cardinality(raws) > 1 THEN "casevar"
                          ELSE IF Len(e) > 1 THEN "equal" ELSE "single"
      TailOf(e, x) == IF Len(e) = 0 THEN "none" ELSE IF x # <<>> /\ e[Len(e)] = x[1] THEN "ok" ELSE "wrong"
      Origin(e, x) == IF \E i \in DOMAIN e : e[i] \in v.foreign /\ <<e[i]>> # x THEN "other-request" ELSE ""
      Clause(n, e) == LET w == Writers(n) IN
                      IF w = {} THEN "C17.header_precedence"
                      ELSE LET p == plugs[Max(w)] IN
                           IF IsRefresh(p) /\ Len(e) = 1 /\ e[1] \in {"Bearer " \o t : t \in p.toks \cup {p.val}}
                             THEN "C17.token_stale" ELSE "C17.plugin_order"
      Found(n, e) == LET w == Writers(n) IN
                     IF w = {} \/ Len(e) # 1 THEN ""
                     ELSE LET p == plugs[Max(w)] IN
                          IF ~IsRefresh(p) THEN ""
                          ELSE IF e[1] = "Bearer " \o p.val THEN "token-before-refresh"
                          ELSE IF e[1] \in {"Bearer ", "Bearer None", "Bearer <none>"} THEN "no-token"
                          ELSE IF e[1] \in {"Bearer " \o t : t \in p.toks} THEN "other-token" ELSE ""
      One(n) == LET e == Eff(obs, n) IN
                IF e = ExpSeq(n) THEN {}
                ELSE {Fail(Clause(n, e), [NoLocus EXCEPT !.header = n, !.overlap = Overlap(e, Raws(obs, n)),
                                                         !.tail = TailOf(e, ExpSeq(n)), !.found = Found(n, e),
                                                         !.origin = Origin(e, ExpSeq(n))])}
  IN UNION {One(n) : n \in Universe(v)}

Where(obs, k) == IF \E i \in DOMAIN obs.headers : obs.headers[i][3] = k THEN "header"
                 ELSE IF \E i \in DOMAIN obs.query : obs.query[i][2] = k THEN "query"
                 ELSE IF \E i \in DOMAIN obs.cookies : obs.cookies[i][2] = k THEN "cookie" ELSE "nowhere"

\* KeyPlacement : the key value is found in the configured location under the configured name.  A header-located
\* key that a LATER plug-in legitimately overwrites is not expected on the wire (SentEqualsFold judges that name).
KeyFailuresOf(v, obs, i) ==
  LET p == v.plugins[i]
      inHdr == {j \in DOMAIN obs.headers : obs.headers[j][3] = p.val}
      list  == IF p.loc = "query" THEN obs.query ELSE obs.cookies
      inLst == {j \in DOMAIN list : list[j][2] = p.val} IN
  IF p.loc = "header" THEN
       IF Max(WritersOf(v, Lower(p.name))) # i THEN {}
       ELSE IF \E j \in inHdr : obs.headers[j][2] = Lower(p.name) THEN {}
       ELSE IF inHdr # {} THEN {Fail("C17.apikey_name", [NoLocus EXCEPT !.location = "header",
                                                           !.found = obs.headers[Min(inHdr)][2]])}
       ELSE {Fail("C17.apikey_location", [NoLocus EXCEPT !.location = "header", !.found = Where(obs, p.val)])}
  ELSE
       \* a later key of the same location and name legitimately replaces this one
       IF \E j \in DOMAIN v.plugins : j > i /\ v.plugins[j].kind = "apikey" /\ v.plugins[j].loc = p.loc
                                         /\ v.plugins[j].name = p.name THEN {}
       ELSE IF \E j \in inLst : list[j][1] = p.name THEN {}
       \* ... but an EARLIER one must not survive under the name
       ELSE IF \E j \in 1..(i - 1) : /\ v.plugins[j].kind = "apikey" /\ v.plugins[j].loc = p.loc
                                      /\ v.plugins[j].name = p.name
                                      /\ \E m \in DOMAIN list : list[m] = <<p.name, v.plugins[j].val>>
              THEN {Fail("C17.plugin_order", [NoLocus EXCEPT !.location = p.loc, !.found = "earlier-key"])}
       ELSE IF inLst # {} THEN {Fail("C17.apikey_name", [NoLocus EXCEPT !.location = p.loc,
                                                           !.found = list[Min(inLst)][1]])}
       ELSE {Fail("C17.apikey_location", [NoLocus EXCEPT !.location = p.loc, !.found = Where(obs, p.val)])}

KeyIdx(v) == {i \in DOMAIN v.plugins : v.plugins[i].kind = "apikey"}
KeyFailures(v, obs) == UNION {KeyFailuresOf(v, obs, i) : i \in KeyIdx(v)}

\* CallerArgsUntouched : what is sent besides the API keys is exactly what the caller passed
KeyVals(v) == {v.plugins[i].val : i \in KeyIdx(v)}
CallerPart(v, list) == SelectSeq(list, LAMBDA e : e[2] \notin KeyVals(v))
ArgOrigin(v, list) == IF \E j \in DOMAIN list : list[j] \in v.foreignArgs THEN "other-request" ELSE ""
CallerFailures(v, obs) ==
  (IF CallerPart(v, obs.query) # v.params
     THEN {Fail("C17.caller_params_changed", [NoLocus EXCEPT !.arg = "params", !.origin = ArgOrigin(v, obs.query)])} ELSE {})
  \cup (IF CallerPart(v, obs.cookies) # v.cookies
     THEN {Fail("C17.caller_params_changed", [NoLocus EXCEPT !.arg = "cookies", !.origin = ArgOrigin(v, obs.cookies)])} ELSE {})
  \cup (IF obs.path # v.path
     THEN {Fail("C17.caller_params_changed", [NoLocus EXCEPT !.arg = "url",
                                               !.origin = IF obs.path \in v.foreignPaths THEN "other-request" ELSE ""])} ELSE {})
  \cup (IF obs.body # v.body
     THEN {Fail("C17.body_changed", [NoLocus EXCEPT !.found = IF obs.body = "" THEN "empty" ELSE "different",
                                                    !.origin = IF obs.body \in v.foreignBodies THEN "other-request" ELSE ""])}
     ELSE {})

\* TokenFresh : a configured refresh callback is consulted at every request and is shown the token in force (the
\* header value itself is judged by HeaderFailures)
RefreshIdx(v) == {i \in DOMAIN v.plugins : IsRefresh(v.plugins[i])}
TokenFailures(v, obs) ==
  IF RefreshIdx(v) = {} THEN {}
  ELSE IF obs.refresh = <<>> THEN {Fail("C17.token_stale", [NoLocus EXCEPT !.found = "callback-not-called"])}
  ELSE LET p == v.plugins[CHOOSE i \in RefreshIdx(v) : TRUE] IN
       IF obs.refresh[1] # p.val
         THEN {Fail("C17.token_stale", [NoLocus EXCEPT !.found = IF obs.refresh[1] \in {"", "<none>"}
                                                                   THEN "callback-shown-no-token"
                                                                   ELSE "callback-shown-other-token"])}
         ELSE {}

\* DefaultsUnchanged : serving a request leaves the transport's configuration (the default-headers dict) as configured
DefaultsFailures(v, obs) ==
  IF obs.defaults # v.defaults
    THEN {Fail("C17.defaults_mutated", [NoLocus EXCEPT !.arg = "default_headers",
                                                       !.found = IF Len(obs.defaults) > Len(v.defaults)
                                                                   THEN "entries-added" ELSE "entries-changed"])}
    ELSE {}

Failures(v, obs) ==
  IF obs.err # "none" THEN {Fail("C17.no_request", [NoLocus EXCEPT !.found = obs.err])}
  ELSE HeaderFailures(v, obs) \cup KeyFailures(v, obs) \cup CallerFailures(v, obs) \cup TokenFailures(v, obs)
       \cup DefaultsFailures(v, obs)

\* every request of the session is judged against the view of its position; the locus names the position
SessionFailures(cfg, obsSeq) ==
  IF Len(obsSeq) # Len(cfg.requests)
    THEN {Fail("C17.no_request", [NoLocus EXCEPT !.found = "requests-missing"])}
    ELSE UNION {{Fail(f.clause, [f.locus EXCEPT !.request = IdxStr(i)]) : f \in Failures(View(cfg, i), obsSeq[i])} :
                  i \in DOMAIN obsSeq}

\* how often each clause's antecedent was evaluated for this session (vacuity accounting)
Antecedents(cfg) ==
  LET V(i) == View(cfg, i)
      n    == Len(cfg.requests)
      Sum(f) == FoldLeft(LAMBDA a, b : a + b, 0, f) IN
  [headers |-> Sum([i \in 1..n |-> Cardinality({m \in Universe(V(i)) : WritersOf(V(i), m) = {}})]),
   plugin_headers |-> Sum([i \in 1..n |-> Cardinality({m \in Universe(V(i)) : WritersOf(V(i), m) # {}})]),
   keys |-> n * Cardinality(KeyIdx(V(1))), refresh |-> n * Cardinality(RefreshIdx(V(1))),
   params |-> n * Len(cfg.reqargs[1].params), cookies |-> n * Len(cfg.reqargs[1].cookies),
   body |-> IF cfg.reqargs[1].body = "" THEN 0 ELSE n,
   defaults |-> IF cfg.defaults = <<>> THEN 0 ELSE n,
   later |-> n - 1,                                   \* requests that have a predecessor (isolation antecedent)
   inflight |-> IF cfg.sched = <<>> THEN 0 ELSE n,    \* requests judged that were in flight together with others
   noop_refresh |-> IF RefreshIdx(V(1)) = {} THEN 0   \* callback answers that must leave the token alone
                    ELSE LET p == cfg.plugins[CHOOSE i \in RefreshIdx(V(1)) : TRUE]
                         IN Cardinality({i \in DOMAIN p.rets : NoToken(p.rets[i]) \/ p.rets[i] = "<same>"})]

\* the model and an observation agree on everything the judge looks at (else: DRIFT, never a failure)
Project(v, obs) == [headers |-> SelectSeq(obs.headers, LAMBDA h : h[2] \in Universe(v)),
                    query |-> obs.query, cookies |-> obs.cookies, body |-> obs.body, path |-> obs.path,
                    refresh |-> obs.refresh,
                    defaults |-> obs.defaults, err |-> obs.err]
ProjectSession(cfg, obsSeq) == [i \in DOMAIN obsSeq |->
                                  IF i \in DOMAIN cfg.requests THEN Project(View(cfg, i), obsSeq[i]) ELSE obsSeq[i]]
=============================================================================
