---------------------------- MODULE Trace_Imports ----------------------------
(***************************************************************************)
(* X03 monitor.  One trace per scenario of Gen_Imports driven through the  *)
(* REAL RenderContext / ImportCollector by harness/w_imports.py:           *)
(*   [id, out, kind, api, where, cur, curpkg, mat, calls, render   - the scenario (as printed by Gen_Imports)       *)
(*    stmts : Seq([kind, level, tail, names, grp, cond])           - the rendered block parsed with Python's ast   *)
(*    rec   : [abs : Seq(<<mod, name>>), rel : Seq(<<level, tail, name>>), plain : Seq(mod), cond : Seq(<<c, mod, name>>)]   *)
(*            - the collector's state before rendering (as-is comparison only)                                      *)
(*    same  : BOOLEAN    the block rendered after making the same calls in reverse order is the same text]          *)
(* The judge is ImportsCore!Judge - the operator the design check uses - over Python's resolution of every rendered *)
(* statement.  Total: exactly one VERDICT line per trace: the failing (clause, locus), what the as-is model would   *)
(* have recorded / rendered where the real code differs (drift, never a failure), Python's predicted outcome of     *)
(* every statement and the final bindings (compared with the real interpreter on a sample by the harness).          *)
(***************************************************************************)
EXTENDS ImportsCore, Json, IOUtils

Traces == ndJsonDeserialize(IOEnv.TRACE_FILE)
VARIABLES tid, done

CxOf(t) == MkCx(t.out, t.kind, t.api, t.where, t.cur, t.curpkg, t.mat)
CallOf(j) == [op |-> j.op, mod |-> j.mod, name |-> j.name, level |-> j.level, ids |-> ToSet(j.ids), quals |-> ToSet(j.quals), text |-> j.text]
StmtOf(j, i) == [kind |-> j.kind, level |-> j.level, tail |-> j.tail, names |-> ToSet(j.names), grp |-> j.grp, cond |-> j.cond, idx |-> i]
Proj(S) == {[kind |-> s.kind, level |-> s.level, tail |-> s.tail, names |-> s.names, cond |-> s.cond] : s \in S}

Builtins == {"str", "int", "float", "bool", "bytes", "None", "dict", "list", "type", "object", "BaseException"}

Verdict(t) ==
  LET cx    == CxOf(t)
      calls == {CallOf(t.calls[i]) : i \in 1..Len(t.calls)}
      stmts == {StmtOf(t.stmts[i], i) : i \in 1..Len(t.stmts)}
      reqs  == Reqs(cx, calls)
      F     == Judge(cx, reqs, stmts, t.render)
               \cup (IF t.same THEN {} ELSE {[clause |-> "deterministic", locus |-> Locus(cx, t.render, "", "", "", "order_dependent", "", "")]})
      model == ApplyAll(cx, calls, TRUE)
      real  == [abs |-> {<<e[1], e[2]>> : e \in ToSet(t.rec.abs)}, rel |-> {<<e[1], e[2], e[3]>> : e \in ToSet(t.rec.rel)},
                plain |-> ToSet(t.rec.plain), cond |-> {<<e[1], e[2], e[3]>> : e \in ToSet(t.rec.cond)}]
      drift == (IF model.abs # real.abs THEN {"abs"} ELSE {}) \cup (IF model.rel # real.rel THEN {"rel"} ELSE {})
               \cup (IF model.plain # real.plain THEN {"plain"} ELSE {}) \cup (IF model.cond # real.cond THEN {"cond"} ELSE {})
               \cup (IF Proj(Render(cx, real, t.render, TRUE)) # Proj(stmts) THEN {"render"} ELSE {})
      run   == Run(cx, [i \in 1..Len(t.stmts) |-> StmtOf(t.stmts[i], i)])
      P     == Providers(cx, stmts)
      bound == {p.n : p \in {x \in P : x.cond = "" /\ x.kind = "from"}} \cup {p.t[1] : p \in {x \in P : x.cond = "" /\ x.kind = "import"}}
      amb   == {n \in {r.n : r \in reqs} : n # "" /\ Cardinality({r.t : r \in {x \in reqs : x.n = n /\ x.cond = ""}}) > 1}
  IN [id |-> t.id,
      fails |-> SetToSeq(F),
      drift |-> SetToSeq(drift),
      outcomes |-> run.outs,
      binds |-> SetToSeq(run.ns),
      unbound |-> SetToSeq({[text |-> c.text, names |-> SetToSeq(c.ids \ (bound \cup Builtins))] : c \in {x \in calls : x.op = "ctx_type"}}),
      ambiguous |-> Cardinality(amb),
      nreq |-> Cardinality(reqs), nstmt |-> Len(t.stmts),
      relative |-> Cardinality({s \in stmts : s.kind = "from" /\ s.level > 0}),
      core |-> Cardinality({r \in reqs : Pfx(cx.core, r.t)})]

Init == tid \in 1..Len(Traces) /\ done = FALSE
Fin  == ~done /\ done' = TRUE /\ UNCHANGED tid /\ PrintT("VERDICT " \o ToJson(Verdict(Traces[tid])))
Spec == Init /\ [][Fin]_<<tid, done>>
=============================================================================
