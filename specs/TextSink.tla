------------------------------ MODULE TextSink ------------------------------
(***************************************************************************)
(* C15: where document text lands in generated Python source.              *)
(* A lexical-context automaton of Python source restricted to the contexts *)
(* the generator emits text into:                                          *)
(*   dq   inside a "..." literal          sq   inside a '...' literal      *)
(*   tq   inside a """...""" docstring    cmt  inside a # comment          *)
(* (esc_* = after a backslash, tq1/tq2 = one/two closing quotes seen).     *)
(* Feed(ctx, ch) is what the RAW character does to the lexer.  A sink is   *)
(* Inert for a payload when feeding the text as emitted never leaves the   *)
(* resting context and ends in it; the module enumerates every payload of  *)
(* length <= MaxLen over the hostile alphabet and reports, per resting     *)
(* context, whether the raw payload would escape it and which transitions  *)
(* it exercises - the harness uses this to pick a transition-covering      *)
(* payload set ("one test per transition") and to name the trigger of a    *)
(* failure.                                                                *)
(***************************************************************************)
EXTENDS Naturals, Sequences, FiniteSets, TLC, Json, SequencesExt

CONSTANTS MaxLen
\* usep: a character that line-based text processing (str.splitlines) treats as a line boundary although the Python tokenizer
\* does not (U+2028, U+2029, U+0085, VT, FF, FS, GS, RS): inert for the lexer below, hostile to post-processing of emitted text
Classes == {"plain", "dq", "sq", "bs", "lf", "cr", "hash", "lbrace", "rbrace", "nonascii", "usep"}
Resting == {"dq", "sq", "tq", "cmt"}

Feed(ctx, ch) ==
  CASE ctx = "dq"  -> IF ch = "dq" THEN "OUT" ELSE IF ch = "bs" THEN "esc_dq" ELSE IF ch \in {"lf", "cr"} THEN "ERR" ELSE "dq"
    [] ctx = "sq"  -> IF ch = "sq" THEN "OUT" ELSE IF ch = "bs" THEN "esc_sq" ELSE IF ch \in {"lf", "cr"} THEN "ERR" ELSE "sq"
    [] ctx = "esc_dq" -> "dq"
    [] ctx = "esc_sq" -> "sq"
    [] ctx = "tq"  -> IF ch = "dq" THEN "tq1" ELSE IF ch = "bs" THEN "esc_tq" ELSE "tq"
    [] ctx = "tq1" -> IF ch = "dq" THEN "tq2" ELSE IF ch = "bs" THEN "esc_tq" ELSE "tq"
    [] ctx = "tq2" -> IF ch = "dq" THEN "OUT" ELSE IF ch = "bs" THEN "esc_tq" ELSE "tq"
    [] ctx = "esc_tq" -> "tq"
    [] ctx = "cmt" -> IF ch \in {"lf", "cr"} THEN "OUT" ELSE "cmt"
    [] OTHER -> ctx     \* OUT / ERR are absorbing

RECURSIVE Run(_, _, _)
Run(ctx, p, i) == IF i > Len(p) THEN ctx ELSE Run(Feed(ctx, p[i]), p, i + 1)

\* the closing delimiter follows the payload: a pending escape or pending quotes swallow / pre-empt it
Inert(rest, p) == Run(rest, p, 1) = rest

RECURSIVE Trans(_, _, _)
Trans(ctx, p, i) == IF i > Len(p) THEN {} ELSE {<<ctx, p[i]>>} \cup Trans(Feed(ctx, p[i]), p, i + 1)

Payloads == UNION {[1..n -> Classes] : n \in 1..MaxLen}

VARIABLES p, done
Init == p \in Payloads /\ done = FALSE
Emit ==
  /\ ~done /\ done' = TRUE /\ UNCHANGED p
  /\ PrintT("SCEN " \o ToJson([payload |-> p,
                               escapes |-> {r \in Resting : ~Inert(r, p)},
                               trans |-> UNION {{<<r, t[1], t[2]>> : t \in Trans(r, p, 1)} : r \in Resting}]))
Spec == Init /\ [][Emit]_<<p, done>>

\* design-level facts TLC checks on every payload (sanity of the automaton)
PlainIsInert == (\A i \in 1..Len(p) : p[i] = "plain") => \A r \in Resting : Inert(r, p)
QuoteEscapesDq == (Len(p) = 1 /\ p[1] = "dq") => ~Inert("dq", p)
=============================================================================
