------------------------------- MODULE Wire -------------------------------
(***************************************************************************)
(* C04 - request fidelity: one call of a generated endpoint method, from   *)
(* the declared operation and the caller's arguments to the request that   *)
(* leaves the client.                                                      *)
(*                                                                         *)
(* Part 1  vocabulary: operations, parameters, signatures, calls.          *)
(* Part 2  the reference: what request a call MEANS (ExpectedRequest) and  *)
(*         the judge `Failures` that compares any request (the modelled    *)
(*         one or one captured from the real client) with it, clause by    *)
(*         clause, with the tolerances of the property.                    *)
(* Part 3  the code path as a state machine, one action per generator      *)
(*         stage, AS THE CODE DOES IT (Variant = "as_is"):                 *)
(*                                                                         *)
(*   Process -> ( BindPath -> BindQuery -> BindHeader -> BindCookie ->     *)
(*                BindBody | Dispatch ) -> Send -> Judge                   *)
(*                                                                         *)
(*   Process   operations/parser.py:96-108 (path-level + operation-level   *)
(*             parameters concatenated), parameter_processor.py,           *)
(*             signature_generator.py / overload_generator.py: the python  *)
(*             signature (done by SigOf when the call is built; the action *)
(*             enters the arguments into the local environment and detects *)
(*             duplicate argument names = a module that does not compile)  *)
(*   BindPath..BindBody  url_args_generator.generate_url_and_args: the     *)
(*             local variables `url`, `params`, `headers`, `json_body`...  *)
(*             are ASSIGNED IN THE SAME NAMESPACE AS THE ARGUMENTS, which  *)
(*             the environment `env` reproduces                            *)
(*   Dispatch  endpoint_method_generator._generate_implementation_method   *)
(*             (several request content types): url, then one request per  *)
(*             content-type argument with params=None, headers=None        *)
(*   Send      request_generator.generate_request_call + what httpx does   *)
(*             with the values (query values stringified, header values    *)
(*             must be str, data=bytes has no content type)                *)
(*   Judge     verdict' = Failures(call, modelled request)                 *)
(*                                                                         *)
(* Variant = "fixed" is a design of the same shape that is meant to        *)
(* satisfy the reference (own namespace for locals, cookies bound, the     *)
(* dispatch path binds everything, values stringified, names de-collided); *)
(* for it RequestOK is checked as a real INVARIANT.  For "as_is" the       *)
(* deviations are evaluated into `verdict` and printed (DESIGN lines), not *)
(* stopped on.                                                             *)
(***************************************************************************)
EXTENDS Naturals, Sequences, FiniteSets, TLC, Json, SequencesExt, FiniteSetsExt

CONSTANTS Ops,        \* SEQUENCE of sets of operations Init quantifies over (design run / scenario generator); kept as
                      \* separate strata because TLC enumerates a union of lazily built sets quadratically
          Variant,    \* "as_is" | "fixed"
          Emit        \* TRUE: print SCEN (one per operation) and DESIGN (one per failing modelled call) lines

VARIABLES call,       \* [op, sig, args, reqs, raised, suspects] - the operation, its python signature, one argument assignment
          pc, env,    \* control point; local namespace of the generated method: identifier -> Value
          req,        \* the request being assembled / sent: [n, method, path, query, headers, cookies, ctype, body, exc, msgclass]
          verdict     \* set of failing clauses of the modelled request
vars == <<call, pc, env, req, verdict>>

\* ---------------------------------------------------------------------------------------------
\* Part 1 - vocabulary

Locations == {"path", "query", "header", "cookie"}
Types     == {"str", "int", "bool", "enum", "date", "datetime", "array"}
Shapes    == {"plain", "kebab", "camel", "keyword", "url", "params", "headers", "body", "id"}
\* json_model: a model with two fields and a list field of one sub-model; json_prim: string / integer / boolean (body.ptype);
\* json_array: array of sub-models; json_map: free-form object
\* other: any other media type (body.media: text/csv, application/xml, image/png, application/pdf, text/plain, a vendor +json type):
\* the request media type is an open set; the reference is the same for all of them - the bytes the caller passed go out under the
\* DECLARED content type
BodyKinds == {"none", "json_model", "json_prim", "json_array", "json_map", "form", "multipart", "octet", "other", "two"}
Methods   == {"GET", "POST", "PUT", "PATCH", "DELETE"}

NameOf(shape) == CASE shape = "plain"   -> "limit"
                   [] shape = "kebab"   -> "page-size"
                   [] shape = "camel"   -> "pageSize"
                   [] shape = "keyword" -> "class"
                   [] OTHER             -> shape        \* url, params, headers, body, id
LNameOf(shape) == IF shape = "camel" THEN "pagesize" ELSE NameOf(shape)

MkParam(in, required, type, shape, level) ==
  [name |-> NameOf(shape), lname |-> LNameOf(shape), shape |-> shape, in |-> in, required |-> required, type |-> type, level |-> level]

CtypeOf(kind) == CASE kind \in {"json_model", "json_prim", "json_array", "json_map"} -> "application/json"
                   [] kind = "form"      -> "application/x-www-form-urlencoded"
                   [] kind = "multipart" -> "multipart/form-data"
                   [] kind = "octet"     -> "application/octet-stream"
                   [] OTHER              -> ""
CtypeOfBody(b) == IF b.kind = "other" THEN b.media ELSE CtypeOf(b.kind)
Multi(op) == op.body.kind = "two"

\* parameters that count: an operation-level parameter overrides the path-level one with the same (name, in)
Eff(op) == {i \in DOMAIN op.params :
              ~(op.params[i].level = "path" /\ \E j \in DOMAIN op.params :
                   j # i /\ op.params[j].level = "op" /\ op.params[j].name = op.params[i].name /\ op.params[j].in = op.params[i].in)}
EffSeq(op) == SelectSeq([i \in DOMAIN op.params |-> i], LAMBDA i : i \in Eff(op))
\* path template: /<id>/{p1}/{p2}... one variable per effective path parameter
SegsOf(id, params) ==
  LET o == [id |-> id, params |-> params] IN
  <<[k |-> "lit", v |-> id]>> \o
  [j \in 1..Len(SelectSeq(EffSeq(o), LAMBDA i : params[i].in = "path")) |->
      [k |-> "var", v |-> params[SelectSeq(EffSeq(o), LAMBDA i : params[i].in = "path")[j]].name]]
\* `item`: the path item the operation lives in - operations with the same item share ONE path (and its path-level parameters) and
\* differ in the method; an operation is identified by (method, path).  `pref` / `pafter`: how the document renders the path-level
\* parameters (through components/parameters $refs; the `parameters` key after the method keys) - the meaning is the same.
MkOpIn(id, item, method, params, body) ==
  [id |-> id, item |-> item, method |-> method, segs |-> SegsOf(item, params), params |-> params, body |-> body, pref |-> FALSE, pafter |-> FALSE]
MkOp(id, method, params, body) == MkOpIn(id, id, method, params, body)

\* a signature entry: role "param" (target = index into op.params), "body" (ctype = the content type it carries),
\* "selector" (content_type=...), "extra" (an argument nothing declares)
SigEntry(py, role, target, ctype, opt) == [py |-> py, role |-> role, target |-> target, ctype |-> ctype, opt |-> opt]
\* an argument: supplied?, leaf renderings [v, alt] (alt: the tolerated second spelling for bool / datetime), canonical JSON
NoArg == [sup |-> FALSE, leaves |-> <<>>, canon |-> ""]

NoReq == [n |-> 0, method |-> "", path |-> <<>>, query |-> <<>>, headers |-> <<>>, cookies |-> <<>>, ctype |-> "", body |-> "",
          exc |-> "", msgclass |-> "", blame |-> <<>>]

\* ---------------------------------------------------------------------------------------------
\* Part 2 - the reference and the judge

DefaultHeaders == {"host", "accept", "accept-encoding", "connection", "user-agent", "content-length", "content-type", "cookie"}
TokTypes == {"str", "int", "date", "datetime", "array"}     \* values that are unique tokens (bool / enum values are not)

JoinV(leaves) == IF leaves = <<>> THEN "" ELSE FoldLeft(LAMBDA acc, l : acc \o "," \o l.v, leaves[1].v, Tail(leaves))
\* tolerances: booleans `true`/`True`, date-times `+00:00`/`Z`
Accept(t, leaf, o) == o = leaf.v \/ (t \in {"bool", "datetime"} /\ o = leaf.alt)
\* an array may travel as repeated keys or comma-joined
ValsOK(t, leaves, obs) ==
  \/ Len(obs) = Len(leaves) /\ \A i \in DOMAIN obs : Accept(t, leaves[i], obs[i])
  \/ Len(leaves) > 1 /\ Len(obs) = 1 /\ obs[1] = JoinV(leaves)
Holds(t, leaves, o) == t \in TokTypes /\ leaves # <<>> /\ (Accept(t, leaves[1], o) \/ (Len(leaves) > 1 /\ o = JoinV(leaves)))

Entries(r, L) == CASE L = "query" -> r.query [] L = "header" -> r.headers [] L = "cookie" -> r.cookies [] OTHER -> <<>>
KeyOf(p, L) == IF L = "header" THEN p.lname ELSE p.name       \* header names compare case-insensitively
At(r, L, key) == SelectSeq(Entries(r, L), LAMBDA e : e.k = key)
ValsAt(r, L, key) == [i \in DOMAIN At(r, L, key) |-> At(r, L, key)[i].v]

Loc(op, in, shape, type, required, level) ==
  [in |-> in, name_shape |-> shape, type |-> type, required |-> required, level |-> level, multi_content |-> Multi(op),
   body_kind |-> op.body.kind, found |-> "", observed |-> "", exc |-> "", msgclass |-> ""]
PLoc(op, p) == Loc(op, p.in, p.shape, p.type, p.required, p.level)
BLoc(op) == Loc(op, "body", "", "", op.body.required, "")
OLoc(op, in) == Loc(op, in, "", "", FALSE, "")
F(clause, locus) == [clause |-> clause, locus |-> locus]

ParamArgs(c) == {i \in DOMAIN c.sig : c.sig[i].role = "param" /\ c.sig[i].target \in DOMAIN c.op.params}
BodyArgs(c)  == {i \in DOMAIN c.sig : c.sig[i].role = "body"}
PA(c, i) == c.op.params[c.sig[i].target]

\* (bool / enum values are not unique tokens: they identify an argument only when no other supplied argument has the same JSON)
UniqueCanon(c, i) == ~\E j \in ParamArgs(c) : j # i /\ c.args[j].sup /\ c.args[j].canon = c.args[i].canon
\* where on the wire the token of argument i shows up
Places(c, r, i) ==
  LET p == PA(c, i)  a == c.args[i] IN
  {L \in {"query", "header", "cookie"} :
      \E j \in DOMAIN Entries(r, L) : Holds(p.type, a.leaves, Entries(r, L)[j].v) /\ (L = "header" => Entries(r, L)[j].k \notin DefaultHeaders)}
  \cup (IF \E j \in DOMAIN r.path : Holds(p.type, a.leaves, r.path[j].v) THEN {"path"} ELSE {})
  \cup (IF r.body # "" /\ r.body = a.canon /\ (p.type \in TokTypes \/ UniqueCanon(c, i))     \* the whole body is this argument's JSON
             /\ ~\E j \in BodyArgs(c) : c.args[j].sup /\ c.args[j].canon = r.body             \* ... and not the body argument's own
          THEN {"body"} ELSE {})
First(S) == CHOOSE x \in S : \A y \in S : LET ord == <<"body", "query", "header", "cookie", "path">> IN
               (CHOOSE m \in DOMAIN ord : ord[m] = x) <= (CHOOSE m \in DOMAIN ord : ord[m] = y)

\* the reference for one supplied query / header / cookie argument: present under its ORIGINAL name, in its location, with its value
SuppliedFails(c, r, i) ==
  LET p == PA(c, i)  a == c.args[i]  L == p.in  obs == At(r, L, KeyOf(p, L))  else == Places(c, r, i) \ {L} IN
  IF L = "path" THEN (IF else # {} THEN {F("C04.wrong_location", [PLoc(c.op, p) EXCEPT !.found = First(else)])} ELSE {})
  ELSE IF ValsOK(p.type, a.leaves, ValsAt(r, L, KeyOf(p, L)))
         THEN (IF else # {} THEN {F("C04.wrong_location", [PLoc(c.op, p) EXCEPT !.found = First(else)])} ELSE {})
  ELSE IF obs # <<>> THEN {F("C04." \o L \o "_value", [PLoc(c.op, p) EXCEPT !.observed = obs[1].c])}
  ELSE IF L \in Places(c, r, i) THEN {F("C04." \o L \o "_name", PLoc(c.op, p))}
  ELSE IF else # {} THEN {F("C04.wrong_location", [PLoc(c.op, p) EXCEPT !.found = First(else)])}
  ELSE {F("C04." \o L \o "_missing", PLoc(c.op, p))}

\* an omitted optional must not appear
OmittedFails(c, r, i) ==
  LET p == PA(c, i)  L == p.in  obs == At(r, L, KeyOf(p, L)) IN
  IF L # "path" /\ obs # <<>> THEN {F("C04.none_sent", [PLoc(c.op, p) EXCEPT !.observed = obs[1].c])} ELSE {}

\* nothing else may appear (httpx's own headers tolerated; entries explained by a misplaced argument are reported there)
Explained(c, r, L, e) == \E i \in ParamArgs(c) : c.args[i].sup /\ Holds(PA(c, i).type, c.args[i].leaves, e.v)
ExtraFails(c, r, L) ==
  LET names == {KeyOf(c.op.params[i], L) : i \in {j \in Eff(c.op) : c.op.params[j].in = L}} IN
  {F("C04." \o L \o "_extra", [OLoc(c.op, L) EXCEPT !.observed = e.c]) :
      e \in {x \in ToSet(Entries(r, L)) : x.k \notin names /\ (L = "header" => x.k \notin DefaultHeaders) /\ ~Explained(c, r, L, x)}}

\* the path: the template with every {p} replaced by Str(argument)
PathArgOf(c, name) == {i \in ParamArgs(c) : PA(c, i).in = "path" /\ PA(c, i).name = name /\ c.args[i].sup}
SegOK(c, s, o) == IF s.k = "lit" THEN o.v = s.v
                  ELSE \E i \in PathArgOf(c, s.v) : Len(c.args[i].leaves) = 1 /\ Accept(PA(c, i).type, c.args[i].leaves[1], o.v)
PathFails(c, r) ==
  LET segs == c.op.segs IN
  IF Len(r.path) # Len(segs) THEN {F("C04.path", OLoc(c.op, "path"))}
  ELSE LET bad == {j \in DOMAIN segs : ~SegOK(c, segs[j], r.path[j])} IN
       IF bad = {} THEN {}
       ELSE LET j == CHOOSE x \in bad : \A y \in bad : x <= y IN
            IF segs[j].k = "var" /\ PathArgOf(c, segs[j].v) # {}
              THEN {F("C04.path", [PLoc(c.op, PA(c, CHOOSE i \in PathArgOf(c, segs[j].v) : TRUE)) EXCEPT !.observed = r.path[j].c])}
              ELSE {F("C04.path", [OLoc(c.op, "path") EXCEPT !.observed = r.path[j].c])}

\* the body: content type and canonical content of the supplied body argument; nothing when none is supplied
CtObs(r) == IF r.ctype = "" THEN "(none)" ELSE r.ctype
BodyFails(c, r) ==
  LET B == {i \in BodyArgs(c) : c.args[i].sup}
      leaked == \E i \in ParamArgs(c) : c.args[i].sup /\ "body" \in Places(c, r, i) IN
  IF B = {}
    THEN IF r.ctype = "" /\ r.body = "" THEN {}
         ELSE IF leaked THEN {}
         ELSE IF BodyArgs(c) # {} THEN {F("C04.none_sent", [BLoc(c.op) EXCEPT !.observed = CtObs(r)])}
         ELSE {F("C04.body_ctype", [BLoc(c.op) EXCEPT !.observed = CtObs(r)])}
    ELSE LET i == CHOOSE x \in B : TRUE IN
         \* content type and content are judged independently: a payload that is sent without its content type is one thing,
         \* a payload that is not sent at all another
         (IF r.ctype # c.sig[i].ctype THEN {F("C04.body_ctype", [BLoc(c.op) EXCEPT !.observed = CtObs(r)])} ELSE {})
         \cup (IF r.body # c.args[i].canon THEN {F("C04.body_json", [BLoc(c.op) EXCEPT !.observed = IF r.body = "" THEN "empty" ELSE ""])} ELSE {})

\* a declared parameter / body the signature gives the caller no way to pass
CarrierNames == {"body", "files", "form_data", "bytes_content", "data"}
NoArgumentFails(c) ==
  {F("C04.no_argument", PLoc(c.op, c.op.params[i])) : i \in Eff(c.op) \ {c.sig[j].target : j \in ParamArgs(c)}}
  \cup (IF c.op.body.kind # "none" /\ BodyArgs(c) = {}
          THEN {F("C04.no_argument", [BLoc(c.op) EXCEPT !.observed = IF \E i \in DOMAIN c.op.params : c.op.params[i].name \in CarrierNames
                                                                      THEN "carrier_name_declared" ELSE ""])}
          ELSE {})

\* the call raised before anything was sent although the arguments are well-typed: attributed to the arguments the
\* exception speaks about (header values), else to the arguments without which the same method does send (suspects)
\* (r.blame: the header entries the as-is model holds responsible, when it predicted the same exception - attribution only)
Culprits(c, r) ==
  LET typed == {i \in ParamArgs(c) : c.args[i].sup /\ PA(c, i).in = "header" /\ PA(c, i).type \in {"int", "bool", "array"}}
      hdrs == {i \in ParamArgs(c) : PA(c, i).in = "header"}
      sus == {i \in ToSet(c.suspects) : i \in ParamArgs(c)} IN
  IF r.msgclass = "header_value_not_str"
    THEN IF r.blame # <<>> THEN {i \in ToSet(r.blame) : i \in ParamArgs(c)}
         ELSE IF typed # {} THEN typed ELSE IF hdrs \cap sus # {} THEN hdrs \cap sus ELSE hdrs
    ELSE sus
RaisedFails(c, r) ==
  IF Culprits(c, r) = {} THEN {F("C04.call_raised", [OLoc(c.op, "") EXCEPT !.exc = r.exc, !.msgclass = r.msgclass])}
  ELSE {F("C04.call_raised", [PLoc(c.op, PA(c, i)) EXCEPT !.exc = r.exc, !.msgclass = r.msgclass]) : i \in Culprits(c, r)}

RequestFails(c, r) ==
  (IF r.method # c.op.method THEN {F("C04.method", [OLoc(c.op, "") EXCEPT !.observed = r.method])} ELSE {})
  \cup PathFails(c, r)
  \cup UNION {SuppliedFails(c, r, i) : i \in {j \in ParamArgs(c) : c.args[j].sup}}
  \cup UNION {OmittedFails(c, r, i) : i \in {j \in ParamArgs(c) : ~c.args[j].sup}}
  \cup UNION {ExtraFails(c, r, L) : L \in {"query", "header", "cookie"}}
  \cup BodyFails(c, r)

\* `r` is the summary of what was sent: r.n requests (the first one described), or the exception
Failures(c, r) ==
  NoArgumentFails(c)
  \cup (IF r.n = 0 THEN (IF r.exc # "" THEN RaisedFails(c, r) ELSE {F("C04.count", [OLoc(c.op, "") EXCEPT !.observed = "0"])})
        ELSE RequestFails(c, r) \cup (IF r.n > 1 THEN {F("C04.count", [OLoc(c.op, "") EXCEPT !.observed = "many"])} ELSE {}))

\* the reference request itself (method, path, maps under the original names, body) - what `Failures` accepts without tolerance
ExpectedRequest(c) ==
  LET sup(L) == SelectSeq([i \in DOMAIN c.sig |-> i], LAMBDA i : i \in ParamArgs(c) /\ c.args[i].sup /\ PA(c, i).in = L)
      ents(L) == [j \in DOMAIN sup(L) |-> [k |-> KeyOf(PA(c, sup(L)[j]), L), v |-> JoinV(c.args[sup(L)[j]].leaves), c |-> ""]]
      B == {i \in BodyArgs(c) : c.args[i].sup} IN
  [n |-> 1, method |-> c.op.method,
   path |-> [j \in DOMAIN c.op.segs |->
               IF c.op.segs[j].k = "lit" THEN [v |-> c.op.segs[j].v, c |-> ""]
               ELSE IF PathArgOf(c, c.op.segs[j].v) = {} THEN [v |-> "?", c |-> ""]
               ELSE [v |-> c.args[CHOOSE i \in PathArgOf(c, c.op.segs[j].v) : TRUE].leaves[1].v, c |-> ""]],
   query |-> ents("query"), headers |-> ents("header"), cookies |-> ents("cookie"),
   ctype |-> IF B = {} THEN "" ELSE c.sig[CHOOSE i \in B : TRUE].ctype,
   body |-> IF B = {} THEN "" ELSE c.args[CHOOSE i \in B : TRUE].canon, exc |-> "", msgclass |-> "", blame |-> <<>>]

\* ---------------------------------------------------------------------------------------------
\* Part 3a - the signature the generator derives (parameter_processor / signature_generator / overload_generator)

Fixed == Variant = "fixed"

\* NameSanitizer.sanitize_method_name on the name shapes of the family (implementation-shaped: a deviation is DRIFT)
PyName(shape) == CASE shape = "plain"   -> "limit"
                   [] shape = "kebab"   -> "page_size"
                   [] shape = "camel"   -> "page_size"
                   [] shape = "keyword" -> "class_"
                   [] shape = "id"      -> "id_"
                   [] OTHER             -> shape
BodyPy(kind) == CASE kind = "multipart" -> "files" [] kind = "form" -> "form_data" [] kind \in {"octet", "other"} -> "bytes_content" [] OTHER -> "body"

\* operations/parser.py: path-level parameters first, then the operation's own - nothing is overridden
Merged(op) == SelectSeq([i \in DOMAIN op.params |-> i], LAMBDA i : op.params[i].level = "path")
              \o SelectSeq([i \in DOMAIN op.params |-> i], LAMBDA i : op.params[i].level = "op")
ReqFirst(s) == SelectSeq(s, LAMBDA e : ~e.opt) \o SelectSeq(s, LAMBDA e : e.opt)

\* "fixed": a later duplicate identifier gets a numeric suffix
Decollide(s) == [j \in DOMAIN s |->
                   IF \E m \in 1..(j - 1) : s[m].py = s[j].py THEN [s[j] EXCEPT !.py = s[j].py \o "_" \o ToString(j)] ELSE s[j]]

SigStandard(op) ==
  LET src == IF Fixed THEN EffSeq(op) ELSE Merged(op)
      ps == [j \in DOMAIN src |-> SigEntry(PyName(op.params[src[j]].shape), "param", src[j], "", ~op.params[src[j]].required)]
      b == SigEntry(BodyPy(op.body.kind), "body", 0, CtypeOfBody(op.body), ~op.body.required)
      all == IF op.body.kind = "none" THEN ps
             ELSE IF ~Fixed /\ \E j \in DOMAIN ps : ps[j].py = b.py THEN ps     \* parameter_processor.py:120-129: the body argument is dropped
             ELSE Append(ps, b) IN
  ReqFirst(IF Fixed THEN Decollide(all) ELSE all)

SigMulti(op) ==
  LET src == IF Fixed THEN EffSeq(op) ELSE SelectSeq(Merged(op), LAMBDA i : op.params[i].in # "cookie")   \* overload_generator.py:213-217
      ps == [j \in DOMAIN src |-> SigEntry(PyName(op.params[src[j]].shape), "param", src[j], "",
                                            IF Fixed THEN ~op.params[src[j]].required ELSE FALSE)]   \* `q: str | None` without a default
      all == ps \o <<SigEntry("body", "body", 0, "application/json", TRUE), SigEntry("files", "body", 0, "multipart/form-data", TRUE),
                     SigEntry("content_type", "selector", 0, "", TRUE)>> IN
  IF Fixed THEN ReqFirst(Decollide(all)) ELSE all

SigOf(op) == IF Multi(op) THEN SigMulti(op) ELSE SigStandard(op)
Dead(sig) == \E i, j \in DOMAIN sig : i < j /\ sig[i].py = sig[j].py      \* SyntaxError: duplicate argument - the module does not import

\* argument plans as the observer makes them: every subset of <= 3 optional arguments, else none / all / each single (<= 8);
\* selectors are left alone; for several content types exactly one body argument (what the overloads allow)
OptIdx(sig) == {i \in DOMAIN sig : sig[i].opt /\ sig[i].role # "selector"}
Plans(op, sig) ==
  LET O == OptIdx(sig)
      raw == IF Cardinality(O) <= 3 THEN SUBSET O
             ELSE {{}, O} \cup {{i} : i \in {j \in O : Cardinality({m \in O : m < j}) < 6}} IN
  IF Multi(op) THEN {S \in SUBSET O : Cardinality({i \in S : sig[i].role = "body"}) = 1 /\ Cardinality(S) <= 2}
  ELSE raw

\* symbolic argument values of the design run: one distinct token per argument (two for an array)
SynthArg(op, sig, i) ==
  LET n == ToString(i)  t == IF sig[i].role = "param" THEN op.params[sig[i].target].type ELSE "body" IN
  [sup |-> TRUE,
   leaves |-> CASE t = "array"    -> <<[v |-> "t" \o n \o "a", alt |-> ""], [v |-> "t" \o n \o "b", alt |-> ""]>>
                [] t = "bool"     -> <<[v |-> "true", alt |-> "True"]>>
                [] t = "enum"     -> <<[v |-> "red", alt |-> ""]>>
                [] t = "datetime" -> <<[v |-> "t" \o n, alt |-> "t" \o n \o "z"]>>
                [] t = "body"     -> <<>>
                [] OTHER          -> <<[v |-> "t" \o n, alt |-> ""]>>,
   canon |-> "j" \o n]
SynthCall(op, S) ==
  LET sig == SigOf(op) IN
  [op |-> op, sig |-> sig, plan |-> S, args |-> [i \in DOMAIN sig |-> IF ~sig[i].opt \/ i \in S THEN SynthArg(op, sig, i) ELSE NoArg],
   reqs |-> <<>>, raised |-> [exc |-> "", msgclass |-> ""], suspects |-> <<>>]

\* ---------------------------------------------------------------------------------------------
\* Part 3b - the body of the generated method: local namespace, one step per generator stage

\* Value: [k, i, ents]   k = "arg" (argument i as passed) | "ser" (DataclassSerializer.serialize(argument i)) | "none"
\*                           | "url" (the request URL string) | "dict" (a query / header dict with entries ents) | "undef"
V(k, i) == [k |-> k, i |-> i, ents |-> <<>>]
Locals == {"url", "params", "headers", "cookies", "json_body", "files_data", "form_data_body", "bytes_body", "data"}
\* "fixed": the method's own variables live in a namespace arguments cannot reach
Lcl(n) == IF Fixed THEN "_" \o n ELSE n
Idents(c) == {c.sig[i].py : i \in DOMAIN c.sig} \cup Locals \cup {Lcl(n) : n \in Locals} \cup {"body", "files", "form_data", "bytes_content", "_body"}

Env0(c) == [n \in Idents(c) |->
              IF \E i \in DOMAIN c.sig : c.sig[i].py = n
                THEN LET i == CHOOSE j \in DOMAIN c.sig : c.sig[j].py = n /\ \A m \in DOMAIN c.sig : c.sig[m].py = n => m <= j IN
                     IF c.args[i].sup THEN V("arg", i) ELSE V("none", 0)
                ELSE V("undef", 0)]

Ser(v) == IF v.k = "arg" THEN V("ser", v.i) ELSE v
TypeOfArg(c, i) == IF c.sig[i].role = "param" THEN PA(c, i).type ELSE "body"

\* what str(value) / httpx make of a value in the URL path or in the query string: sequence of [v, c]
\* as_is: DataclassSerializer.serialize returns a `(str, Enum)` member unchanged and str() of it is `Class.MEMBER`;
\*        str() of an unserialised datetime has a space instead of `T`
Rendered(c, v, where) ==
  CASE v.k \in {"arg", "ser"} ->
         LET t == TypeOfArg(c, v.i)  ls == c.args[v.i].leaves IN
         IF ~Fixed /\ t = "enum" THEN <<[v |-> "<enumrepr>", c |-> "enumrepr"]>>
         ELSE IF ~Fixed /\ t = "datetime" /\ v.k = "arg" THEN <<[v |-> "<datetimestr>", c |-> "other"]>>
         ELSE IF t = "body" THEN <<[v |-> c.args[v.i].canon, c |-> "other"]>>
         ELSE IF where = "path" /\ Len(ls) > 1 THEN <<[v |-> "<listrepr>", c |-> "other"]>>
         ELSE [j \in DOMAIN ls |-> [v |-> ls[j].v, c |-> ""]]
    [] v.k = "none"  -> <<[v |-> IF where = "path" THEN "None" ELSE "", c |-> IF where = "path" THEN "other" ELSE "empty"]>>
    [] v.k = "url"   -> <<[v |-> "<url>", c |-> "url"]>>
    [] v.k = "dict"  -> <<[v |-> "<dict>", c |-> "other"]>>
    [] OTHER         -> <<[v |-> "<undef>", c |-> "other"]>>

\* httpx: a header value must be str or bytes
HeaderStr(c, v) ==
  CASE v.k = "ser" /\ TypeOfArg(c, v.i) \in {"str", "enum", "date", "datetime"} -> TRUE
    [] v.k = "arg" /\ TypeOfArg(c, v.i) \in {"str", "enum"} -> TRUE
    [] v.k = "url" -> TRUE
    [] OTHER -> Fixed /\ v.k \in {"ser", "arg"}
HeaderRendered(c, v) ==
  IF v.k \in {"ser", "arg"} THEN [v |-> JoinV(c.args[v.i].leaves), c |-> ""] ELSE [v |-> "<url>", c |-> "url"]

SigIdx(c, L) == SelectSeq([i \in DOMAIN c.sig |-> i], LAMBDA i : i \in ParamArgs(c) /\ PA(c, i).in = L)
PyOfVar(c, name) == LET S == {i \in ParamArgs(c) : PA(c, i).in = "path" /\ PA(c, i).name = name} IN
                    IF S = {} THEN "?" ELSE c.sig[CHOOSE i \in S : TRUE].py
Look(e, n) == IF n \in DOMAIN e THEN e[n] ELSE V("undef", 0)

UrlPath(c, e) == [j \in DOMAIN c.op.segs |->
                    IF c.op.segs[j].k = "lit" THEN [v |-> c.op.segs[j].v, c |-> ""]
                    ELSE Rendered(c, Look(e, PyOfVar(c, c.op.segs[j].v)), "path")[1]]

\* the dict literal of _write_query_params / _write_header_params: required entries always, optional ones `if x is not None`
DictOf(c, e, L) ==
  LET idx == SigIdx(c, L)
      keep == SelectSeq(idx, LAMBDA i : PA(c, i).required \/ Look(e, c.sig[i].py).k # "none") IN
  [k |-> "dict", i |-> 0, ents |-> [j \in DOMAIN keep |-> [name |-> PA(c, keep[j]).name, lname |-> PA(c, keep[j]).lname, idx |-> keep[j],
                                                          val |-> [Ser(Look(e, c.sig[keep[j]].py)) EXCEPT !.ents = <<>>]]]]

S0(c) == [pc |-> "process", env |-> Env0(c), req |-> NoReq]

StepProcess(c, s) ==
  IF Dead(c.sig) THEN [s EXCEPT !.pc = "dead"]
  ELSE IF Multi(c.op) /\ ~Fixed THEN [s EXCEPT !.pc = "dispatch"]
  ELSE [s EXCEPT !.pc = "path"]

\* `x = DataclassSerializer.serialize(x)` for path parameters, then `url = f"{self.base_url}/..."`
StepPath(c, s) ==
  LET idx == SigIdx(c, "path")
      e1 == [n \in DOMAIN s.env |-> IF \E j \in DOMAIN idx : c.sig[idx[j]].py = n THEN Ser(s.env[n]) ELSE s.env[n]] IN
  [s EXCEPT !.pc = "query", !.env = [e1 EXCEPT ![Lcl("url")] = V("url", 0)], !.req = [s.req EXCEPT !.path = UrlPath(c, e1)]]

StepQuery(c, s) ==
  IF SigIdx(c, "query") = <<>> THEN [s EXCEPT !.pc = "header"]
  ELSE [s EXCEPT !.pc = "header", !.env = [s.env EXCEPT ![Lcl("params")] = DictOf(c, s.env, "query")]]

StepHeader(c, s) ==
  IF SigIdx(c, "header") = <<>> THEN [s EXCEPT !.pc = "cookie"]
  ELSE [s EXCEPT !.pc = "cookie", !.env = [s.env EXCEPT ![Lcl("headers")] = DictOf(c, s.env, "header")]]

\* as_is: url_args_generator has no branch for param_in == "cookie" - nothing is bound
StepCookie(c, s) ==
  IF Fixed /\ SigIdx(c, "cookie") # <<>> THEN [s EXCEPT !.pc = "body", !.env = [s.env EXCEPT ![Lcl("cookies")] = DictOf(c, s.env, "cookie")]]
  ELSE [s EXCEPT !.pc = "body"]

\* `json_body = serialize(body)` / `files_data = serialize(files)` / `form_data_body = serialize(form_data)` / `bytes_body = bytes_content`
\* - by NAME, whatever that name is bound to in the namespace
BodyLocal(kind) == CASE kind = "multipart" -> "files_data" [] kind = "form" -> "form_data_body" [] kind \in {"octet", "other"} -> "bytes_body" [] OTHER -> "json_body"
BodySrc(c) == IF Fixed THEN (IF BodyArgs(c) = {} THEN "?" ELSE c.sig[CHOOSE i \in BodyArgs(c) : TRUE].py) ELSE BodyPy(c.op.body.kind)
StepBody(c, s) ==
  IF c.op.body.kind = "none" THEN [s EXCEPT !.pc = "send"]
  ELSE IF Fixed THEN LET B == {i \in BodyArgs(c) : c.args[i].sup} IN
                     [s EXCEPT !.pc = "send", !.env = [s.env EXCEPT !["_body"] = IF B = {} THEN V("none", 0) ELSE V("ser", CHOOSE i \in B : TRUE)]]
  ELSE [s EXCEPT !.pc = "send", !.env = [s.env EXCEPT ![Lcl(BodyLocal(c.op.body.kind))] = Ser(Look(s.env, BodySrc(c)))]]

\* several request content types (as_is): url from the raw arguments, then the first content-type argument that is not None,
\* `params=None, headers=None` in every branch
StepDispatch(c, s) ==
  LET e == [s.env EXCEPT !["url"] = V("url", 0)]
      b == Look(s.env, "body")  f == Look(s.env, "files") IN
  [s EXCEPT !.pc = "send",
            !.env = IF b.k # "none" THEN [e EXCEPT !["json_body"] = Ser(b)] ELSE IF f.k # "none" THEN [e EXCEPT !["files_data"] = f] ELSE e,
            !.req = [s.req EXCEPT !.path = UrlPath(c, s.env)]]

DictEntries(c, d, L) ==
  IF d.k # "dict" THEN <<>>
  ELSE IF L = "header" THEN [j \in DOMAIN d.ents |-> [k |-> d.ents[j].lname, v |-> HeaderRendered(c, d.ents[j].val).v, c |-> HeaderRendered(c, d.ents[j].val).c]]
  ELSE FoldLeft(LAMBDA acc, x : acc \o [m \in DOMAIN Rendered(c, x.val, L) |-> [k |-> x.name, v |-> Rendered(c, x.val, L)[m].v, c |-> Rendered(c, x.val, L)[m].c]],
                <<>>, d.ents)

BodyCtype(c, local) == CASE local = "json_body" -> "application/json"
                         [] local = "files_data" -> "multipart/form-data"
                         [] local = "form_data_body" -> "application/x-www-form-urlencoded"
                         [] OTHER -> ""      \* data=<bytes>: httpx sets no content type
\* self._transport.request(METHOD, url, params=..., json=/data=/files=..., headers=...)
StepSend(c, s) ==
  LET e == s.env
      multi == Multi(c.op) /\ ~Fixed
      anyQ == \E i \in DOMAIN c.op.params : c.op.params[i].in = "query"         \* request_generator.py:43 looks at op.parameters
      q == IF multi \/ ~anyQ THEN V("none", 0) ELSE Look(e, Lcl("params"))
      h == IF multi \/ SigIdx(c, "header") = <<>> THEN V("none", 0) ELSE Look(e, Lcl("headers"))
      ck == IF Fixed THEN Look(e, Lcl("cookies")) ELSE V("none", 0)
      local == IF multi THEN (IF Look(e, "json_body").k # "undef" THEN "json_body" ELSE "files_data") ELSE BodyLocal(c.op.body.kind)
      bv == IF c.op.body.kind = "none" THEN V("none", 0) ELSE IF Fixed THEN Look(e, "_body") ELSE Look(e, local)
      hasBody == bv.k \in {"ser", "arg"}
      ctype == IF Fixed THEN c.sig[bv.i].ctype ELSE BodyCtype(c, local)
      badHdr == h.k = "dict" /\ \E j \in DOMAIN h.ents : ~HeaderStr(c, h.ents[j].val) IN
  IF multi /\ ~hasBody THEN [s EXCEPT !.pc = "judge", !.req = [NoReq EXCEPT !.exc = "ValueError", !.msgclass = "no_content_argument"]]
  ELSE IF badHdr THEN [s EXCEPT !.pc = "judge", !.req = [NoReq EXCEPT !.exc = "TypeError", !.msgclass = "header_value_not_str",
                                                                     !.blame = [j \in DOMAIN SelectSeq(h.ents, LAMBDA x : ~HeaderStr(c, x.val)) |->
                                                                                  SelectSeq(h.ents, LAMBDA x : ~HeaderStr(c, x.val))[j].idx]]]
  ELSE [s EXCEPT !.pc = "judge",
                 !.req = [s.req EXCEPT !.n = 1, !.method = c.op.method,
                                       !.query = DictEntries(c, q, "query"), !.headers = DictEntries(c, h, "header"),
                                       !.cookies = DictEntries(c, ck, "cookie"),
                                       !.ctype = IF hasBody THEN ctype ELSE "",
                                       !.body = IF hasBody THEN c.args[bv.i].canon ELSE ""]]

Step(c, s) == CASE s.pc = "process"  -> StepProcess(c, s)
                [] s.pc = "path"     -> StepPath(c, s)
                [] s.pc = "query"    -> StepQuery(c, s)
                [] s.pc = "header"   -> StepHeader(c, s)
                [] s.pc = "cookie"   -> StepCookie(c, s)
                [] s.pc = "body"     -> StepBody(c, s)
                [] s.pc = "dispatch" -> StepDispatch(c, s)
                [] s.pc = "send"     -> StepSend(c, s)
                [] OTHER             -> s

\* closed form (what the monitor uses): the stages composed
RECURSIVE RunFrom(_, _, _)
RunFrom(c, s, fuel) == IF s.pc \in {"judge", "dead"} \/ fuel = 0 THEN s ELSE RunFrom(c, Step(c, s), fuel - 1)
Run(c) == RunFrom(c, S0(c), 12)
ModelFails(c) == LET s == Run(c) IN IF s.pc = "dead" THEN {} ELSE Failures(c, s.req)

\* ---------------------------------------------------------------------------------------------
\* the machine

\* (the signature and the argument plans are derived in an action of their own, not in Init: TLC computes initial states
\*  on one thread, successor states on all of them)
Init ==
  /\ \E k \in DOMAIN Ops : \E op \in Ops[k] : call = [op |-> op, sig |-> <<>>, plan |-> {}, args |-> <<>>, reqs |-> <<>>,
                              raised |-> [exc |-> "", msgclass |-> ""], suspects |-> <<>>]
  /\ pc = "init" /\ env = <<>> /\ req = NoReq /\ verdict = {}

\* choose which optional arguments the caller supplies
Plan ==
  /\ pc = "init"
  /\ \E S \in Plans(call.op, SigOf(call.op)) : call' = SynthCall(call.op, S)
  /\ env' = Env0(call') /\ pc' = "process"
  /\ UNCHANGED <<req, verdict>>

Cur == [pc |-> pc, env |-> env, req |-> req]
Apply == LET s == Step(call, Cur) IN pc' = s.pc /\ env' = s.env /\ req' = s.req /\ UNCHANGED <<call, verdict>>

\* SCEN is printed once per operation: at the least plan (fewest optional arguments, then smallest index)
Less(S, T) == Cardinality(S) < Cardinality(T) \/ (Cardinality(S) = Cardinality(T) /\ S # {} /\ T # {} /\ Min(S) < Min(T))
IsFirstPlan(c) == LET P == Plans(c.op, c.sig) IN \A T \in P : T = c.plan \/ Less(c.plan, T)

Process ==
  /\ pc = "process" /\ Apply
  /\ (Emit /\ IsFirstPlan(call)) =>
        PrintT("SCEN " \o ToJson([op |-> call.op, dead |-> Dead(call.sig), sig |-> call.sig,
                                   raises |-> ~Dead(call.sig) /\ Run(call).req.exc # ""]))   \* packing hint: the least call sends nothing
BindPath   == pc = "path" /\ Apply
BindQuery  == pc = "query" /\ Apply
BindHeader == pc = "header" /\ Apply
BindCookie == pc = "cookie" /\ Apply
BindBody   == pc = "body" /\ Apply
Dispatch   == pc = "dispatch" /\ Apply
Send       == pc = "send" /\ Apply
Judge ==
  /\ pc = "judge"
  /\ verdict' = Failures(call, req)
  /\ pc' = "done"
  /\ (Emit /\ verdict' # {}) =>
        PrintT("DESIGN " \o ToJson([id |-> call.op.id, fails |-> SetToSeq({[clause |-> f.clause, locus |-> f.locus] : f \in verdict'})]))
  /\ UNCHANGED <<call, env, req>>

Next == Plan \/ Process \/ BindPath \/ BindQuery \/ BindHeader \/ BindCookie \/ BindBody \/ Dispatch \/ Send \/ Judge
Spec == Init /\ [][Next]_vars

\* ---------------------------------------------------------------------------------------------
\* properties

TypeOK ==
  /\ pc \in {"init", "process", "path", "query", "header", "cookie", "body", "dispatch", "send", "judge", "done", "dead"}
  /\ call.op.method \in Methods /\ call.op.body.kind \in BodyKinds
  /\ \A i \in DOMAIN call.op.params : call.op.params[i].in \in Locations /\ call.op.params[i].type \in Types /\ call.op.params[i].shape \in Shapes
  /\ req.n \in {0, 1}

\* the step-wise machine and the closed form agree
MachineIsModel == pc \in {"done", "dead"} => (Run(call).pc = IF pc = "dead" THEN "dead" ELSE "judge") /\ (pc = "done" => Run(call).req = req)
VerdictIsJudge == pc = "done" => verdict = ModelFails(call)
\* the reference is a fixpoint of the judge: the expected request itself has no failing clause beyond unbindable declarations
ReferenceAccepted == pc = "done" => Failures(call, ExpectedRequest(call)) = NoArgumentFails(call)
\* C04 at design level: Send => request = ExpectedRequest (modulo the judge's tolerances).  INVARIANT for "fixed" only.
RequestOK == pc = "done" => verdict = {}
NeverDead == pc # "dead"
\* clause-level statements that hold of the code path as it is (real INVARIANTs of the as_is run)
ExactlyOneOrRaise == pc = "done" => (req.n = 1 \/ req.exc # "")
MethodOK == pc = "done" /\ req.n = 1 => req.method = call.op.method
=============================================================================
