----------------------------- MODULE UnionCodec -----------------------------
(***************************************************************************)
(* C14 - union values are decoded as the right variant, never lossily.     *)
(*                                                                         *)
(* JSON values are tagged trees (TLC refuses to compare values of          *)
(* different types, so every comparison below looks at the tag first):     *)
(*   [t |-> "null", v |-> 0]   [t |-> "s", v |-> "va"]   [t |-> "b", v |-> TRUE] *)
(*   [t |-> "i", v |-> 7]      integer literal                             *)
(*   [t |-> "f", v |-> 15]     float literal, in TENTHS (1.5)              *)
(*   [t |-> "l", v |-> <<tree, ...>>]                                      *)
(*   [t |-> "o", v |-> <<[k |-> key, v |-> tree], ...>>]   key-sorted      *)
(*   [t |-> "x", v |-> "..."]  something that is not JSON (observations)   *)
(*                                                                         *)
(* Variant types:                                                          *)
(*   [k |-> "obj", f |-> <<ma, mb, mc>>, of |-> "-"]  object over the      *)
(*        string fields a, b, c; each field abs(ent) / opt(ional) / req /  *)
(*        rnul = required AND nullable (the payload may carry null);       *)
(*        a property may also carry schema annotations that change what    *)
(*        the emitted field ACCEPTS: reqdef / optdef (declared `default`   *)
(*        on a required / optional property), reqenum (inline enum),       *)
(*        reqdate (format: date)                                           *)
(*   [k |-> "str"|"int"|"float"|"bool", f |-> <<>>, of |-> "-"]            *)
(*   [k |-> "list"|"map", f |-> <<>>, of |-> "str"|"int"]                  *)
(*   [k |-> "anymap", ...]     dict[str, Any] (what the generator emits    *)
(*                             for an inline free-form object)             *)
(* A union is [vars : Seq(type), nullable : BOOLEAN,                       *)
(*             disc : [mode : "none"|"complete"|"partial", prop, mapping : Seq(<<tag, index>>)]] *)
(* With a discriminator every object variant additionally has the          *)
(* required string property disc.prop.                                     *)
(*                                                                         *)
(* Two semantics:                                                          *)
(*   ChooseVariant - the REFERENCE (what the property states)              *)
(*   ImplChoose    - the algorithm of cattrs_converter._structure_union    *)
(*                   over cattrs' coercing primitive hooks                 *)
(* Judge(p, u, outcome) names the property clause an outcome violates.     *)
(***************************************************************************)
EXTENDS Integers, Sequences, FiniteSets, TLC, SequencesExt, FiniteSetsExt

FieldNames == <<"a", "b", "c">>

\* ------------------------------------------------------------------ values
Null  == [t |-> "null", v |-> 0]
S(x)  == [t |-> "s", v |-> x]
I(n)  == [t |-> "i", v |-> n]
F(n)  == [t |-> "f", v |-> n]
B(b)  == [t |-> "b", v |-> b]
L(s)  == [t |-> "l", v |-> s]
O(es) == [t |-> "o", v |-> es]
KV(k, x) == [k |-> k, v |-> x]

IsNum(x)  == x.t \in {"i", "f"}
Tenths(x) == IF x.t = "i" THEN x.v * 10 ELSE x.v

Keys(p)   == {p.v[i].k : i \in 1..Len(p.v)}
Get(p, k) == (p.v[CHOOSE i \in 1..Len(p.v) : p.v[i].k = k]).v

\* Eq(x, y): the (re-)encoded value x carries everything the payload y carries.  Numbers compare numerically
\* (1 = 1.0), booleans and strings are not numbers.  Tolerance (DESIGN 2.6 rule 2): a key that x has with value
\* null and y does not have at all is ignored (an absent optional is re-encoded as null); the converse is NOT
\* tolerated - a key the payload carries, even with an explicit null, must come back.
RECURSIVE Eq(_, _)
Eq(x, y) ==
  IF IsNum(x) /\ IsNum(y) THEN Tenths(x) = Tenths(y)
  ELSE IF x.t # y.t THEN FALSE
  ELSE CASE x.t = "null" -> TRUE
         [] x.t = "l" -> /\ Len(x.v) = Len(y.v)
                         /\ \A i \in 1..Len(x.v) : Eq(x.v[i], y.v[i])
         [] x.t = "o" -> /\ \A k \in Keys(y) : k \in Keys(x) /\ Eq(Get(x, k), Get(y, k))
                         /\ \A k \in Keys(x) \ Keys(y) : Get(x, k).t = "null"
         [] OTHER -> x.v = y.v

ObjRestrict(p, K) == O(SelectSeq(p.v, LAMBDA e : e.k \in K))

\* ------------------------------------------------------------------ types
Obj(f)    == [k |-> "obj", f |-> f, of |-> "-"]
Prim(x)   == [k |-> x, f |-> <<>>, of |-> "-"]
ListOf(e) == [k |-> "list", f |-> <<>>, of |-> e]
MapOf(e)  == [k |-> "map", f |-> <<>>, of |-> e]
AnyMap    == [k |-> "anymap", f |-> <<>>, of |-> "-"]

\* property modes: what the SCHEMA says (the reference reads conformance off these, never off emitted code)
ReqModes  == {"req", "rnul", "reqdef", "reqenum", "reqdate"}     \* listed in `required` - a default does not change that
OptModes  == {"opt", "optdef"}
DefModes  == {"reqdef", "optdef"}                                \* carry `default: "d<key>"`
DefVal(k)  == "d" \o k
EnumVal(k) == "v" \o k                                          \* reqenum: `enum: ["v<key>"]`
Dates      == {"2020-01-02"}                                     \* reqdate: `format: date`
WithMode(T, m) == {FieldNames[i] : i \in {j \in 1..3 : T.f[j] = m}}
WithModes(T, M) == {FieldNames[i] : i \in {j \in 1..3 : T.f[j] \in M}}
Extra(dp)      == IF dp = "-" THEN {} ELSE {dp}
Required(T, dp) == WithModes(T, ReqModes) \cup Extra(dp)
Declared(T, dp) == Required(T, dp) \cup WithModes(T, OptModes)
\* does a (non-null) value conform to the property's schema?
ValueOk(m, k, x) ==
  CASE m = "reqenum" -> x.t = "s" /\ x.v = EnumVal(k)
    [] m = "reqdate" -> x.t = "s" /\ x.v \in Dates
    [] OTHER -> x.t = "s"
ModeOf(T, k)    == IF \E i \in 1..3 : FieldNames[i] = k THEN T.f[CHOOSE i \in 1..3 : FieldNames[i] = k] ELSE "req"

DiscProp(u) == IF u.disc.mode = "none" THEN "-" ELSE u.disc.prop
MapIdx(u, tag) ==
  LET hits == {i \in 1..Len(u.disc.mapping) : u.disc.mapping[i][1] = tag}
  IN IF hits = {} THEN 0 ELSE u.disc.mapping[CHOOSE i \in hits : TRUE][2]

Ok(x) == [ok |-> TRUE, val |-> x]
Fail  == [ok |-> FALSE, val |-> Null]

\* ------------------------------------------------------------------ reference semantics
\* Decode is strict about JSON types and lenient about unknown keys (it ignores them); Encode is the identity on
\* the canonical wire form a decoded value is represented by.  A variant is acceptable for a payload exactly when
\* nothing is lost: Encode(Decode(p, V), V) = p.
RECURSIVE RefDecode(_, _, _)
RefDecode(p, T, dp) ==
  CASE T.k = "obj" ->
         IF /\ p.t = "o"
            /\ Required(T, dp) \subseteq Keys(p)
            /\ \A k \in Keys(p) \cap Declared(T, dp) :
                  ValueOk(ModeOf(T, k), k, Get(p, k)) \/ (Get(p, k).t = "null" /\ ModeOf(T, k) = "rnul")
         THEN Ok(ObjRestrict(p, Declared(T, dp))) ELSE Fail
    [] T.k = "str"   -> IF p.t = "s" THEN Ok(p) ELSE Fail
    [] T.k = "bool"  -> IF p.t = "b" THEN Ok(p) ELSE Fail
    [] T.k = "int"   -> IF p.t = "i" THEN Ok(p)
                        ELSE IF p.t = "f" /\ p.v % 10 = 0 THEN Ok(I(p.v \div 10)) ELSE Fail
    [] T.k = "float" -> IF IsNum(p) THEN Ok(F(Tenths(p))) ELSE Fail
    [] T.k = "list"  ->
         IF p.t = "l" /\ \A i \in 1..Len(p.v) : RefDecode(p.v[i], Prim(T.of), "-").ok
         THEN Ok(L([i \in 1..Len(p.v) |-> RefDecode(p.v[i], Prim(T.of), "-").val])) ELSE Fail
    [] T.k = "map"   ->
         IF p.t = "o" /\ \A i \in 1..Len(p.v) : RefDecode(p.v[i].v, Prim(T.of), "-").ok
         THEN Ok(O([i \in 1..Len(p.v) |-> KV(p.v[i].k, RefDecode(p.v[i].v, Prim(T.of), "-").val)])) ELSE Fail
    [] T.k = "anymap" -> IF p.t = "o" THEN Ok(p) ELSE Fail

Encode(v, T) == v

Acceptable(p, u) ==
  {i \in 1..Len(u.vars) :
     LET d == RefDecode(p, u.vars[i], DiscProp(u)) IN d.ok /\ Eq(Encode(d.val, u.vars[i]), p)}

\* What the property demands for (payload, union):
\*   exp = "value": the result must be one of `set` (0 stands for null) and, when `lossless`, re-encode to p
\*   exp = "error": decoding must be reported as an error (why = "unmapped" | "mapped_fails")
\*   exp = "unspecified": the payload conforms to no variant - only C14.not_a_variant is judged
Expect(e, set, ll, why) == [exp |-> e, set |-> set, lossless |-> ll, why |-> why]
ChooseVariant(p, u) ==
  IF p.t = "null" THEN (IF u.nullable THEN Expect("value", {0}, TRUE, "-") ELSE Expect("unspecified", {}, FALSE, "-"))
  ELSE IF u.disc.mode = "none" THEN
    LET acc == Acceptable(p, u)
    IN IF acc = {} THEN Expect("unspecified", {}, FALSE, "-") ELSE Expect("value", acc, TRUE, "-")
  ELSE
    IF ~(p.t = "o" /\ u.disc.prop \in Keys(p) /\ Get(p, u.disc.prop).t = "s") THEN Expect("unspecified", {}, FALSE, "-")
    ELSE LET m == MapIdx(u, Get(p, u.disc.prop).v)
         IN IF m = 0 THEN Expect("error", {}, FALSE, "unmapped")
            ELSE LET d == RefDecode(p, u.vars[m], u.disc.prop)
                 IN IF ~d.ok THEN Expect("error", {}, FALSE, "mapped_fails")
                    ELSE Expect("value", {m}, Eq(d.val, p), "-")

\* ------------------------------------------------------------------ the code's algorithm
IntOfStr == [x \in {"5", "55", "0", "7"} |-> CASE x = "5" -> 5 [] x = "55" -> 55 [] x = "0" -> 0 [] x = "7" -> 7]
PyStr(x) == IF x.t = "s" THEN x ELSE S("~str")                 \* str(x): always succeeds
Truthy(x) == CASE x.t = "b" -> x.v
               [] x.t \in {"i", "f"} -> x.v # 0
               [] x.t = "s" -> x.v # ""
               [] x.t \in {"l", "o"} -> Len(x.v) > 0
               [] OTHER -> FALSE

\* cattrs' default hooks for primitives call the constructor: str(x), int(x), float(x), bool(x)
ImplPrim(p, k) ==
  CASE k = "str"  -> Ok(PyStr(p))
    [] k = "bool" -> Ok(B(Truthy(p)))
    [] k = "int"  -> (CASE p.t = "i" -> Ok(p)
                        [] p.t = "f" -> Ok(I(p.v \div 10))
                        [] p.t = "b" -> Ok(I(IF p.v THEN 1 ELSE 0))
                        [] p.t = "s" -> IF p.v \in DOMAIN IntOfStr THEN Ok(I(IntOfStr[p.v])) ELSE Fail
                        [] OTHER -> Fail)
    [] k = "float" -> (CASE p.t = "i" -> Ok(F(p.v * 10))
                         [] p.t = "f" -> Ok(p)
                         [] p.t = "b" -> Ok(F(IF p.v THEN 10 ELSE 0))
                         [] p.t = "s" -> IF p.v \in DOMAIN IntOfStr THEN Ok(F(IntOfStr[p.v] * 10)) ELSE Fail
                         [] OTHER -> Fail)

ImplDecode(p, T, dp) ==
  CASE T.k = "obj" ->
         \* make_dict_structure_fn: required keys must be present (null counts as present), unknown keys are ignored,
         \* str(x) per `str` field, `str | None` fields (optional / required-nullable) keep null
         \* what the emitted field makes of the annotations: a default on a REQUIRED property is not a field default
         \* (the key stays mandatory), a default on an optional property fills the absent key, an inline enum is an Enum
         \* class and format: date a datetime.date - both reject other values, which is what first-match tests
         IF /\ p.t = "o" /\ Required(T, dp) \subseteq Keys(p)
            /\ \A k \in Keys(p) \cap Declared(T, dp) :
                  ModeOf(T, k) \in {"reqenum", "reqdate"} => ValueOk(ModeOf(T, k), k, Get(p, k))
         THEN LET val(k) == IF k \in Keys(p)
                              THEN (IF Get(p, k).t = "null" /\ ModeOf(T, k) \notin {"req", "reqdef"} THEN Null ELSE PyStr(Get(p, k)))
                              ELSE S(DefVal(k))
                  has(k) == k \in Declared(T, dp) /\ (k \in Keys(p) \/ ModeOf(T, k) = "optdef")
                  flds == SelectSeq(FieldNames, has)
              IN Ok(O([i \in 1..Len(flds) |-> KV(flds[i], val(flds[i]))]
                      \o (IF dp # "-" /\ dp \in Keys(p) THEN <<KV(dp, PyStr(Get(p, dp)))>> ELSE <<>>)))
         ELSE Fail
    [] T.k \in {"str", "int", "float", "bool"} -> ImplPrim(p, T.k)
    [] T.k = "list" ->
         \* cattrs iterates whatever it is given: a string yields its characters, a dict its keys
        (CASE p.t = "l" -> IF \A i \in 1..Len(p.v) : ImplPrim(p.v[i], T.of).ok
                           THEN Ok(L([i \in 1..Len(p.v) |-> ImplPrim(p.v[i], T.of).val])) ELSE Fail
           [] p.t = "s" -> IF T.of = "str" THEN Ok(L(<<S("~chars")>>))
                           ELSE IF p.v \in DOMAIN IntOfStr THEN Ok(L(<<I(0)>>)) ELSE Fail
           [] p.t = "o" -> IF T.of = "str" THEN Ok(L([i \in 1..Len(p.v) |-> S(p.v[i].k)]))
                           ELSE IF Len(p.v) = 0 THEN Ok(L(<<>>)) ELSE Fail
           [] OTHER -> Fail)
    [] T.k = "map" ->
         IF p.t = "o" /\ \A i \in 1..Len(p.v) : ImplPrim(p.v[i].v, T.of).ok
         THEN Ok(O([i \in 1..Len(p.v) |-> KV(p.v[i].k, ImplPrim(p.v[i].v, T.of).val)])) ELSE Fail
    [] T.k = "anymap" -> Fail          \* never tried as a variant, only used as the fallback

MinOf(Sx) == CHOOSE x \in Sx : \A y \in Sx : x <= y
Outcome(out, chosen, reenc, ekind) ==
  [out |-> out, chosen |-> chosen, reenc |-> reenc, ekind |-> ekind,
   ckind |-> IF out = "err" THEN "-" ELSE IF chosen = 0 THEN "null" ELSE "-"]


ImplSequential(p, u, dp) ==
  LET n      == Len(u.vars)
      dcs    == {i \in 1..n : u.vars[i].k = "obj"}
      anys   == {i \in 1..n : u.vars[i].k = "anymap"}
      others == (1..n) \ (dcs \cup anys)
      okd    == {i \in dcs : ImplDecode(p, u.vars[i], dp).ok}
      oko    == {i \in others : ImplDecode(p, u.vars[i], dp).ok}
      tryOthers ==
        IF oko # {} THEN Outcome("ok", MinOf(oko), ImplDecode(p, u.vars[MinOf(oko)], dp).val, "-")
        ELSE IF anys # {} /\ p.t = "o" THEN Outcome("ok", MinOf(anys), p, "-")
        ELSE Outcome("err", 0, Null, "no_variant")
  IN IF p.t = "o" THEN
       IF okd # {} THEN Outcome("ok", MinOf(okd), ImplDecode(p, u.vars[MinOf(okd)], dp).val, "-")
       ELSE IF anys # {} THEN Outcome("ok", MinOf(anys), p, "-")
       ELSE IF dcs # {} THEN Outcome("err", 0, Null, "no_dataclass_variant")   \* other variants are NOT tried
       ELSE tryOthers
     ELSE tryOthers

ImplChoose(p, u) ==
  LET dp == DiscProp(u) IN
  IF p.t = "null" THEN (IF u.nullable THEN Outcome("ok", 0, Null, "-") ELSE Outcome("err", 0, Null, "null_not_allowed"))
  ELSE IF dp # "-" /\ p.t = "o" /\ dp \in Keys(p) /\ Len(u.disc.mapping) > 0 /\ Get(p, dp).t = "s" THEN
    LET m == MapIdx(u, Get(p, dp).v)
    IN IF m = 0 THEN Outcome("err", 0, Null, "unknown_discriminator")
       ELSE LET d == ImplDecode(p, u.vars[m], dp)
            IN IF d.ok THEN Outcome("ok", m, d.val, "-") ELSE Outcome("err", 0, Null, "mapped_variant_failed")
  ELSE ImplSequential(p, u, dp)

\* ------------------------------------------------------------------ judgement
\* An outcome is [out : "ok"|"err", chosen : variant index (0: none identified), reenc : tree, ekind] and, for
\* observations of the real code, ckind : Python kind of the produced value (used when chosen = 0).
KindMatches(ckind, T) ==
  CASE ckind = "dict" -> T.k \in {"map", "anymap"}
    [] ckind = "obj"  -> T.k = "obj"
    [] OTHER -> T.k = ckind

ChosenIdx(u, o) ==
  IF o.chosen > 0 THEN o.chosen
  ELSE IF o.ckind = "null" THEN (IF u.nullable THEN 0 ELSE -1)
  ELSE LET hits == {i \in 1..Len(u.vars) : KindMatches(o.ckind, u.vars[i])}
       IN IF hits = {} THEN -1 ELSE MinOf(hits)

\* Lossless(re-encoding x, payload y) for union u: Eq, plus the tolerance that a key the payload lacks may come back
\* with the declared default of an OPTIONAL property of some variant (default filling adds, it never discards).
DefaultKeys(u) == UNION {WithMode(u.vars[i], "optdef") : i \in {j \in 1..Len(u.vars) : u.vars[j].k = "obj"}}
EqU(x, y, u) ==
  IF x.t = "o" /\ y.t = "o"
    THEN /\ \A k \in Keys(y) : k \in Keys(x) /\ Eq(Get(x, k), Get(y, k))
         /\ \A k \in Keys(x) \ Keys(y) :
               \/ Get(x, k).t = "null"
               \/ (k \in DefaultKeys(u) /\ Get(x, k).t = "s" /\ Get(x, k).v = DefVal(k))
    ELSE Eq(x, y)

\* e is ChooseVariant(p, u) (passed in so that callers evaluate it once per payload)
\* C14.not_a_variant: whatever the payload, a successful decode is a value of one of the union's variants (or null
\* for a nullable union) - never a raw container that belongs to no variant ("decoded as the right variant").
JudgeE(p, u, o, e) ==
  CASE e.exp = "unspecified" -> IF o.out = "ok" /\ ChosenIdx(u, o) = -1 THEN "C14.not_a_variant" ELSE "ok"
    [] e.exp = "error" ->
         IF o.out = "err" THEN "ok"
         ELSE IF e.why = "unmapped" THEN "C14.unmapped_guess" ELSE "C14.retry_after_mapped_failure"
    [] e.exp = "value" ->
         IF o.out = "err" THEN "C14.error_on_conforming"
         ELSE IF u.disc.mode # "none" /\ p.t # "null" /\ ChosenIdx(u, o) \notin e.set THEN "C14.wrong_variant_with_discriminator"
         ELSE IF ChosenIdx(u, o) = -1 THEN "C14.not_a_variant"
         ELSE IF e.lossless /\ ~EqU(o.reenc, p, u) THEN "C14.lossy"
         ELSE "ok"
Judge(p, u, o) == JudgeE(p, u, o, ChooseVariant(p, u))

\* Locus of a failing outcome: computed from the observation (which variant was produced) and the reference
\* (which variant the payload is a lossless instance of) - never from "features present in the scenario".
KindOfIdx(u, i, o) == IF i >= 1 THEN u.vars[i].k ELSE IF i = 0 THEN "null" ELSE o.ckind

Relation(u, c, t) ==
  IF c >= 1 /\ t >= 1 /\ u.vars[c].k = "obj" /\ u.vars[t].k = "obj" THEN
    LET dp == DiscProp(u)
        C  == u.vars[c]
        T  == u.vars[t]
    IN IF c = t THEN "same"
       ELSE IF Required(C, "-") = {} THEN "all_optional"
       ELSE IF Declared(C, dp) \subseteq Declared(T, dp) /\ Declared(C, dp) # Declared(T, dp) THEN "subset"
       ELSE "overlap"
  ELSE "-"

LocusE(p, u, o, e) ==
  LET c == ChosenIdx(u, o)
      t == IF e.exp = "value" THEN MinOf(e.set) ELSE 0
  IN [chosen_kind |-> IF o.out = "err" THEN "-" ELSE KindOfIdx(u, c, o),
      true_kind   |-> IF t >= 1 THEN u.vars[t].k ELSE IF e.exp = "value" THEN "null" ELSE "-",
      payload     |-> p.t,
      relation    |-> IF o.out = "err" THEN "-" ELSE Relation(u, c, t),
      \* does the payload at least conform (open world: extra keys allowed) to the variant that was produced?
      \* ("required_missing": a key the produced variant's schema lists as required is absent - default or not)
      chosen_accepts |-> IF o.out = "err" \/ c < 1 THEN "-"
                         ELSE IF RefDecode(p, u.vars[c], DiscProp(u)).ok THEN "conforming"
                         ELSE IF u.vars[c].k = "obj" /\ p.t = "o" /\ ~(Required(u.vars[c], DiscProp(u)) \subseteq Keys(p)) THEN "required_missing"
                         ELSE "value_mismatch",
      order       |-> IF o.out = "err" \/ c < 1 \/ t < 1 THEN "-"
                      ELSE IF c < t THEN "chosen_before_true" ELSE IF c > t THEN "chosen_after_true" ELSE "same",
      disc        |-> u.disc.mode,
      ekind       |-> o.ekind]
Locus(p, u, o) == LocusE(p, u, o, ChooseVariant(p, u))

\* HistoryIndependent: decoding is a function of (payload, union) alone - ChooseVariant and ImplChoose have no other
\* argument - so what the converter does with a union after it has decoded ANOTHER union (same discriminator
\* property, same value -> schema-name table, different variant classes) must equal what it does in a fresh process.
SameOutcome(o1, o2) ==
  /\ o1.out = o2.out
  /\ o1.chosen = o2.chosen
  /\ o1.ckind = o2.ckind
  /\ (o1.out = "ok" => Eq(o1.reenc, o2.reenc) /\ Eq(o2.reenc, o1.reenc))
=============================================================================
