------------------------------ MODULE PyImport ------------------------------
(***************************************************************************)
(* Model of CPython's import protocol for one emitted package tree, used   *)
(* for C01 (every module imports, from every entry point).                 *)
(*                                                                         *)
(* Facts (extracted with `ast` by harness/astfacts.py) per package:        *)
(*   mods : [module name -> [pkg, parent, leaf, stmts, all, syntax_error]] *)
(*   stmts[i] == [k, t, names, binds]                                      *)
(*     k = "import"  import t                (binds the top-level name)    *)
(*     k = "from"    from t import names     (binds `binds`)               *)
(*     k = "star"    from t import *                                       *)
(*     k = "bind"    def / class / assignment / external import            *)
(*     k = "use"     names evaluated while the module body runs            *)
(*     k = "missing" import of a module that does not exist in the tree    *)
(*                                                                         *)
(* State: sys.modules as the two sets `loading` / `done`; the namespace of *)
(* every module as a set of <<module, name>> pairs; a stack of frames      *)
(* [m, pc] (modules whose body is executing).  `from t import n` on a      *)
(* module that is still loading succeeds only for names already bound or   *)
(* for sub-modules - the partial-initialisation rule.                      *)
(* One behaviour per (package, entry module); TLC explores every entry.    *)
(***************************************************************************)
EXTENDS Naturals, Sequences, FiniteSets, TLC, Json, IOUtils, SequencesExt

Traces == ndJsonDeserialize(IOEnv.TRACE_FILE)

VARIABLES tid, entry, frames, loading, done, ns, err, fin
vars == <<tid, entry, frames, loading, done, ns, err, fin>>

Mods == Traces[tid].mods
IsMod(x) == x \in DOMAIN Mods
Present(x) == x \in loading \cup done

RECURSIVE Chain(_)
Chain(t) == IF IsMod(t) /\ Mods[t].parent # "" /\ IsMod(Mods[t].parent) THEN Append(Chain(Mods[t].parent), t) ELSE <<t>>

\* first module of the ancestor chain of t that is not yet in sys.modules, "" if none
PendingOf(t) ==
  LET c == Chain(t)
      idx == {i \in 1..Len(c) : ~Present(c[i])}
  IN IF idx = {} THEN "" ELSE c[CHOOSE i \in idx : \A j \in idx : i <= j]

NoErr == [type |-> "none", m |-> "", name |-> "", partial |-> FALSE]

Public(n) == Len(n) = 0 \/ SubSeq(n, 1, 1) # "_"

\* run bind / use statements of module m from pc until the next import-like statement (big step inside a body)
RECURSIVE RunLocal(_, _, _)
RunLocal(m, pc, nsm) ==
  LET st == Mods[m].stmts IN
  IF pc > Len(st) THEN [pc |-> pc, ns |-> nsm, err |-> NoErr]
  ELSE LET s == st[pc] IN
    CASE s.k = "bind" -> RunLocal(m, pc + 1, nsm \cup {<<m, b>> : b \in ToSet(s.binds)})
      [] s.k = "use" ->
           LET missing == {n \in ToSet(s.names) : <<m, n>> \notin nsm} IN
           IF missing = {} THEN RunLocal(m, pc + 1, nsm)
           ELSE [pc |-> pc, ns |-> nsm, err |-> [type |-> "NameError", m |-> m, name |-> CHOOSE n \in missing : TRUE, partial |-> FALSE]]
      [] OTHER -> [pc |-> pc, ns |-> nsm, err |-> NoErr]

Init ==
  /\ tid \in 1..Len(Traces)
  /\ entry \in {m \in DOMAIN Traces[tid].mods : m \in ToSet(Traces[tid].entries)}
  /\ frames = <<>>
  /\ loading = {}
  /\ done = {}
  /\ ns = {}
  /\ err = NoErr
  /\ fin = "start"

Top == frames[Len(frames)]
Pop == SubSeq(frames, 1, Len(frames) - 1)
SetPc(pc) == [frames EXCEPT ![Len(frames)] = [m |-> Top.m, pc |-> pc]]

\* put module p into sys.modules and start executing its body
StartModule(p, fr, nsNow) ==
  /\ loading' = loading \cup {p}
  /\ ns' = nsNow \cup (IF Mods[p].parent # "" THEN {<<Mods[p].parent, Mods[p].leaf>>} ELSE {})
  /\ frames' = Append(fr, [m |-> p, pc |-> 1])
  /\ UNCHANGED <<done, err>>

Begin ==
  /\ fin = "start"
  /\ fin' = "run"
  /\ LET p == PendingOf(entry) IN StartModule(p, <<>>, ns)
  /\ UNCHANGED <<tid, entry>>

\* the driver re-issues `import entry` until the whole chain is loaded
Drive ==
  /\ fin = "run" /\ frames = <<>> /\ err.type = "none"
  /\ LET p == PendingOf(entry) IN
       IF p = "" THEN fin' = "done" /\ UNCHANGED <<frames, loading, done, ns, err>>
       ELSE fin' = fin /\ StartModule(p, <<>>, ns)
  /\ UNCHANGED <<tid, entry>>

Exec ==
  /\ fin = "run" /\ frames # <<>> /\ err.type = "none"
  /\ UNCHANGED <<tid, entry, fin>>
  /\ LET m == Top.m
         r == RunLocal(m, Top.pc, ns)
         st == Mods[m].stmts IN
     IF Mods[m].syntax_error THEN
        err' = [type |-> "SyntaxError", m |-> m, name |-> "", partial |-> FALSE] /\ UNCHANGED <<frames, loading, done, ns>>
     ELSE IF r.err.type # "none" THEN
        err' = r.err /\ ns' = r.ns /\ UNCHANGED <<frames, loading, done>>
     ELSE IF r.pc > Len(st) THEN              \* Finish(m)
        /\ done' = done \cup {m} /\ loading' = loading \ {m}
        /\ frames' = Pop /\ ns' = r.ns /\ UNCHANGED err
     ELSE LET s == st[r.pc] IN
        IF s.k = "missing" THEN
           err' = [type |-> "ModuleNotFoundError", m |-> m, name |-> s.t, partial |-> FALSE] /\ ns' = r.ns /\ UNCHANGED <<frames, loading, done>>
        ELSE LET p == PendingOf(s.t) IN
          IF p # "" THEN StartModule(p, SetPc(r.pc), r.ns)
          ELSE IF s.k = "from" THEN
             LET names == ToSet(s.names)
                 subs == {n \in names : IsMod(s.t \o "." \o n)}
                 absent == {n \in subs : ~Present(s.t \o "." \o n) /\ <<s.t, n>> \notin r.ns}
                 unbound == {n \in names \ subs : <<s.t, n>> \notin r.ns}
             IN IF absent # {} THEN StartModule(s.t \o "." \o (CHOOSE n \in absent : TRUE), SetPc(r.pc), r.ns)
                ELSE IF unbound # {} THEN
                   /\ err' = [type |-> "ImportError", m |-> m, name |-> CHOOSE n \in unbound : TRUE, partial |-> s.t \in loading]
                   /\ ns' = r.ns /\ UNCHANGED <<frames, loading, done>>
                ELSE /\ ns' = r.ns \cup {<<m, b>> : b \in ToSet(s.binds)}
                     /\ frames' = SetPc(r.pc + 1) /\ UNCHANGED <<loading, done, err>>
          ELSE IF s.k = "star" THEN
             /\ ns' = r.ns \cup {<<m, q[2]>> : q \in {x \in r.ns : x[1] = s.t /\ Public(x[2])}}
             /\ frames' = SetPc(r.pc + 1) /\ UNCHANGED <<loading, done, err>>
          ELSE \* import t
             /\ ns' = r.ns \cup {<<m, b>> : b \in ToSet(s.binds)}
             /\ frames' = SetPc(r.pc + 1) /\ UNCHANGED <<loading, done, err>>

\* C01 at the model level
ExportsResolve == \A m \in done : \A n \in ToSet(Mods[m].all) : <<m, n>> \in ns
Unresolved == {<<m, n>> : m \in done, n \in UNION {ToSet(Mods[x].all) : x \in done}} \cap {}

Report ==
  /\ (fin = "done" \/ err.type # "none") /\ fin # "reported"
  /\ fin' = "reported"
  /\ PrintT("VERDICT " \o ToJson([id |-> Traces[tid].id, entry |-> entry, err |-> err,
        unresolved |-> IF err.type = "none" THEN SetToSeq({<<m, n>> \in (done \X UNION {ToSet(Mods[x].all) : x \in done}) : n \in ToSet(Mods[m].all) /\ <<m, n>> \notin ns}) ELSE <<>>,
        loaded |-> Cardinality(done)]))
  /\ UNCHANGED <<tid, entry, frames, loading, done, ns, err>>

Next == Begin \/ Drive \/ Exec \/ Report
Spec == Init /\ [][Next]_vars

\* design-level sanity (checked on every behaviour): a finished module is never loading, frames are loading modules
TypeOK == loading \cap done = {} /\ \A i \in 1..Len(frames) : frames[i].m \in loading
=============================================================================
