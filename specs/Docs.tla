------------------------------- MODULE Docs -------------------------------
(***************************************************************************)
(* Shared scenario vocabulary: abstract OpenAPI schema graphs and their    *)
(* reference meaning (what a faithful generator must produce).             *)
(*                                                                         *)
(* A graph document is                                                     *)
(*   [order : Seq(Names),            declaration order in components       *)
(*    edges : Seq(Edge)]             in property order per owner           *)
(* Edge == [from, kind, to, req].  Every schema `n` additionally owns a    *)
(* required string property "id".  The i-th edge of the document becomes   *)
(* the property "p<i>" of its owner, except                                *)
(*   kind = "allOf" : schema-level `allOf: [$ref to]`                      *)
(*   kind = "alias" : the whole schema is `$ref: to` (only edge of owner)  *)
(* The concretiser (harness/concretise.py) is the one translation of this  *)
(* vocabulary to OpenAPI JSON.                                             *)
(***************************************************************************)
EXTENDS Naturals, Sequences, FiniteSets, TLC, SequencesExt, FiniteSetsExt

PropKinds == {"ref", "arr", "inline", "arrInline", "map", "oneOf", "anyOf"}
\* degenerate property nodes without a target (C08 termination family): null node, {}, bare object, array without items
LeafKinds == {"null", "empty", "bareobj", "barearr"}
\* schema-level kinds: allOf: [$ref to] ; allOfReq: allOf: [{required: <all keys of to>}, $ref to] (a required-only member
\* listed BEFORE the member that declares the properties) ; addl: additionalProperties: $ref to next to own properties ;
\* alias: the whole schema is $ref: to
SchemaKinds == {"allOf", "allOfReq", "addl", "alias"}
AllKinds  == PropKinds \cup LeafKinds \cup SchemaKinds

EdgesOver(names, kinds) == [from : names, kind : kinds, to : names, req : BOOLEAN]

\* sequences of length <= k over a finite set, without regard to req unless asked
SeqsUpTo(S, k) == UNION {[1..m -> S] : m \in 0..k}

Owner(doc, n) == SelectSeq(doc.edges, LAMBDA e : e.from = n)
IsAlias(doc, n) == \E i \in 1..Len(doc.edges) : doc.edges[i].from = n /\ doc.edges[i].kind = "alias"

\* well-formed: an alias owner has exactly that one edge; at most one allOf per owner and target
WellFormed(doc) ==
  /\ \A n \in Range(doc.order) :
        IsAlias(doc, n) => Len(Owner(doc, n)) = 1
  /\ \A i, j \in 1..Len(doc.edges) :
        (i # j /\ doc.edges[i].kind \in {"allOf", "allOfReq"} /\ doc.edges[j].kind \in {"allOf", "allOfReq"} /\ doc.edges[i].from = doc.edges[j].from)
          => doc.edges[i].to # doc.edges[j].to
  /\ \A i, j \in 1..Len(doc.edges) :
        (i # j /\ doc.edges[i].kind = "addl" /\ doc.edges[j].kind = "addl") => doc.edges[i].from # doc.edges[j].from

PropKey(i) == "p" \o ToString(i)

\* structural kind of the property an edge becomes (a string the observation side normalises to as well)
KindOf(e) ==
  CASE e.kind = "ref"       -> "ref:" \o e.to
    [] e.kind = "arr"       -> "list:ref:" \o e.to
    [] e.kind = "inline"    -> "inlineobj:ref:" \o e.to
    [] e.kind = "arrInline" -> "list:inlineobj:ref:" \o e.to
    [] e.kind = "map"       -> "map:ref:" \o e.to
    [] e.kind = "oneOf"     -> "union:ref:" \o e.to \o "|str"
    [] e.kind = "anyOf"     -> "union:ref:" \o e.to \o "|str"
    [] OTHER                -> "?"          \* degenerate nodes: any kind is acceptable

\* own declared fields of n: "id" plus one per non-allOf edge
OwnFields(doc, n) ==
  {[key |-> "id", required |-> TRUE, kind |-> "str"]} \cup
  {[key |-> PropKey(i), required |-> doc.edges[i].req, kind |-> KindOf(doc.edges[i])] :
      i \in {j \in 1..Len(doc.edges) : doc.edges[j].from = n /\ doc.edges[j].kind \notin SchemaKinds}}

Parents(doc, n) == {doc.edges[i].to : i \in {j \in 1..Len(doc.edges) : doc.edges[j].from = n /\ doc.edges[j].kind \in {"allOf", "allOfReq"}}}
\* parents whose own properties the child makes required through a required-only allOf member
ReqParents(doc, n) == {doc.edges[i].to : i \in {j \in 1..Len(doc.edges) : doc.edges[j].from = n /\ doc.edges[j].kind = "allOfReq"}}
AliasTarget(doc, n) == LET i == CHOOSE j \in 1..Len(doc.edges) : doc.edges[j].from = n /\ doc.edges[j].kind = "alias" IN doc.edges[i].to

\* ancestors through allOf (reflexive-transitive closure by bounded iteration); alias links are followed too
RECURSIVE Anc(_, _, _)
Anc(doc, S, fuel) ==
  LET step == S \cup UNION {Parents(doc, m) : m \in S}
                 \cup {AliasTarget(doc, m) : m \in {x \in S : IsAlias(doc, x)}}
  IN IF fuel = 0 \/ step = S THEN S ELSE Anc(doc, step, fuel - 1)
Ancestors(doc, n) == Anc(doc, {n}, Len(doc.order) + 1)

\* allOf/alias relation cyclic through n?  (the property gives such documents no meaning)
StepUp(doc, S) == UNION {Parents(doc, m) : m \in S} \cup {AliasTarget(doc, m) : m \in {x \in S : IsAlias(doc, x)}}
InheritsCyclically(doc, n) ==
  LET first == StepUp(doc, {n}) IN first # {} /\ n \in Anc(doc, first, Len(doc.order) + 1)
AnyInheritanceCycle(doc) == \E n \in Range(doc.order) : InheritsCyclically(doc, n)

\* the reference resolver: every declared property, own or inherited; an alias has its target's fields
RawFields(doc, n) ==
  UNION {IF IsAlias(doc, m) THEN {} ELSE OwnFields(doc, m) : m \in Ancestors(doc, n)}
ForcedKeys(doc, n) == {f.key : f \in UNION {OwnFields(doc, m) : m \in ReqParents(doc, n)}}
ExpectedFields(doc, n) ==
  {[f EXCEPT !.required = (f.required \/ f.key \in ForcedKeys(doc, n))] : f \in RawFields(doc, n)}

ExpectedModel(doc, n) == [name |-> n, fields |-> ExpectedFields(doc, n), alias |-> IsAlias(doc, n)]

=============================================================================
