---------------------------- MODULE Trace_Naming ----------------------------
(***************************************************************************)
(* Total monitor for C20.  One trace per input string (part i: every       *)
(* derivation kind is its own namespace) or per generated package and      *)
(* namespace kind (part ii):                                               *)
(*   [id, ev : Seq([ns, spec, ident, st]),                                 *)
(*        req     : [nsid -> Seq(spec)],      names that were requested    *)
(*        present : [nsid -> Seq(ident)],     identifiers found in the     *)
(*                                            artefact                     *)
(*        back    : [nsid -> Seq(<<ident, spec>>)]]  what each identifier  *)
(*                                            of the artefact maps back to *)
(* st = "ok" (an identifier was derived), "raised" (the derivation failed  *)
(* visibly) or "na" (this derivation is not reached for this input) - only *)
(* "ok" events are judged.  Every event is replayed as Naming!Derive; when *)
(* the step is not a legal Derive the failing clause is recorded and the   *)
(* observed step is forced, so every trace is consumed to the end and      *)
(* yields exactly one VERDICT line listing every failing                   *)
(* (clause, namespace, index, input class).                                *)
(***************************************************************************)
EXTENDS Naming, NamingConsts, Json, IOUtils, SequencesExt, FiniteSetsExt

Traces == ndJsonDeserialize(IOEnv.TRACE_FILE)

VARIABLES tid, l, fails, njudged
vars == <<ns, tid, l, fails, njudged>>

T  == Traces[tid]
Ev == T.ev

Fail(c, n, i, s) == [clause |-> c, ns |-> n, i |-> i, cls |-> InputClass(s), why |-> ""]
FailName(n, i, s, id) == [clause |-> NameClause(id), ns |-> n, i |-> i, cls |-> InputClass(s), why |-> InvalidWhy(id)]

Init ==
  /\ tid \in 1..Len(Traces)
  /\ l = 1
  /\ fails = {}
  /\ njudged = 0
  /\ NamingInit

Step ==
  /\ l <= Len(Ev)
  /\ l' = l + 1
  /\ UNCHANGED tid
  /\ LET e == Ev[l] IN
       IF e.st # "ok"
         THEN UNCHANGED <<ns, fails, njudged>>
         ELSE
           /\ njudged' = njudged + 1
           /\ IF CanDerive(e.ns, e.spec, e.ident)
                THEN Derive(e.ns, e.spec, e.ident) /\ UNCHANGED fails
                ELSE
                  /\ Force(e.ns, e.spec, e.ident)
                  /\ fails' = fails
                       \cup (IF NameClause(e.ident) # "ok"
                               THEN {FailName(e.ns, l, e.spec, e.ident)} ELSE {})
                       \cup (IF /\ Norm(e.ident) \in RangeOf(NsOf(e.ns))
                                /\ ~(e.spec \in DOMAIN NsOf(e.ns) /\ NsOf(e.ns)[e.spec] = Norm(e.ident))
                               THEN {Fail("C20.collision", e.ns, l, e.spec)} ELSE {})
                       \cup (IF e.spec \in DOMAIN NsOf(e.ns) /\ NsOf(e.ns)[e.spec] # Norm(e.ident)
                               THEN {Fail("C20.unstable", e.ns, l, e.spec)} ELSE {})

\* ---- end of trace: Total
Present(n) == IF n \in DOMAIN T.present THEN ToSet(T.present[n]) ELSE {}
Back(n)    == IF n \in DOMAIN T.back THEN ToSet(T.back[n]) ELSE {}

Dropped ==
  UNION {{Fail("C20.dropped", n, j, T.req[n][j]) :
            j \in {k \in 1..Len(T.req[n]) :
                     LET s == T.req[n][k] IN
                       \/ s \notin DOMAIN NsOf(n)
                       \/ NsOf(n)[s] \notin Present(n)}}
         : n \in DOMAIN T.req}

\* the identifier allocated to s exists, but the artefact says it belongs to another spec name only
Merged ==
  UNION {{Fail("C20.merged", n, j, T.req[n][j]) :
            j \in {k \in 1..Len(T.req[n]) :
                     LET s == T.req[n][k] IN
                       /\ s \in DOMAIN NsOf(n)
                       /\ NsOf(n)[s] \in Present(n)
                       /\ \E p \in Back(n) : p[1] = NsOf(n)[s]
                       /\ ~\E p \in Back(n) : p[1] = NsOf(n)[s] /\ p[2] = s}}
         : n \in DOMAIN T.req}

Fin ==
  /\ l = Len(Ev) + 1
  /\ l' = l + 1
  /\ UNCHANGED <<ns, tid, fails, njudged>>
  /\ PrintT("VERDICT " \o ToJson([id |-> T.id,
                                  fails |-> SetToSeq(fails \cup Dropped \cup Merged),
                                  injective |-> Injective,
                                  total |-> TotalFor([n \in DOMAIN T.req |-> ToSet(T.req[n])]),
                                  njudged |-> njudged,
                                  nev |-> Len(Ev)]))

Next == Step \/ Fin
Spec == Init /\ [][Next]_vars
=============================================================================
