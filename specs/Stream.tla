------------------------------- MODULE Stream -------------------------------
(***************************************************************************)
(* C18 design model: a stream decoder that sees the byte string one        *)
(* network chunk at a time (Deliver) and is flushed at the end (Close).    *)
(* State carried across chunks: an incomplete UTF-8 code point (carry),    *)
(* a pending CR, the partial line, the lines of the current event (st),    *)
(* plus the raw chunks as iter_bytes hands them on (raw).  The decode step *)
(* is parameterised by the charset the response declares (charset).        *)
(*                                                                         *)
(* ChunkIndependent: for EVERY chunking of every stream of the family the  *)
(* items delivered at Close are the whole-stream meaning Expected(bytes)   *)
(* (StreamCore: Events / Records).                                         *)
(***************************************************************************)
EXTENDS StreamCore

CONSTANTS
  Streams,     \* set of [mode : {"sse","ndjson"}, bytes : Seq(0..255), rule : {"bounded","cover"}]
  MaxFullLen,  \* streams up to this length get every subset of cut points
  MaxCuts,     \* longer streams get every chunking with at most this many cuts
  AltFullLen,  \* the same two bounds for responses that declare a non-UTF-8 charset
  AltMaxCuts,
  CoverDepth   \* streams with rule "cover": transition cover of this depth (StreamCore!CoverSets)

VARIABLES
  mode, bytes, cuts,  \* the scenario (fixed by Init)
  charset,            \* decode-step parameter: what the response's Content-Type declares ("utf8" | "latin1")
  pos,                \* bytes delivered so far
  carry, st,          \* decoder state
  raw,                \* chunks passed through unchanged (iter_bytes)
  closed

vars == <<mode, bytes, cuts, charset, pos, carry, st, raw, closed>>

Init ==
  /\ \E s \in Streams :
       /\ mode = s.mode
       /\ bytes = s.bytes
       /\ \/ charset = "utf8" /\ cuts \in CutsFor(s, MaxFullLen, MaxCuts, CoverDepth)
          \/ charset = "latin1" /\ cuts \in CutsFor(s, AltFullLen, AltMaxCuts, AltMaxCuts)
  /\ pos = 0
  /\ carry = <<>>
  /\ st = S0
  /\ raw = <<>>
  /\ closed = FALSE

NextCut == LET later == {c \in cuts : c > pos} IN
           IF later = {} THEN Len(bytes) ELSE CHOOSE c \in later : \A d \in later : c <= d

Deliver ==
  /\ ~closed
  /\ pos < Len(bytes)
  /\ LET nxt == NextCut
         chunk == SubSeq(bytes, pos + 1, nxt)
         d == DecodeChunkX(charset, carry, chunk)
     IN /\ pos' = nxt
        /\ carry' = d.carry
        /\ st' = FeedAll(mode, st, d.chars)
        /\ raw' = Append(raw, chunk)
  /\ UNCHANGED <<mode, bytes, cuts, charset, closed>>

Close ==
  /\ ~closed
  /\ pos = Len(bytes)
  /\ st' = FlushF(mode, st, carry)
  /\ carry' = <<>>
  /\ closed' = TRUE
  /\ UNCHANGED <<mode, bytes, cuts, charset, pos, raw>>

Next == Deliver \/ Close
Spec == Init /\ [][Next]_vars

----------------------------------------------------------------------------
TypeOK ==
  /\ mode \in {"sse", "ndjson"}
  /\ charset \in {"utf8", "latin1"}
  /\ charset = "latin1" => carry = <<>>
  /\ pos \in 0..Len(bytes)
  /\ cuts \subseteq 1..(Len(bytes) - 1)
  /\ Len(carry) <= 3
  /\ closed \in BOOLEAN

\* C18 (core): whatever the chunking, the delivered items are the meaning of the concatenation
ChunkIndependent == closed => st.o = ExpectedC(charset, mode, bytes)
\* iter_bytes: the chunks handed on concatenate to the input
BytesConcat == closed => FlattenSeq(raw) = bytes
\* nothing is left behind after the flush
FlushedClean == closed => (carry = <<>> /\ st.ln = <<>> /\ st.bl = <<>>)
\* C18.order at design level: items are only ever appended (delivery order = stream order)
Monotone == [][Len(st.o) <= Len(st'.o) /\ SubSeq(st'.o, 1, Len(st.o)) = st.o]_vars
\* C18.last_event_lost at design level: an event / record still open at the end of the stream is delivered by Close
OpenAtEnd == IF mode = "sse" THEN st.bl # <<>> \/ st.ln # <<>> \/ carry # <<>>
             ELSE Strip(st.ln) # <<>> \/ carry # <<>>
FlushDelivers == [][(closed' /\ ~closed /\ OpenAtEnd) => Len(st'.o) = Len(st.o) + 1]_vars
=============================================================================
