------------------------------- MODULE GenRun -------------------------------
(***************************************************************************)
(* Implementation-shaped model of ClientGenerator.generate                 *)
(* (src/pyopenapi_gen/generator/client_generator.py) over an abstract file *)
(* system.  Paths are abstracted to classes:                               *)
(*   inOut        inside the output package directory                      *)
(*   inCore       inside the core package directory                        *)
(*   ancestorInit __init__.py of an ancestor package of out / core         *)
(*   rootOther    anything else under the project root (siblings, caches)  *)
(*   tmp          the TemporaryDirectory of the non-force path             *)
(* One action per stage of the code; a fault may be injected at any stage. *)
(* The write-set of every stage is what the CODE writes (including what    *)
(* the post-processing sub-process leaves in the current directory), so    *)
(* TLC's answer for Untouched / Contained is the specification-level       *)
(* statement of what the implementation does.  Violations are accumulated  *)
(* in `viol` (verdict style) so that one run lists them all.               *)
(***************************************************************************)
EXTENDS Naturals, Sequences, FiniteSets, TLC

CONSTANTS Existing,   \* subset of {"absent","equal","different","partial"}
          Cores,      \* subset of {"embedded","sibling","toplevel"}
          Cwds,       \* subset of {"root","elsewhere"}
          PostFlags   \* subset of BOOLEAN

Stages == <<"load", "parse", "setup", "exceptions", "core", "models", "endpoints", "client", "mocks",
            "clientinit", "postprocess", "diff">>
StageSet == {Stages[i] : i \in 1..Len(Stages)}
RootClasses == {"inOut", "inCore", "ancestorInit", "rootOther"}
Allowed == {"inOut", "inCore", "ancestorInit"}

VARIABLES sc,       \* scenario: [existing, force, core, cwd, pp, fault]
          pc,       \* index into Stages, Len+1 = finished
          touched,  \* set of root path classes written or removed so far
          tmpUsed,  \* the temp tree was written
          result,   \* "running" | "ok" | "raised"
          viol      \* set of violated clause names
vars == <<sc, pc, touched, tmpUsed, result, viol>>

Scenarios == [existing : Existing, force : BOOLEAN, core : Cores, cwd : Cwds, pp : PostFlags,
              fault : StageSet \cup {"none"}]

\* the non-force path over an existing output generates into a temp tree and only compares
TempPath(s) == ~s.force /\ s.existing # "absent"

\* a stage is skipped when the code does not execute it in this mode
Runs(s, st) ==
  CASE st = "setup"      -> ~TempPath(s)                 \* rmtree(out_dir), mkdirs, ancestor __init__.py
    [] st = "clientinit" -> ~TempPath(s) /\ s.core # "embedded"   \* rich __init__ only on the direct path
    [] st = "postprocess"-> s.pp
    [] st = "diff"       -> TempPath(s)
    [] OTHER             -> TRUE

\* what a stage writes under the project root (classes), as the code does it
RootWrites(s, st) ==
  IF TempPath(s) THEN
     {}    \* (before fix 7182f61 ruff's cache landed in the cwd: {"rootOther"} when cwd = "root" and st = "postprocess")
  ELSE
     CASE st = "setup"       -> {"inOut", "ancestorInit"} \cup (IF s.core # "embedded" THEN {"inCore"} ELSE {})
       [] st = "exceptions"  -> {"inCore"}
       [] st = "core"        -> {"inCore"}
       [] st \in {"models", "endpoints", "client", "mocks", "clientinit"} -> {"inOut"}
       [] st = "postprocess" -> {"inOut", "inCore"}          \* ruff runs with --no-cache since fix 7182f61
       [] OTHER              -> {}

\* ModelsEmitter._generate_model_file catches every exception of a failing write, logs it and goes on
Swallows(st) == FALSE       \* (before fix 89cee11: st = "models")

\* does the diff stage find a difference?  (_show_diffs: only *.py present on both sides)
\* "partial" = files missing on the old side (ignored before fix 2894bf8, a difference since).  As the code behaves, the temp tree ALSO differs from an
\* up-to-date existing tree when post-processing is on (ruff sorts imports differently without the ancestor __init__.py
\* files) and when the core is external (the rich client __init__.py is written only on the direct path).
DiffFinds(s) == s.existing \in {"different", "partial"} \/ (s.pp /\ ~(s.core = "embedded" /\ s.cwd = "root")) \/ s.core # "embedded"    \* since fix 2894bf8 missing / non-.py files count

Init ==
  /\ sc \in Scenarios
  /\ pc = 1 /\ touched = {} /\ tmpUsed = FALSE /\ result = "running" /\ viol = {}

Judge(t, res, s) ==
  (IF TempPath(s) /\ t \cap RootClasses # {} THEN {"C10.noforce_touch"} ELSE {})
  \cup (IF t \ Allowed # {} THEN {"C10.escaped_write"} ELSE {})
  \cup (IF res = "ok" /\ s.fault # "none" /\ Runs(s, s.fault) THEN {"C10.fault_swallowed"} ELSE {})
  \cup (IF res = "ok" /\ TempPath(s) /\ s.existing \in {"different", "partial"} THEN {"C09.diff_missed"} ELSE {})
  \cup (IF res = "raised" /\ TempPath(s) /\ s.existing = "equal" /\ s.fault = "none" THEN {"C09.rerun_failed"} ELSE {})

Step ==
  /\ result = "running" /\ pc <= Len(Stages)
  /\ LET st == Stages[pc] IN
     IF ~Runs(sc, st) THEN pc' = pc + 1 /\ UNCHANGED <<touched, tmpUsed, result>>
     ELSE IF sc.fault = st /\ ~Swallows(st) THEN
        \* the stage fails part-way: what it wrote so far stays written
        /\ touched' = touched \cup RootWrites(sc, st)
        /\ tmpUsed' = (tmpUsed \/ TempPath(sc))
        /\ result' = "raised" /\ pc' = pc
     ELSE IF st = "diff" /\ DiffFinds(sc) THEN
        /\ result' = "raised" /\ pc' = pc /\ UNCHANGED <<touched, tmpUsed>>
     ELSE
        /\ touched' = touched \cup RootWrites(sc, st)
        /\ tmpUsed' = (tmpUsed \/ TempPath(sc))
        /\ pc' = pc + 1 /\ UNCHANGED result
  /\ viol' = viol \cup Judge(touched', result', sc)
  /\ UNCHANGED sc

Finish ==
  /\ result = "running" /\ pc = Len(Stages) + 1
  /\ result' = "ok"
  /\ viol' = viol \cup Judge(touched, "ok", sc)
  /\ UNCHANGED <<sc, pc, touched, tmpUsed>>

Next == Step \/ Finish
Spec == Init /\ [][Next]_vars

\* ---- the properties, as formulas (TLC evaluates them through `viol`; kept here as the named statements)
Untouched == TempPath(sc) => touched \cap RootClasses = {}
Contained == touched \subseteq Allowed
FaultsSurface == (result = "ok") => (sc.fault = "none" \/ ~Runs(sc, sc.fault))
Complete == (result = "ok" /\ TempPath(sc)) => sc.existing = "equal"

Done == result # "running"
=============================================================================
