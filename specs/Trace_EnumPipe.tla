--------------------------- MODULE Trace_EnumPipe ---------------------------
(***************************************************************************)
(* X06 monitor.  One trace = one document of the family with what the REAL *)
(* generator emitted for it and for its permutations of declaration order  *)
(* (harness/x06.py, harness/obs_x06.py):                                   *)
(*   doc      the abstract document (specs/EnumPipe.tla, part 1a)          *)
(*   runs     one observation per permutation: total, classes, ann, rt     *)
(*   names    the names the pipeline derives (inputs of the as-is model)   *)
(* The verdict lists every failing (clause, place, why, mate) of           *)
(* AllFails(doc, runs[1]) and StableFails(doc, runs); `drift` compares the *)
(* as-is pipeline of EnumPipe.tla, run on every permutation, with the real *)
(* registry and annotations.                                               *)
(***************************************************************************)
EXTENDS EnumPipe, Json, IOUtils

Traces == ndJsonDeserialize(IOEnv.TRACE_FILE)
VARIABLES tid, done

\* why a position has no annotation is not compared (the model does not say which step of the import fails)
ProjD(obs) == [total |-> obs.total, ann |-> {<<a.pos, a.kind, IF a.kind = "missing" THEN "" ELSE a.cls, ToSet(a.vals)>> : a \in ToSet(obs.ann)},
               classes |-> {<<c.cls, c.built, ClassVals(c)>> : c \in Classes(obs)}]
DriftOf(doc, N, real) ==
  LET m == ProjD(AsIs(doc, N))  r == ProjD(real) IN
  IF ~Modelled(doc, N) THEN <<>>
  ELSE IF m.total # r.total THEN <<"total:" \o m.total>>
  ELSE IF r.total # "ok" THEN <<>>
  ELSE SetToSeq({"ann:" \o x[1] \o "=" \o x[2] \o ":" \o x[3] : x \in m.ann \ r.ann} \cup {"class:" \o x[1] : x \in (m.classes \ r.classes) \cup (r.classes \ m.classes)})
Drift(t) == LET ps == Perms(t.doc) IN [i \in DOMAIN ps |-> DriftOf(ps[i], t.names, t.runs[i])]

Checked(t) ==
  LET doc == t.doc IN
  [Total |-> 1, Stable |-> Len(t.runs) - 1,
   Values |-> IF t.runs[1].total = "ok" THEN Len(t.runs[1].classes) ELSE 0,
   Members |-> Len(t.runs[1].classes),
   RightEnum |-> IF t.runs[1].total = "ok" THEN Cardinality(Positions(doc)) ELSE 0,
   Shared |-> IF t.runs[1].total = "ok" THEN Cardinality({p \in Positions(doc) : \E q \in Positions(doc) \ {p} :
                   HasAnn(t.runs[1], p.id) /\ HasAnn(t.runs[1], q.id) /\ IsCls(AnnOf(t.runs[1], p.id)) /\ AnnOf(t.runs[1], p.id).cls = AnnOf(t.runs[1], q.id).cls}) ELSE 0,
   Named |-> IF t.runs[1].total = "ok" THEN Cardinality({o \in DeclaredEnums(doc) : RefsTo(doc, o.name) # {}}) ELSE 0,
   RoundTrip |-> IF t.runs[1].total = "ok" THEN Len(t.runs[1].rt) ELSE 0]

Verdict(t) ==
  [id |-> t.id,
   fails |-> SetToSeq(AllFails(t.doc, t.runs[1]) \cup StableFails(t.doc, t.runs)),
   checked |-> Checked(t),
   drift |-> Drift(t)]

Init == tid \in 1..Len(Traces) /\ done = FALSE
Judge == /\ ~done /\ done' = TRUE /\ UNCHANGED tid
         /\ PrintT("VERDICT " \o ToJson(Verdict(Traces[tid])))
Spec == Init /\ [][Judge]_<<tid, done>>
=============================================================================
