---------------------------- MODULE MC_TypeResolve ----------------------------
(***************************************************************************)
(* X04 design level: the named statements, checked by TLC for every shape  *)
(* of the bounded family and every entry point                             *)
(*   - on Ideal, the reference resolver read off the denotation (the       *)
(*     statements are jointly satisfiable; Admits and Denotes agree);      *)
(*   - on the implementation-shaped resolver applied to the IDEALISED IR   *)
(*     of the shape (Lower: what a faithful loader hands to the resolver,  *)
(*     no promotion of inline schemas): Total, NoDoubleOptional and        *)
(*     ImportsClosed hold everywhere, Sound holds exactly outside Gap.     *)
(* Gap is stated on the SHAPE, not on the resolver: the places where the   *)
(* resolver forgets that a schema admits null.                             *)
(***************************************************************************)
EXTENDS TypeResolve
CONSTANT Tier
VARIABLES s, pos, done

H == "fo,fr,z"
DPos == {"req", "opt", "respsvc", "alias"}

(* ----- Lower: the idealised IR node of a shape *)
IRN == [ty |-> "", fmt |-> "", name |-> "", gen |-> "", stem |-> "", nul |-> FALSE, enum |-> <<>>, enumbool |-> <<>>, nprops |-> 0,
        items |-> <<>>, hasitems |-> FALSE, anyof |-> <<>>, oneof |-> <<>>, allof |-> <<>>, hasany |-> FALSE, hasone |-> FALSE,
        hasall |-> FALSE, addl |-> "none", regother |-> <<>>, inreg |-> FALSE, tyreg |-> <<>>]
ClassOf(n) == IF n = "Self" THEN "Holder" ELSE n
StemOf(n) == CASE n = "Pet" -> "pet" [] n = "Color" -> "color" [] n = "Name" -> "name" [] n = "Stamp" -> "stamp" [] n = "Tags" -> "tags"
               [] n = "Pets" -> "pets" [] n = "Bag" -> "bag" [] n = "Either" -> "either" [] n = "Maybe" -> "maybe" [] n = "Self" -> "holder"
RECURSIVE Lower(_)
LowerBase(x) ==
  CASE x.k = "prim" -> [IRN EXCEPT !.ty = x.a, !.fmt = x.f]
    [] x.k = "enum" -> [IRN EXCEPT !.ty = x.a, !.enum = <<x.f>>, !.enumbool = IF x.a = "boolean" THEN <<"T">> ELSE <<"X">>]
    [] x.k = "any" -> IRN
    [] x.k = "object" -> [IRN EXCEPT !.ty = "object", !.nprops = IF x.a = "" THEN 0 ELSE 1]
    [] x.k = "array" -> [IRN EXCEPT !.ty = "array", !.items = <<Lower(x.of[1])>>, !.hasitems = TRUE]
    [] x.k = "map" -> [IRN EXCEPT !.ty = "object", !.addl = IF x.a = "true" THEN "true" ELSE "schema"]
    [] x.k = "ref" -> [Lower(Comp(x.a, H)) EXCEPT !.name = ClassOf(x.a), !.gen = ClassOf(x.a), !.stem = StemOf(x.a), !.inreg = TRUE]
    [] x.k = "oneOf" -> [IRN EXCEPT !.hasone = TRUE, !.oneof = [i \in 1..Len(x.of) |-> Lower(x.of[i])]]
    [] x.k = "anyOf" -> [IRN EXCEPT !.hasany = TRUE, !.anyof = [i \in 1..Len(x.of) |-> Lower(x.of[i])]]
    [] x.k = "allOf" -> [IRN EXCEPT !.hasall = TRUE, !.allof = [i \in 1..Len(x.of) |-> Lower(x.of[i])]]
Lower(x) ==
  LET b == LowerBase(x) IN
  CASE x.nul = "no" -> b
    [] x.nul \in {"nullable", "type31", "member"} -> [b EXCEPT !.nul = TRUE]
    [] x.nul = "anyOfNull" -> [IRN EXCEPT !.hasany = TRUE, !.anyof = <<b>>, !.nul = TRUE]
    [] x.nul = "oneOfNull" -> [IRN EXCEPT !.hasone = TRUE, !.oneof = <<b>>, !.nul = TRUE]

Cx == [dir |-> "models", stem |-> "holder"]
AsIsOf(x, p) == AsIs(Lower(x), p, p # "opt", Cx)

(* ----- how the model visitor defines the declared components (alias / enum / dataclass / wrapper) *)
DefOf(n) ==
  LET c == Comp(n, H)  node == Lower(Ref(n))
      isEnum == node.enum # <<>> /\ node.ty \in {"string", "integer"}
      isUnion == node.oneof # <<>> \/ node.anyof # <<>>
      isAlias == node.nprops = 0 /\ ~isEnum /\ (node.ty # "object" \/ isUnion) IN
  IF isEnum THEN [name |-> ClassOf(n), def |-> "enum", base |-> c.a, sig |-> c.f, args |-> <<>>]
  ELSE IF isAlias THEN [name |-> ClassOf(n), def |-> "alias", base |-> "", sig |-> "", args |-> <<AsIs(node, "alias", TRUE, [dir |-> "models", stem |-> StemOf(n)]).t>>]
  ELSE IF node.addl \in {"true", "schema"} THEN [name |-> ClassOf(n), def |-> "wrapper", base |-> "", sig |-> "", args |-> <<IF node.addl = "true" THEN N("Any") ELSE IdealOf(c.of[1], H)>>]
  ELSE [name |-> ClassOf(n), def |-> "dataclass", base |-> "", sig |-> c.a, args |-> <<>>]
AsIsEnv == <<DefOf("Pet"), DefOf("Color"), DefOf("Name"), DefOf("Stamp"), DefOf("Tags"), DefOf("Pets"), DefOf("Bag"), DefOf("Either"), DefOf("Maybe"), DefOf("Self")>>

(* ----- Gap: stated on the shape *)
AdmitsNull(x) == LET d == Admits(x, H) IN ~d.any /\ <<"null", "", "">> \in d.atoms
RECURSIVE ArrayOfNullable(_)
ArrayOfNullable(x) ==
  \/ (x.k = "array" /\ (AdmitsNull(x.of[1]) \/ ArrayOfNullable(x.of[1])))
  \/ (x.k \in {"oneOf", "anyOf"} /\ \E i \in 1..Len(x.of) : ArrayOfNullable(x.of[i]))
  \/ (x.k = "allOf" /\ ArrayOfNullable(x.of[1]))
  \/ (x.k = "ref" /\ ArrayOfNullable(Comp(x.a, H)))
Gap(x, p) == ArrayOfNullable(x) \/ (p = "respsvc" /\ AdmitsNull(x))

(* ----- the statements *)
PosOf(p) == IF p = "opt" THEN "opt" ELSE "req"
IdealTotal == NoBad(Ideal(s, PosOf(pos), H))
IdealNoDoubleOptional == NoDoubleOptional(Ideal(s, PosOf(pos), H))
IdealSound == Sound(s, PosOf(pos), H, Ideal(s, PosOf(pos), H), IdealEnv(H))
IdealTight == Tight(s, H, Ideal(s, PosOf(pos), H), IdealEnv(H))

RECURSIVE NoUnknown(_)
NoUnknown(t) == ~(t.k = "name" /\ t.id = "?") /\ \A i \in 1..Len(t.args) : NoUnknown(t.args[i])
AsIsTotal == NoBad(AsIsOf(s, pos).t) /\ NoUnknown(AsIsOf(s, pos).t)
AsIsNoDoubleOptional == NoDoubleOptional(AsIsOf(s, pos).t)
AsIsImportsClosed == LET r == AsIsOf(s, pos) IN ImportsClosed(Uses(r.t, "code"), {i[2] : i \in r.imps}, "Holder")
AsIsSoundOutsideGap == ~Gap(s, pos) => Sound(s, PosOf(pos), H, AsIsOf(s, pos).t, AsIsEnv)
GapIsReal == Gap(s, pos) => ~Sound(s, PosOf(pos), H, AsIsOf(s, pos).t, AsIsEnv)

Init == s \in Shapes(Tier) /\ pos \in DPos /\ done = FALSE
Judge == ~done /\ done' = TRUE /\ UNCHANGED <<s, pos>>
Spec == Init /\ [][Judge]_<<s, pos, done>>
=============================================================================
