---------------------------- MODULE MC_TypeResolve ----------------------------
(***************************************************************************)
(* X04 design level: the named statements, checked by TLC for every shape  *)
(* of the bounded family and every entry point                             *)
(*   - on Ideal, the reference resolver read off the denotation (the       *)
(*     statements are jointly satisfiable; Admits and Denotes agree);      *)
(*   - on the implementation-shaped resolver applied to the IDEALISED IR   *)
(*     of the shape (Lower: what a faithful loader hands to the resolver,  *)
(*     no promotion of inline schemas): Total, NoDoubleOptional and        *)
(*     ImportsClosed hold everywhere, Sound holds exactly outside Gap.     *)
(* Gap is stated on the SHAPE, not on the resolver: the places where the   *)
(* resolver forgets that a schema admits null.                             *)
(***************************************************************************)
EXTENDS TypeResolve, Json
CONSTANT Tier
VARIABLES s, pos, phase, r, env   \* r = the as-is answer for (s, pos), env = the as-is definitions of the components (both computed once)

H == "fo,fr,z"
DPos == {"req", "opt", "respsvc", "alias"}

(* ----- Lower: the idealised IR node of a shape *)
IRN == [ty |-> "", fmt |-> "", name |-> "", gen |-> "", stem |-> "", nul |-> FALSE, enum |-> <<>>, enumbool |-> <<>>, nprops |-> 0,
        items |-> <<>>, hasitems |-> FALSE, anyof |-> <<>>, oneof |-> <<>>, allof |-> <<>>, hasany |-> FALSE, hasone |-> FALSE,
        hasall |-> FALSE, addl |-> "none", regother |-> <<>>, inreg |-> FALSE, tyreg |-> <<>>]
ClassOf(n) == IF n = "Self" THEN "Holder" ELSE n
StemOf(n) == CASE n = "Pet" -> "pet" [] n = "Color" -> "color" [] n = "Name" -> "name" [] n = "Stamp" -> "stamp" [] n = "Tags" -> "tags"
               [] n = "Pets" -> "pets" [] n = "Bag" -> "bag" [] n = "Either" -> "either" [] n = "Maybe" -> "maybe" [] n = "Self" -> "holder"
RECURSIVE Lower(_)
LowerBase(x) ==
  CASE x.k = "prim" -> [IRN EXCEPT !.ty = x.a, !.fmt = x.f]
    [] x.k = "enum" -> [IRN EXCEPT !.ty = x.a, !.enum = <<x.f>>, !.enumbool = IF x.a = "boolean" THEN <<"T">> ELSE <<"X">>]
    [] x.k = "any" -> IRN
    [] x.k = "object" -> [IRN EXCEPT !.ty = "object", !.nprops = IF x.a = "" THEN 0 ELSE 1]
    [] x.k = "array" -> [IRN EXCEPT !.ty = "array", !.items = <<Lower(x.of[1])>>, !.hasitems = TRUE]
    [] x.k = "map" -> [IRN EXCEPT !.ty = "object", !.addl = IF x.a = "true" THEN "true" ELSE "schema"]
    [] x.k = "ref" -> [Lower(Comp(x.a, H)) EXCEPT !.name = ClassOf(x.a), !.gen = ClassOf(x.a), !.stem = StemOf(x.a), !.inreg = TRUE]
    [] x.k = "oneOf" -> [IRN EXCEPT !.hasone = TRUE, !.oneof = [i \in 1..Len(x.of) |-> Lower(x.of[i])]]
    [] x.k = "anyOf" -> [IRN EXCEPT !.hasany = TRUE, !.anyof = [i \in 1..Len(x.of) |-> Lower(x.of[i])]]
    [] x.k = "allOf" -> [IRN EXCEPT !.hasall = TRUE, !.allof = [i \in 1..Len(x.of) |-> Lower(x.of[i])]]
Lower(x) ==
  LET b == LowerBase(x) IN
  CASE x.nul = "no" -> b
    [] x.nul \in {"nullable", "type31", "member"} -> [b EXCEPT !.nul = TRUE]
    [] x.nul = "anyOfNull" -> [IRN EXCEPT !.hasany = TRUE, !.anyof = <<b>>, !.nul = TRUE]
    [] x.nul = "oneOfNull" -> [IRN EXCEPT !.hasone = TRUE, !.oneof = <<b>>, !.nul = TRUE]

Cx == [dir |-> "models", stem |-> "holder"]
AsIsOf(x, p) == AsIs(Lower(x), p, p # "opt", Cx)

(* ----- how the model visitor defines the declared components (alias / enum / dataclass / wrapper) *)
DefOf(n) ==
  LET c == Comp(n, H)  node == Lower(Ref(n))
      isEnum == node.enum # <<>> /\ node.ty \in {"string", "integer"}
      isUnion == node.oneof # <<>> \/ node.anyof # <<>>
      isAlias == node.nprops = 0 /\ ~isEnum /\ (node.ty # "object" \/ isUnion) IN
  IF isEnum THEN [name |-> ClassOf(n), def |-> "enum", base |-> c.a, sig |-> c.f, args |-> <<>>]
  ELSE IF isAlias THEN [name |-> ClassOf(n), def |-> "alias", base |-> "", sig |-> "", args |-> <<AsIs(node, "alias", TRUE, [dir |-> "models", stem |-> StemOf(n)]).t>>]
  ELSE IF node.addl \in {"true", "schema"} THEN [name |-> ClassOf(n), def |-> "wrapper", base |-> "", sig |-> "", args |-> <<IF node.addl = "true" THEN N("Any") ELSE IdealOf(c.of[1], H)>>]
  ELSE [name |-> ClassOf(n), def |-> "dataclass", base |-> "", sig |-> c.a, args |-> <<>>]
AsIsEnv == <<DefOf("Pet"), DefOf("Color"), DefOf("Name"), DefOf("Stamp"), DefOf("Tags"), DefOf("Pets"), DefOf("Bag"), DefOf("Either"), DefOf("Maybe"), DefOf("Self")>>

(* ----- Gap: stated on the shape *)
AdmitsNull(x) == LET d == Admits(x, H) IN ~d.any /\ <<"null", "", "">> \in d.atoms
\* the sub-shapes whose own annotation is spliced into the annotation of x (a map value is not: dict[str, Any])
RECURSIVE Reach(_)
Reach(x) == {x} \cup (CASE x.k = "array" -> Reach(x.of[1])
                         [] x.k \in {"oneOf", "anyOf"} -> UNION {Reach(x.of[i]) : i \in 1..Len(x.of)}
                         [] x.k = "allOf" -> Reach(x.of[1])
                         [] x.k = "ref" -> Reach(Comp(x.a, H))
                         [] OTHER -> {})
\* (1) the item type of an array is resolved as required and its nullability is dropped;
\* (2) an allOf of several members is typed as its first typed member; (3) the response entry point of the service
\* never looks at the nullability of the response schema
Gap(x, p) == \/ \E y \in Reach(x) : (y.k = "array" /\ AdmitsNull(y.of[1])) \/ (y.k = "allOf" /\ Len(y.of) > 1 /\ ~(p = "alias" /\ y = x))
             \/ (p = "respsvc" /\ AdmitsNull(x))
\* resolve_underlying (the alias generator's entry point) passes through a named enum used as array item / union member:
\* its class name is returned, its import is not registered (_resolve_string)
NamedEnumRef(x) == x.k = "ref" /\ x.nul = "no" /\ Comp(x.a, H).k = "enum" /\ Comp(x.a, H).a \in {"string", "integer"}
DirectKids(x) == IF x.nul \in {"anyOfNull", "oneOfNull"} THEN {Nul(x, "no")}
                 ELSE IF x.k \in {"array", "oneOf", "anyOf"} THEN {x.of[i] : i \in 1..Len(x.of)} ELSE {}
ImportGap(x, p) == p = "alias" /\ \E c \in DirectKids(x) : NamedEnumRef(c)

(* ----- the statements *)
PosOf(p) == IF p = "opt" THEN "opt" ELSE "req"
IdealTotal == phase = "judge" => NoBad(Ideal(s, PosOf(pos), H))
IdealNoDoubleOptional == phase = "judge" => NoDoubleOptional(Ideal(s, PosOf(pos), H))
IdealSound == phase = "judge" => Sound(s, PosOf(pos), H, Ideal(s, PosOf(pos), H), IdealEnv(H))
IdealTight == phase = "judge" => Tight(s, H, Ideal(s, PosOf(pos), H), IdealEnv(H))

RECURSIVE NoUnknown(_)
NoUnknown(t) == ~(t.k = "name" /\ t.id = "?") /\ \A i \in 1..Len(t.args) : NoUnknown(t.args[i])
AsIsTotal == phase = "judge" => NoBad(r.t) /\ NoUnknown(r.t)
AsIsNoDoubleOptional == phase = "judge" => NoDoubleOptional(r.t)
AsIsImportsClosed == phase = "judge" /\ ~ImportGap(s, pos) => ImportsClosed(Uses(r.t, "code"), {i[2] : i \in r.imps}, "Holder")
ImportGapIsReal == phase = "judge" /\ ImportGap(s, pos) => ~ImportsClosed(Uses(r.t, "code"), {i[2] : i \in r.imps}, "Holder")
AsIsSoundOutsideGap == phase = "judge" /\ ~Gap(s, pos) => Sound(s, PosOf(pos), H, r.t, env)
GapIsReal == phase = "judge" /\ Gap(s, pos) => ~Sound(s, PosOf(pos), H, r.t, env)

\* a bare `Top: {$ref: X}` is refused by the loader: no alias entry point for it
DApplicable(x, p) == ~(p = "alias" /\ x.k = "ref" /\ x.nul = "no")
\* Initial states are buckets (entry point x top-level kind x spelling of null); Pick moves to one shape of the bucket.
\* (TLC evaluates initial states in one thread: the buckets spread the shapes over the workers.)
Kinds == {"prim", "enum", "any", "object", "array", "map", "ref", "oneOf", "anyOf", "allOf"}
NulSpellings == {"no", "nullable", "type31", "anyOfNull", "oneOfNull", "member"}
Init == /\ s \in {Sh(k, "", "", n, <<>>) : k \in Kinds, n \in NulSpellings} /\ pos \in DPos /\ phase = "bucket"
        /\ r = [t |-> NoneT, imps |-> {}] /\ env = AsIsEnv
Pick == /\ phase = "bucket" /\ phase' = "judge" /\ UNCHANGED <<pos, env>>
        /\ s' \in {x \in Shapes(Tier) : x.k = s.k /\ x.nul = s.nul /\ DApplicable(x, pos)}
        /\ r' = AsIsOf(s', pos)
        /\ (Gap(s', pos) => PrintT("GAP " \o ToJson([gap |-> "sound", pos |-> pos, k |-> s'.k])))       \* measured: the exemptions are exercised
        /\ (ImportGap(s', pos) => PrintT("GAP " \o ToJson([gap |-> "imports", pos |-> pos, k |-> s'.k])))
Spec == Init /\ [][Pick]_<<s, pos, phase, r, env>>
=============================================================================
