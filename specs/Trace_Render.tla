---------------------------- MODULE Trace_Render ----------------------------
(* C19 monitor: one trace per (document, variant) pair of runs, judged with Render!Clause. *)
EXTENDS Naturals, Sequences, FiniteSets, TLC, Json, IOUtils
R == INSTANCE Render WITH Renderings <- {}, Perms <- {}, v <- 0, done <- FALSE
Traces == ndJsonDeserialize(IOEnv.TRACE_FILE)
VARIABLES tid, fin
Init == tid \in 1..Len(Traces) /\ fin = FALSE
Judge == /\ ~fin /\ fin' = TRUE /\ UNCHANGED tid
         /\ LET t == Traces[tid] IN
              PrintT("VERDICT " \o ToJson([id |-> t.id, clause |-> R!Clause(t), locus |-> [rendering |-> t.variant.rendering, permuted |-> t.permuted]]))
Spec == Init /\ [][Judge]_<<tid, fin>>
=============================================================================
