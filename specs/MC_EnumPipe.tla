---------------------------- MODULE MC_EnumPipe ----------------------------
(***************************************************************************)
(* X06 design level: the named statements of EnumPipe.tla, checked by TLC  *)
(* for every document of the bounded family (one state per document)       *)
(*   - on Ideal, the registry read off the declarations: the statements    *)
(*     are jointly satisfiable (IdealHolds), in every declaration order;   *)
(*   - on the implementation-shaped pipeline (AsIs, in the three           *)
(*     declaration orders): every statement holds exactly OUTSIDE Gap      *)
(*     (AsIsHoldsOutsideGap), and every gap is real: one of the clauses it *)
(*     predicts fails (GapIsReal).                                         *)
(* Gap is stated on the DOCUMENT (and on the names its declarations        *)
(* derive), not on the pipeline's result: where an enum stands, which      *)
(* declarations compete for one registry key, what the listed values are.  *)
(* The derived names come from the harness (NAMES_FILE, one line per       *)
(* document: plain string operations, see harness/x06.py names_for).       *)
(***************************************************************************)
EXTENDS EnumPipe, Json, IOUtils
CONSTANT Tier
VARIABLES d, phase

NameRecs == ndJsonDeserialize(IOEnv.NAMES_FILE)
NamesOf(doc) == NameRecs[CHOOSE i \in DOMAIN NameRecs : NameRecs[i].id = doc.id].names

(* ----- Gap *)
\* who wants which registry key, with which value set
Claim(key, who, kind, want) == [key |-> key, who |-> who, kind |-> kind, want |-> want]
Claims(doc, N) ==
     {Claim(N.key[o.name], o.name, IF o.k = "enum" THEN "enum" ELSE o.k, IF o.k = "enum" THEN Want(o.decl) ELSE {}) : o \in {x \in Owners(doc) : x.k # "op"}}
\cup {Claim(N.ctx[p.id], p.id, "enum", Want(p.decl)) : p \in {q \in Positions(doc) : q.src = "inline" /\ q.ok = "object" /\ q.where = "direct" /\ q.unions = {}}}
\cup {Claim(N.param[p.id], p.id, "enum", Want(p.decl)) : p \in {q \in Positions(doc) : q.src = "inline" /\ q.ok = "op" /\ q.where = "item" /\ q.decl.base = "string"}}
\cup {Claim(N.unified[u.name], "unified:" \o u.name, "enum", Unified(doc, u.name)) : u \in {x \in Owners(doc) : x.k = "union"}}
Clash(doc, N) == \E a, b \in Claims(doc, N) : a.who # b.who /\ a.key = b.key /\ (a.kind # b.kind \/ a.want # b.want)
\* an enum that stands where the pipeline does not promote it to a class
Unpromoted(doc) ==
  \E p \in Positions(doc) : \/ p.decl.base = "number"
                            \/ p.src = "inline" /\ p.ok = "object" /\ p.where \in {"item", "mapval"} /\ p.decl.base # "boolean"
                            \/ p.src = "inline" /\ p.ok = "op" /\ (p.where = "direct" \/ p.decl.base # "string") /\ p.decl.base # "boolean"
\* the declarations that become a class
Promoted(p) == p.src = "inline" /\ ((p.ok = "object" /\ p.where = "direct") \/ (p.ok = "op" /\ p.where = "item" /\ p.decl.base = "string"))
ClassDecls(doc) == {o.decl : o \in DeclaredEnums(doc)} \cup {p.decl : p \in {q \in Positions(doc) : Promoted(q)}}
Coerced(N, dcl, v) == IF dcl.base = "string" THEN N.lit[VKey(StrOf(v))] ELSE N.ival[VKey(v)]
NullListed(doc) == \E dcl \in ClassDecls(doc) : dcl.base \in {"string", "integer"} /\ Null \in Listed(dcl)
Coincide(doc, N) == \E dcl \in ClassDecls(doc) : dcl.base \in {"string", "integer"} /\
                       \E i, j \in DOMAIN dcl.vals : i < j /\ Coerced(N, dcl, dcl.vals[i]) = Coerced(N, dcl, dcl.vals[j])
BadName(doc, N) == \E dcl \in ClassDecls(doc) : dcl.base = "string" /\ \E v \in Listed(dcl) : N.fact[N.mem[VKey(StrOf(v))]] # "ok"
BadLiteral(doc, N) == \E dcl \in ClassDecls(doc) : dcl.base = "string" /\ \E v \in Listed(dcl) : N.lit[VKey(StrOf(v))] # StrOf(v)
\* a variant of two unions without mapping: the second union finds the variant's own enum already consumed
SharedVariant(doc) == \E u1, u2 \in {x \in Owners(doc) : x.k = "union"} : u1.name # u2.name /\ ToSet(u1.variants) \cap ToSet(u2.variants) # {}
                                                                              /\ (u1.mapping = <<>> \/ u2.mapping = <<>>)
\* a declared enum that is a variant's discriminator AND is referenced elsewhere: unification drops its class, the other $ref dangles
DanglingRef(doc) == \E o \in DeclaredEnums(doc) : (\E p \in Positions(doc) : p.src = "ref" /\ p.to = o.name /\ p.unions # {})
                                                   /\ (\E p \in Positions(doc) : p.src = "ref" /\ p.to = o.name /\ p.unions = {})
Gap(doc, N) == {g \in {"clash", "unpromoted", "null_listed", "coincide", "bad_name", "bad_literal", "shared_variant", "dangling_ref"} :
                  CASE g = "clash" -> Clash(doc, N) [] g = "unpromoted" -> Unpromoted(doc) [] g = "null_listed" -> NullListed(doc)
                    [] g = "coincide" -> Coincide(doc, N) [] g = "bad_name" -> BadName(doc, N) [] g = "bad_literal" -> BadLiteral(doc, N)
                    [] g = "shared_variant" -> SharedVariant(doc) [] g = "dangling_ref" -> DanglingRef(doc)}
Predicts(g) ==
  CASE g = "clash" -> {"RightEnum", "Named", "Shared", "Stable", "RoundTrip"}
    [] g = "unpromoted" -> {"RightEnum"}
    [] g = "null_listed" -> {"Values", "Total"}
    [] g = "coincide" -> {"Total"}
    [] g = "bad_name" -> {"Members"}
    [] g = "bad_literal" -> {"Total", "Values"}
    [] g = "shared_variant" -> {"RightEnum"}
    [] g = "dangling_ref" -> {"Total"}

AsIsFailing(doc, N) == LET runs == AsIsRuns(doc, N) IN {f.clause : f \in AllFails(doc, runs[1]) \cup StableFails(doc, runs)}

(* ----- the invariants *)
IdealHolds == Holds(d, IdealRuns(d))
AsIsHoldsOutsideGap == LET N == NamesOf(d) IN (Modelled(d, N) /\ Gap(d, N) = {}) => AsIsFailing(d, N) = {}
GapIsReal == LET N == NamesOf(d) IN Modelled(d, N) => \A g \in Gap(d, N) : Predicts(g) \cap AsIsFailing(d, N) # {}

Init == d \in Family(Tier) /\ phase = "new"
Judge == /\ phase = "new" /\ phase' = "judged" /\ UNCHANGED d
         /\ LET N == NamesOf(d) IN
            PrintT("GAP " \o ToJson([id |-> d.id, modelled |-> Modelled(d, N), gap |-> SetToSeq(Gap(d, N)), failing |-> SetToSeq(AsIsFailing(d, N))]))
Spec == Init /\ [][Judge]_<<d, phase>>
=============================================================================
