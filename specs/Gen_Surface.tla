---------------------------- MODULE Gen_Surface ----------------------------
(***************************************************************************)
(* C07 / C13 - the document family.  One SCEN line per abstract document   *)
(*   [id, strategy, rendering, ops : Seq([oid, method, path, tags, keys,   *)
(*    opid, idshape, kind])]                                               *)
(* <= 4 operations over <= 3 paths (stratum V: 8 on one).  Dimensions:                              *)
(*  tags per operation (TL): none, one, two (both orders), spelling        *)
(*     variants of one tag (`user-accounts`, `User Accounts`,              *)
(*     `userAccounts`, `useraccounts`, `a`/`A`) alone, second and first of *)
(*     two, tags named like APIClient members (`request`, `close`,         *)
(*     `config`) alone and second;                                         *)
(*  operationId shape (per document): absent, unique, duplicate after      *)
(*     sanitising (getUser / get_user / get-user / GetUser), pre-suffixed  *)
(*     family (get / Get / get_2 / GET), FastAPI style as the project      *)
(*     documents it (name_api_v1_users_get), FastAPI style as FastAPI      *)
(*     writes it for parameterised paths (name_items__id__get);            *)
(*  strategy operationId | clean | path;                                   *)
(*  rendering json | yaml (quoted status keys) | yamlbare (`200:` is an    *)
(*     int key);                                                           *)
(*  kind per operation (C13): plain, multi (two request content types =    *)
(*     @overload stubs), sse, ndjson, octet (streaming = async generator), *)
(*     manyopt (6 optional parameters), longsig (8 parameters with long    *)
(*     names, header + query, one required).                               *)
(*  P  punctuation variants of one tag (`Billing/Invoices` vs              *)
(*     `billing-invoices`, `v1.users` / `v1-users`, `R&D` / `r-d`,         *)
(*     `ops:admin` / `ops admin`): every ordered pair, triples             *)
(*  V  one path item carrying ALL eight OpenAPI 3 verbs (get, put, post,   *)
(*     delete, options, head, patch, trace) x tag lists x id shapes x      *)
(*     strategies                                                          *)
(*  X  unusual-but-valid PARTS of an operation, one decoration each (pairs  *)
(*     in thorough): responses keyed `default` only / `4XX` `5XX` / `4xx`  *)
(*     / `2XX` / several statuses / 204 / description only / by $ref to    *)
(*     components.responses / 200 + default; parameters by $ref;           *)
(*     requestBody by $ref; path-level parameters + summary + description  *)
(*     + servers next to the methods; x- extensions + deprecated +         *)
(*     externalDocs; operation-level servers / security / empty lists      *)
(*  L  LONG names (64 .. 160 characters; thorough every 8 from 48 to 168)   *)
(*     for what ends up in signatures: return-type / body models, a        *)
(*     parameter name, the operationId + inline response schema (promoted  *)
(*     to <OperationId>200Response) x kinds plain, multi, sse, ndjson,     *)
(*     longsig (thorough also manyopt, mixed); operation 2 = short control *)
(*  S  two spellings of ONE tag inside one operation's tag list (every     *)
(*     ordered pair of user-accounts / user_accounts / userAccounts /      *)
(*     UserAccounts / useraccounts / User Accounts), alone and next to an  *)
(*     operation that uses one of the two spellings (or a third) alone     *)
(* kinds also: mixed = 200 JSON + 206 application/octet-stream (the        *)
(* primary response is not streaming: client, Protocol and mock are        *)
(* coroutines); every `multi` operation has its OWN json body model.       *)
(* The product is far too large; the family is a deterministic STRATIFIED  *)
(* selection (no randomness), exhaustive inside each stratum:              *)
(*  A  one operation: every tag list x id shapes x strategies              *)
(*  B  two operations: every PAIR of tag lists; the rest rotates           *)
(*  C  three operations: triples of tag lists with (t1+t2+t3) % m = 0      *)
(*  D  four operations: (t1, t2) free, t3 / t4 derived (orthogonal array)  *)
(*  E  id shapes: 3-4 operations x 5 tag patterns x every id shape x       *)
(*     every strategy                                                      *)
(*  F  kinds: every pair (thorough: triple) of kinds x 3 tag patterns      *)
(*  G  yamlbare: a small slice of A and B                                  *)
(*  H  multi-tag x colliding ids: every combination of the tag lists       *)
(*     a / b / a,b / b,a over 3 (thorough 3-4) operations x {dupsan,       *)
(*     presuffixed}                                                        *)
(* quick ~1.5k documents, thorough ~19k.                                   *)
(***************************************************************************)
EXTENDS Surface, Json

CONSTANT Tier     \* "quick" | "thorough"
VARIABLES sc, done

TL == << <<>>, <<"a">>, <<"b">>, <<"a", "b">>, <<"b", "a">>,
         <<"user-accounts">>, <<"User Accounts">>, <<"userAccounts">>, <<"useraccounts">>,
         <<"a", "user-accounts">>, <<"User Accounts", "b">>,
         <<"request">>, <<"close">>, <<"config">>, <<"a", "request">>, <<"a", "A">>,
         \* 17.. : spellings that differ by punctuation other than space / hyphen / underscore (stratum P)
         <<"Billing/Invoices">>, <<"billing-invoices">>, <<"v1.users">>, <<"v1-users">>, <<"R&D">>, <<"r-d">>, <<"ops:admin">>, <<"ops admin">> >>
NT == 16     \* the tag lists the rotating strata A-D draw from
PT == 17..24

Paths == <<"/items", "/items/{id}", "/api/v1/users">>
\* (method, path index) of operation 1..4 under a slot pattern
Slots == << << <<"GET", 1>>, <<"POST", 1>>, <<"GET", 2>>, <<"DELETE", 2>> >>,
            << <<"GET", 1>>, <<"GET", 2>>, <<"GET", 3>>, <<"POST", 3>> >>,
            << <<"POST", 1>>, <<"PUT", 2>>, <<"GET", 3>>, <<"GET", 1>> >>,
            \* pattern 4 (stratum V only): one path item with all eight verbs of OpenAPI 3
            << <<"GET", 1>>, <<"PUT", 1>>, <<"POST", 1>>, <<"DELETE", 1>>, <<"OPTIONS", 1>>, <<"HEAD", 1>>, <<"PATCH", 1>>, <<"TRACE", 1>> >> >>
NS == 3      \* the patterns the rotating strata use
Lower(m) == CASE m = "GET" -> "get" [] m = "POST" -> "post" [] m = "PUT" -> "put" [] m = "DELETE" -> "delete"
              [] m = "OPTIONS" -> "options" [] m = "HEAD" -> "head" [] m = "PATCH" -> "patch" [] m = "TRACE" -> "trace"

IdShapes == <<"absent", "unique", "dupsan", "presuffixed", "fastapi", "fastapiraw">>
NI == Len(IdShapes)
PathCollapsed == <<"items", "items_id", "api_v1_users">>     \* the form the project's tests use
PathRaw == <<"_items", "_items__id_", "_api_v1_users">>        \* re.sub(r"\W", "_", path), what FastAPI itself produces
FuncNames == <<"list_things", "make_thing", "read_thing", "drop_thing", "probe_thing", "peek_thing", "amend_thing", "echo_thing">>
OpId(shape, j, m, p) ==
  CASE shape = "absent" -> ""
    [] shape = "unique" -> <<"listThings", "makeThing", "readThing", "dropThing", "probeThing", "peekThing", "amendThing", "echoThing">>[j]
    [] shape = "dupsan" -> <<"getUser", "get_user", "get-user", "GetUser">>[j]
    [] shape = "presuffixed" -> <<"get", "Get", "get_2", "GET">>[j]
    [] shape = "fastapi" -> FuncNames[j] \o "_" \o PathCollapsed[p] \o "_" \o Lower(m)
    [] shape = "fastapiraw" -> FuncNames[j] \o PathRaw[p] \o "_" \o Lower(m)

Kinds == <<"plain", "multi", "sse", "ndjson", "octet", "manyopt", "longsig", "mixed">>
NK == Len(Kinds)
\* a request body needs POST / PUT
KindFor(m, k) == IF Kinds[k] = "multi" /\ m \notin {"POST", "PUT", "PATCH"} THEN "manyopt" ELSE Kinds[k]

Strategies == <<"operationId", "clean", "path">>
Rend(x) == IF x % 2 = 0 THEN "json" ELSE "yaml"

S(n) == ToString(n)
\* tsel, ksel : Seq of indices (length n); sp slot pattern; s id shape; g strategy; r rendering
\* tls : Seq of tag lists (length n); MkDoc takes indices into TL instead
MkDocT(id, sp, tls, ksel, s, g, r) ==
  [id |-> id, strategy |-> Strategies[g], rendering |-> r,
   ops |-> [j \in 1..Len(tls) |->
             LET m == Slots[sp][j][1]  p == Slots[sp][j][2] IN
             [oid |-> j, method |-> m, path |-> Paths[p], tags |-> tls[j], keys |-> KeysOf(tls[j]),
              opid |-> OpId(IdShapes[s], j, m, p), idshape |-> IdShapes[s], kind |-> KindFor(m, ksel[j]), decos |-> <<>>]]]

MkDoc(id, sp, tsel, ksel, s, g, r) == MkDocT(id, sp, [j \in 1..Len(tsel) |-> TL[tsel[j]]], ksel, s, g, r)

Rot(x, n) == (x % n) + 1

\* ---- strata: sets of small index records [f, x, bare]; Doc(u) builds the document -----------------
I(f, x) == [f |-> f, x |-> x, bare |-> FALSE]

IdxA(full) == {I("a", v) : v \in {v \in (1..NT) \X (1..NI) \X (1..3) : full \/ IdShapes[v[2]] \in {"absent", "unique", "fastapi", "fastapiraw"}}}
DocA(u) ==
  LET t == u[1]  s == u[2]  g == u[3] IN
  MkDoc("a" \o S(t) \o "x" \o S(s) \o "x" \o S(g), Rot(t + s, NS), <<t>>, <<Rot(t + s + g, NK)>>, s, g, Rend(t + s + g))

IdxB(rots) == {I("b", v) : v \in (1..NT) \X (1..NT) \X (0..(rots - 1))}
DocB(u) ==
  LET t1 == u[1]  t2 == u[2]  r == u[3]
      s == Rot(t1 + 2 * t2 + r, NI)  g == Rot(t1 + t2 + r, 3) IN
  MkDoc("b" \o S(t1) \o "x" \o S(t2) \o "x" \o S(r), Rot(t1 + r, NS), <<t1, t2>>, <<Rot(t1 + r, NK), Rot(t2 + 3 + r, NK)>>, s, g, Rend(t1 + t2 + r))

IdxC(mod, rots) == {I("c", v) : v \in {v \in (1..NT) \X (1..NT) \X (1..NT) \X (0..(rots - 1)) : (v[1] + v[2] + v[3]) % mod = 0}}
DocC(u) ==
  LET t1 == u[1]  t2 == u[2]  t3 == u[3]  r == u[4]
      s == Rot(t1 + 2 * t2 + 3 * t3 + r, NI)  g == Rot(t1 + t3 + r, 3) IN
  MkDoc("c" \o S(t1) \o "x" \o S(t2) \o "x" \o S(t3) \o "x" \o S(r), Rot(t2 + r, NS), <<t1, t2, t3>>,
        <<Rot(t1 + r, NK), Rot(t2 + 2, NK), Rot(t3 + 4 + r, NK)>>, s, g, Rend(t1 + t2 + t3 + r))

IdxD(mod, rots) == {I("d", v) : v \in {v \in (1..NT) \X (1..NT) \X (0..(rots - 1)) : (v[1] + v[2]) % mod = 0}}
DocD(u) ==
  LET t1 == u[1]  t2 == u[2]  r == u[3]
      t3 == Rot(t1 + 2 * t2 + r, NT)  t4 == Rot(2 * t1 + t2 + 3 + 5 * r, NT)
      s == Rot(t1 + t2 + r, NI)  g == Rot(t1 + 2 * t2 + r, 3) IN
  MkDoc("d" \o S(t1) \o "x" \o S(t2) \o "x" \o S(r), Rot(t1 + t2 + r, NS), <<t1, t2, t3, t4>>,
        <<Rot(t1, NK), Rot(t2 + 1, NK), Rot(t3 + 2, NK), Rot(t4 + 3 + r, NK)>>, s, g, Rend(t1 + t2 + r))

\* tag patterns for the id-shape and kind strata (indices into TL)
TagPat == << <<2, 2, 2, 2>>, <<1, 1, 1, 1>>, <<2, 3, 4, 5>>, <<4, 4, 4, 4>>, <<2, 1, 3, 2>> >>
IdxE(sps) == {I("e", v) : v \in (3..4) \X (1..Len(TagPat)) \X (1..NI) \X (1..3) \X sps}
DocE(u) ==
  LET n == u[1]  tp == u[2]  s == u[3]  g == u[4]  sp == u[5] IN
  MkDoc("e" \o S(n) \o "x" \o S(tp) \o "x" \o S(s) \o "x" \o S(g) \o "x" \o S(sp), sp, SubSeq(TagPat[tp], 1, n),
        [j \in 1..n |-> IF (j + tp + s) % 5 = 0 THEN Rot(j + s, NK) ELSE 1], s, g, Rend(n + tp + s + g + sp))

KindTagPat == << <<2, 2, 2>>, <<4, 4, 4>>, <<1, 1, 1>> >>
IdxF2(sps) == {I("f", v) : v \in (1..NK) \X (1..NK) \X (1..Len(KindTagPat)) \X sps}
DocF2(u) ==
  LET k1 == u[1]  k2 == u[2]  tp == u[3]  sp == u[4]  g == Rot(k1 + k2 + tp, 3) IN
  MkDoc("f" \o S(k1) \o "x" \o S(k2) \o "x" \o S(tp) \o "x" \o S(sp), sp, SubSeq(KindTagPat[tp], 1, 2), <<k1, k2>>, Rot(k1 + tp, 2), g, Rend(k1 + k2 + tp + sp))
IdxF3 == {I("g", v) : v \in {v \in (1..NK) \X (1..NK) \X (1..NK) \X (1..Len(KindTagPat)) \X (1..3) : v[5] = Rot(v[1] + v[2] + v[3] + v[4], 3) \/ v[1] = v[2]}}
DocF3(u) ==
  LET k1 == u[1]  k2 == u[2]  k3 == u[3]  tp == u[4]  g == u[5] IN
  MkDoc("g" \o S(k1) \o "x" \o S(k2) \o "x" \o S(k3) \o "x" \o S(tp) \o "x" \o S(g), 3, SubSeq(KindTagPat[tp], 1, 3), <<k1, k2, k3>>, Rot(k1 + k3, 2), g, Rend(k1 + k2 + k3 + tp + g))

\* multi-tag operations x colliding ids: every combination of the tag lists a / b / a,b / b,a over 3 (thorough: 3-4)
\* operations x {dupsan, presuffixed} - the interplay the global de-duplication of method names exists for
IdxH(ns, gs) == {I("h", v) : v \in {v \in ns \X (2..5) \X (2..5) \X (2..5) \X (2..5) \X {3, 4} \X gs : v[1] = 4 \/ v[5] = 2}}
DocH(u) ==
  LET n == u[1]  s == u[6]  g == u[7]  w == u[2] + u[3] + u[4] + u[5] + s IN
  MkDoc("h" \o S(n) \o "x" \o S(u[2]) \o S(u[3]) \o S(u[4]) \o S(u[5]) \o "x" \o S(s) \o "x" \o S(g), Rot(w, NS), SubSeq(<<u[2], u[3], u[4], u[5]>>, 1, n),
        [j \in 1..n |-> 1], s, g, Rend(w + g))

\* punctuation variants: every tag alone, every ordered pair, triples with (t1+t2+t3) % m = 0, and a pair behind `a`
IdxP(mod) ==
  {I("p", <<t, t, t, 1, g>>) : t \in PT, g \in 1..3}
  \cup {I("p", <<v[1], v[2], v[2], 2, Rot(v[1] + v[2], 3)>>) : v \in PT \X PT}
  \cup {I("p", <<v[1], v[2], v[3], 3, Rot(v[1] + v[3], 3)>>) : v \in {v \in PT \X PT \X PT : (v[1] + v[2] + v[3]) % mod = 0 /\ Cardinality({v[1], v[2], v[3]}) > 1}}
DocP(u) ==
  LET n == u[4]  g == u[5]  w == u[1] + u[2] + u[3] IN
  MkDoc("p" \o S(u[1]) \o "x" \o S(u[2]) \o "x" \o S(u[3]) \o "x" \o S(n) \o "x" \o S(g), Rot(w, NS), SubSeq(<<u[1], u[2], u[3]>>, 1, n),
        [j \in 1..n |-> 1], Rot(w, 2), g, Rend(w + g))

\* all eight verbs on one path item
IdxV(tls, shapes) == {I("v", <<t, s, g>>) : t \in tls, s \in shapes, g \in 1..3}
DocV(u) ==
  LET t == u[1]  s == u[2]  g == u[3] IN
  MkDoc("v" \o S(t) \o "x" \o S(s) \o "x" \o S(g), 4, [j \in 1..8 |-> t], [j \in 1..8 |-> IF (j + t) % 4 = 0 THEN 6 ELSE 1], s, g, Rend(t + s + g))

\* unusual-but-valid PARTS of an operation ("none silently dropped" quantifies over all operations, not only over the
\* plain ones): each decoration is one construct the concretiser adds to the operation (harness/surfacepipe.DECORATIONS)
Decos == <<"resp_default_only", "resp_wild_upper", "resp_wild_lower", "resp_2XX_primary", "resp_multi_status", "resp_no_content",
           "resp_desc_only", "resp_ref", "resp_default_plus", "param_ref", "body_ref", "pathlevel_keys", "ext_deprecated", "op_misc">>
ND == Len(Decos)
Decorate(doc, which, ds) == [doc EXCEPT !.ops = [j \in DOMAIN @ |-> IF j \in which THEN [@[j] EXCEPT !.decos = ds] ELSE @[j]]]
\* w = 1: the decoration on operation 2 only (POST / PUT); w = 2: on all three operations
IdxX(ws, gs) == {I("x", <<d, t, w, g>>) : d \in 1..ND, t \in {1, 2, 4}, w \in ws, g \in gs}
DocX(u) ==
  LET d == u[1]  t == u[2]  w == u[3]  g == IF u[4] = 0 THEN Rot(d + t + w, 3) ELSE u[4] IN
  Decorate(MkDoc("x" \o S(d) \o "x" \o S(t) \o "x" \o S(w) \o "x" \o S(u[4]), IF d % 2 = 1 THEN 1 ELSE 3, <<t, t, t>>, <<1, 1, 1>>, Rot(d + t, 2), g, Rend(d + t + w)),
           IF w = 1 THEN {2} ELSE {1, 2, 3}, <<Decos[d]>>)
\* two decorations on one operation
IdxX2 == {I("z", <<v[1], v[2], t>>) : v \in {v \in (1..ND) \X (1..ND) : v[1] < v[2]}, t \in {2, 4}}
DocX2(u) ==
  LET d1 == u[1]  d2 == u[2]  t == u[3] IN
  Decorate(MkDoc("z" \o S(d1) \o "x" \o S(d2) \o "x" \o S(t), IF (d1 + d2) % 2 = 1 THEN 1 ELSE 3, <<t, t, t>>, <<1, 1, 1>>, Rot(d1 + t, 2), Rot(d1 + d2 + t, 3), Rend(d1 + d2 + t)),
           {2}, <<Decos[d1], Decos[d2]>>)

\* LENGTH is a dimension: names around the widths the writers know (72 / 88 / 100 / 120 / 160 once nested) for what ends
\* up in signatures.  what = 1: the models of the return type / request body (decoration long_model_<L>), 2: a parameter
\* name (long_param_<L>), 3: the operationId itself + an inline response schema, which the loader promotes to
\* <OperationId>200Response (decoration inline_response).  Operation 1 is long, operation 2 the short control, same tag.
Chunk == "Telemetr"
RECURSIVE Rep(_)
Rep(n) == IF n = 0 THEN "" ELSE Chunk \o Rep(n - 1)
Pads == <<"", "x", "xy", "xyz", "xyzw", "xyzwv", "xyzwvu", "xyzwvut">>
LongId(L) == "list" \o Rep((L - 4) \div 8) \o Pads[((L - 4) % 8) + 1]
IdxL(lens, kinds) == {I("l", <<L, k, w>>) : L \in lens, k \in kinds, w \in 1..3}
DocL(u) ==
  LET L == u[1]  k == u[2]  w == u[3]
      base == MkDoc("l" \o S(L) \o "x" \o S(k) \o "x" \o S(w), 3, <<2, 2>>, <<k, k>>, 2, Rot(L \div 8 + k + w, 3), Rend(L \div 8 + k + w))
      deco == CASE w = 1 -> <<"long_model_" \o S(L)>> [] w = 2 -> <<"long_param_" \o S(L)>> [] w = 3 -> <<"inline_response">> IN
  [base EXCEPT !.ops[1].decos = deco, !.ops[1].opid = IF w = 3 THEN LongId(L) ELSE @]

\* tag LISTS are sequences over spelling classes: two spellings of ONE tag inside one operation's list (case and separator
\* variants that sanitise to different words), every ordered pair; w = 0: alone; w = 1 / 2: next to an operation that uses
\* the first / the second spelling alone (placed after or before it, rotating); w = 3: next to a third spelling (thorough)
Spell == <<"user-accounts", "user_accounts", "userAccounts", "UserAccounts", "useraccounts", "User Accounts">>
IdxS(ws) == {I("s", <<v[1], v[2], w>>) : v \in {v \in (1..Len(Spell)) \X (1..Len(Spell)) : v[1] # v[2]}, w \in ws}
DocS(u) ==
  LET a == u[1]  b == u[2]  w == u[3]
      pair == <<Spell[a], Spell[b]>>
      other == CASE w = 1 -> <<Spell[a]>> [] w = 2 -> <<Spell[b]>> [] OTHER -> <<Spell[CHOOSE c \in 1..Len(Spell) : c \notin {a, b} /\ \A e \in 1..(c - 1) : e \in {a, b}]>>
      tls == IF w = 0 THEN <<pair>> ELSE IF (a + b + w) % 2 = 0 THEN <<pair, other>> ELSE <<other, pair>> IN
  MkDocT("s" \o S(a) \o "x" \o S(b) \o "x" \o S(w), Rot(a + b, NS), tls, [j \in 1..Len(tls) |-> 1], Rot(a + w, 2), Rot(a + b + w, 3), Rend(a + 2 * b + w))

Plain(i) ==
  CASE i.f = "a" -> DocA(i.x) [] i.f = "b" -> DocB(i.x) [] i.f = "c" -> DocC(i.x) [] i.f = "d" -> DocD(i.x)
    [] i.f = "e" -> DocE(i.x) [] i.f = "f" -> DocF2(i.x) [] i.f = "g" -> DocF3(i.x) [] i.f = "h" -> DocH(i.x) [] i.f = "p" -> DocP(i.x) [] i.f = "v" -> DocV(i.x) [] i.f = "x" -> DocX(i.x) [] i.f = "z" -> DocX2(i.x) [] i.f = "l" -> DocL(i.x) [] i.f = "s" -> DocS(i.x)
Doc(i) == IF i.bare THEN [Plain(i) EXCEPT !.rendering = "yamlbare", !.id = "y" \o @] ELSE Plain(i)

\* yamlbare: a slice of A and B rendered with unquoted status keys
IdxG(full) ==
  {[i EXCEPT !.bare = TRUE] : i \in {i \in IdxA(FALSE) : full \/ (i.x[1] + i.x[2] + i.x[3]) % 4 = 0}}
  \cup {[i EXCEPT !.bare = TRUE] : i \in {i \in IdxB(1) : i.x[1] # i.x[2] /\ (i.x[1] + 3 * i.x[2]) % (IF full THEN 3 ELSE 16) = 0}}

Family ==
  CASE Tier = "quick"    -> IdxA(FALSE) \cup IdxB(1) \cup IdxC(32, 1) \cup IdxD(2, 1) \cup IdxE({1}) \cup IdxF2({1, 3}) \cup IdxG(FALSE) \cup IdxH({3}, {1}) \cup IdxP(4) \cup IdxV({1, 2, 4}, {1, 2, 5}) \cup IdxX({1, 2}, {0}) \cup IdxL({64, 80, 96, 112, 128, 160}, {1, 2, 3, 4, 7}) \cup IdxS({0, 1, 2})
    [] Tier = "thorough" -> IdxA(TRUE) \cup IdxB(6) \cup IdxC(2, 4) \cup IdxD(1, 12) \cup IdxE(1..NS) \cup IdxF2(1..NS) \cup IdxF3 \cup IdxG(TRUE) \cup IdxH({3, 4}, {1, 2}) \cup IdxP(1) \cup IdxV({1, 2, 4, 6, 12, 16, 17}, {1, 2, 5, 6}) \cup IdxX({1, 2}, {1, 2, 3}) \cup IdxX2 \cup IdxL({L \in 48..168 : L % 8 = 0}, {1, 2, 3, 4, 6, 7, 8}) \cup IdxS({0, 1, 2, 3})

Init == sc \in Family /\ done = FALSE
Emit == ~done /\ done' = TRUE /\ UNCHANGED sc /\ PrintT("SCEN " \o ToJson(Doc(sc)))
Spec == Init /\ [][Emit]_<<sc, done>>

\* the family's tags are all covered by Surface!FoldTable and every document has 1..4 distinct (method, path) pairs
FamilyOK ==
  done =>
  LET d == Doc(sc) IN
  /\ Len(d.ops) \in 1..8
  /\ \A i, j \in DOMAIN d.ops : i # j => <<d.ops[i].method, d.ops[i].path>> # <<d.ops[j].method, d.ops[j].path>>
  /\ \A i \in DOMAIN d.ops : Len(d.ops[i].keys) = Len(d.ops[i].tags)
=============================================================================
