---------------------------- MODULE Trace_Wire ----------------------------
(***************************************************************************)
(* C04 monitor (total): judges every recorded call of a generated client   *)
(* method with Wire!Failures - the operator that judges the modelled       *)
(* request in the design run - and evaluates the as-is model of the code    *)
(* path (Wire!ModelFails) on the same call, so that the harness can tell   *)
(* whether the implementation-shaped model predicted what was observed.    *)
(*                                                                         *)
(*   trace == [id, op, sig : Seq(SigEntry),                                *)
(*             calls : Seq([cid, args : Seq([sup, leaves, canon]),         *)
(*                          r : request summary, suspects : Seq(Nat),      *)
(*                          want_expected : BOOLEAN])]                     *)
(*                                                                         *)
(* `sig` is the OBSERVED python signature bound to the declared parameters *)
(* by the harness (folded names, then position) - never by the sanitiser   *)
(* under test; whether the binding is right is decided here by value flow. *)
(* One VERDICT line per call.                                              *)
(***************************************************************************)
EXTENDS Wire, IOUtils

Traces == ndJsonDeserialize(IOEnv.TRACE_FILE)
NoOps == <<>>          \* Wire's Init is not used here
VARIABLES tid, cid, done

CallOf(t, k) == [op |-> t.op, sig |-> t.sig, plan |-> {}, args |-> t.calls[k].args, reqs |-> <<>>,
                 raised |-> [exc |-> t.calls[k].r.exc, msgclass |-> t.calls[k].r.msgclass], suspects |-> t.calls[k].suspects]

\* how often each clause's antecedent was true in this call (vacuity accounting)
Ante(c, r) ==
  LET sup(L) == Cardinality({i \in ParamArgs(c) : c.args[i].sup /\ PA(c, i).in = L})
      omitted == Cardinality({i \in ParamArgs(c) : ~c.args[i].sup}) IN
  [path |-> sup("path"), query |-> sup("query"), header |-> sup("header"), cookie |-> sup("cookie"), omitted |-> omitted,
   body |-> Cardinality({i \in BodyArgs(c) : c.args[i].sup}), sent |-> r.n, raised |-> IF r.exc # "" /\ r.n = 0 THEN 1 ELSE 0]

MInit ==
  /\ tid \in 1..Len(Traces)
  /\ cid \in 1..Len(Traces[tid].calls)
  /\ done = FALSE
  /\ call = CallOf(Traces[tid], cid) /\ pc = "monitor" /\ env = <<>> /\ req = Traces[tid].calls[cid].r /\ verdict = {}

MJudge ==
  /\ ~done /\ done' = TRUE
  /\ LET m == Run(call)
         \* attribution aid: when the as-is model predicted the very exception that was observed, its culprits name the locus
         r == IF req.n = 0 /\ req.exc # "" /\ m.pc # "dead" /\ m.req.exc = req.exc /\ m.req.msgclass = req.msgclass
                THEN [req EXCEPT !.blame = m.req.blame] ELSE req IN
       /\ verdict' = Failures(call, r)
       /\ PrintT("VERDICT " \o ToJson([id |-> Traces[tid].id, cid |-> Traces[tid].calls[cid].cid,
                                    fails |-> SetToSeq(verdict'),
                                    model_dead |-> m.pc = "dead",
                                    model |-> SetToSeq(IF m.pc = "dead" THEN {} ELSE Failures(call, m.req)),
                                    ante |-> Ante(call, req),
                                    \* the reference request itself, on demand: the harness corrupts it into negative traces
                                    expected |-> IF Traces[tid].calls[cid].want_expected THEN ExpectedRequest(call) ELSE NoReq]))
  /\ UNCHANGED <<tid, cid, call, pc, env, req>>

MSpec == MInit /\ [][MJudge]_<<vars, tid, cid, done>>
=============================================================================
