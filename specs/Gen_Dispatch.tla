---------------------------- MODULE Gen_Dispatch ----------------------------
(* Scenario generator of C06: every well-formed declaration (set of response keys of one operation) of at most
   MaxDecl members of DispatchCore!Universe with a choice of the response that the document lists first - the same
   operator (Scenarios) that spans the design check - and what the as-is model says about the emitted package
   (importable or not, which response is primary).  One SCEN line per (declaration, first). *)
EXTENDS DispatchCore, TLC, Json, SequencesExt
CONSTANTS MaxDecl, AllOrders
VARIABLES sc, done

Init == sc \in Scenarios(Universe, MaxDecl, AllOrders) /\ done = FALSE
Emit ==
  /\ ~done /\ done' = TRUE /\ UNCHANGED sc
  /\ PrintT("SCEN " \o ToJson([decl |-> SetToSeq(sc.d), first |-> sc.first, canonical |-> (sc.first = CanonFirst(sc.d)), rot |-> Rot(sc), core |-> Core(Universe, sc.d),
                               importable |-> Importable("as_is", sc.d), primary |-> Primary(sc.d, sc.first)]))
Spec == Init /\ [][Emit]_<<sc, done>>
=============================================================================
