---------------------------- MODULE Gen_Dispatch ----------------------------
(* Scenario generator of C06: every well-formed declaration (set of response keys of one operation) of at most
   MaxDecl members of DispatchCore!Universe - the same operator (DeclSets) that spans the design check - with
   what the as-is model says about the emitted package (importable or not).  One SCEN line per declaration. *)
EXTENDS DispatchCore, TLC, Json, SequencesExt
CONSTANTS MaxDecl
VARIABLES sc, done

Init == sc \in DeclSets(Universe, MaxDecl) /\ done = FALSE
Emit ==
  /\ ~done /\ done' = TRUE /\ UNCHANGED sc
  /\ PrintT("SCEN " \o ToJson([decl |-> SetToSeq(sc), importable |-> Importable("as_is", sc),
                               returns_value |-> ReturnsValue(sc)]))
Spec == Init /\ [][Emit]_<<sc, done>>
=============================================================================
