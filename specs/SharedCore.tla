----------------------------- MODULE SharedCore -----------------------------
(***************************************************************************)
(* C11 - clients sharing one core package keep working as more are         *)
(* generated.                                                              *)
(*                                                                         *)
(* Implementation-shaped model of what a sequence of `generate_client`     *)
(* calls into ONE project does to the exception aliases of the core        *)
(* package (emitters/exceptions_emitter.py, generator/client_generator.py):*)
(*                                                                         *)
(*  * every generation that is applied rewrites `exception_aliases.py` of  *)
(*    the core package it was told to use;                                 *)
(*  * `.exception_registry.json` (client package -> status codes) is only  *)
(*    consulted when `_is_shared_core(core_dir, client_package)` says so.  *)
(*    Since /repo 107e76a that is a test on the PACKAGE NAMES: the core is *)
(*    private exactly when it is the client package or a sub-package of it *)
(*    (the embedded layout), every other core - sibling, top-level, nested *)
(*    any number of packages deep - is shared and keeps the registry.      *)
(*    (Before 107e76a it was a test on the directory depth,                *)
(*    core_dir.parent == root \/ core_dir.parent.parent == root, which      *)
(*    missed a shared core three packages deep: findings C11-F1..F4.)      *)
(*    "Inside" is a relation on package PATHS (sequences of name         *)
(*    segments): p is inside q iff q is a segment-wise prefix of p.  The   *)
(*    names themselves are atoms here - whether `shop_core` happens to     *)
(*    start with `shop` as a STRING is invisible to the specification, so  *)
(*    the specification says that the spelling of the names must not       *)
(*    matter; the replay concretises the same layouts with unrelated and   *)
(*    with prefix-related names (the code may approximate the relation by  *)
(*    string operations on dotted names or directory paths).               *)
(*  * `if not force and out_dir.exists()` generates into a temp tree and   *)
(*    only compares - the project itself is never written on that path     *)
(*    (the step is "not applied", whether the comparison raises or not).   *)
(*                                                                         *)
(* Round 4: the project is also touched by the WORLD between two          *)
(* generator steps.  Environment steps (at most MaxEnv per history):       *)
(* Corrupt(kind) - the registry file gets merge-conflict markers / is      *)
(* emptied / truncated / gets a BOM (all: "unreadable"), becomes a JSON    *)
(* list, is deleted; exception_aliases.py is deleted or emptied - and      *)
(* Interrupted(c, codes, at) - a forced generation of c that dies right    *)
(* after open(registry, "w") or open(exception_aliases.py, "w").  As the   *)
(* code does it: json.load of an unreadable registry raises (the step      *)
(* FAILS visibly, after the force path already removed and re-created the  *)
(* client's package directory), `registry[client] = ...` on a list raises, *)
(* a missing registry is "no registry yet" (rebuilt from this client       *)
(* alone).  The property stays about generator steps (KeepsWorkingStep).   *)
(*                                                                         *)
(* A layout says where the packages live: `pkg[c]` is the path of client  *)
(* c's package, `core` the path of the one core package all clients are    *)
(* told to use (<<>> = no core_package argument: every client gets its     *)
(* embedded `<client>.core`); `depth` = Len(core) (0 = embedded) and `id`   *)
(* only name the layout.  Layouts used: core d packages deep (`core`,      *)
(* `a.core`, `a.b.core`, `a.b.c.core`) with clients that are siblings of   *)
(* the core (`a.c1`), one package below a sibling (`a.c1.api`) or in an    *)
(* unrelated branch (`c1` with `a.core`).                                  *)
(***************************************************************************)
EXTENDS Naturals, FiniteSets, Sequences

CONSTANTS
  Clients,    \* set of client identities (strings)
  CodeSets,   \* the sets of declared error statuses a generated spec may have (a set of sets of ints)
  Layouts,    \* set of layouts [id, depth, core : path, pkg : Clients -> path]
  MaxLen,     \* histories have at most MaxLen generate calls
  MaxEnv,     \* ... and at most MaxEnv environment steps
  EnvKinds    \* the environment step kinds explored (subset of CorruptKinds \cup {"int-registry", "int-aliases"})

VARIABLES
  layout,     \* the layout of this project (fixed along a behaviour)
  registry,   \* .exception_registry.json of the shared core: partial function Client -> SUBSET Codes
  aliases,    \* status codes that have a class in the shared core's exception_aliases.py
  needs,      \* Client -> SUBSET Codes: the alias classes the client's endpoint modules import
  generated,  \* clients whose package exists in the project
  priv,       \* embedded layout only: Client -> codes with a class in the client's private core
  n,          \* number of generate calls so far
  regstate,   \* the registry file: "absent" | "file" (readable JSON object) | "unreadable" | "list"
  nenv,       \* number of environment steps so far
  envkind     \* kind of the last environment step ("none" before the first)

vars == <<layout, registry, aliases, needs, generated, priv, n, regstate, nenv, envkind>>

RegistryUnreadable == {"conflict", "empty", "truncated", "bom"}
CorruptKinds == RegistryUnreadable \cup {"list", "reg-deleted", "aliases-deleted", "aliases-emptied"}

Codes == UNION CodeSets
Range(f) == {f[x] : x \in DOMAIN f}
NoRegistry == [x \in {} |-> {}]
depth == layout.depth

\* ---- the layout as a relation on package paths
Embedded == layout.core = <<>>
CorePath(c) == IF Embedded THEN layout.pkg[c] \o <<"core">> ELSE layout.core
\* p is q itself or a sub-package of q
Inside(p, q) == Len(q) <= Len(p) /\ SubSeq(p, 1, Len(q)) = q

\* exceptions_emitter.py:_is_shared_core(core_dir, client_package): the core is private exactly when
\* core_package == client_package \/ core_package starts with client_package + "."  (i.e. Inside), else shared
SharedDetected(c) == ~Inside(CorePath(c), layout.pkg[c])

\* client_generator.py: `if not force and out_dir.exists(): <temp tree + diff>` else direct generation
Applied(c, force) == force \/ c \notin generated

Init ==
  /\ layout \in Layouts
  /\ registry = NoRegistry
  /\ aliases = {}
  /\ needs = [c \in Clients |-> {}]
  /\ generated = {}
  /\ priv = [c \in Clients |-> {}]
  /\ n = 0
  /\ regstate = "absent"
  /\ nenv = 0
  /\ envkind = "none"

\* _update_registry: `if os.path.exists(p): registry = json.load(open(p))` then `registry[client] = sorted(codes)`
RegistryLoads == regstate \in {"absent", "file"}
Merged(c, codes) == [x \in DOMAIN registry \cup {c} |-> IF x = c THEN codes ELSE registry[x]]

Generate(c, codes, force, lid) ==
  /\ lid = layout.id
  /\ n < MaxLen
  /\ n' = n + 1
  /\ UNCHANGED <<layout, nenv, envkind>>
  /\ IF ~Applied(c, force)
     THEN UNCHANGED <<registry, aliases, needs, generated, priv, regstate>>
     ELSE /\ generated' = generated \cup {c}
          /\ IF Embedded
             THEN /\ needs' = [needs EXCEPT ![c] = codes]
                  /\ priv' = [priv EXCEPT ![c] = codes]      \* private core: rewritten from this client's spec only
                  /\ UNCHANGED <<registry, aliases, regstate>>
             ELSE /\ UNCHANGED priv
                  /\ IF SharedDetected(c)
                     THEN IF RegistryLoads
                          THEN /\ needs' = [needs EXCEPT ![c] = codes]
                               /\ registry' = Merged(c, codes)
                               /\ regstate' = "file"
                               /\ aliases' = UNION Range(Merged(c, codes))
                          ELSE \* the step FAILS visibly (JSONDecodeError / TypeError) before exception_aliases.py is
                               \* touched; the client's package directory was already removed and re-created empty
                               /\ needs' = [needs EXCEPT ![c] = {}]
                               /\ UNCHANGED <<registry, regstate, aliases>>
                     ELSE /\ needs' = [needs EXCEPT ![c] = codes]
                          /\ UNCHANGED <<registry, regstate>>
                          /\ aliases' = codes               \* exception_aliases.py rewritten from THIS spec only

\* ---- environment steps
Corrupt(kind) ==
  /\ ~Embedded /\ nenv < MaxEnv /\ kind \in EnvKinds
  /\ nenv' = nenv + 1 /\ envkind' = kind
  /\ UNCHANGED <<layout, needs, generated, priv, n>>
  /\ IF kind \in {"aliases-deleted", "aliases-emptied"}
     THEN /\ generated # {}                     \* the file exists
          /\ aliases' = {}
          /\ UNCHANGED <<registry, regstate>>
     ELSE /\ regstate = "file"
          /\ registry' = NoRegistry
          /\ regstate' = IF kind \in RegistryUnreadable THEN "unreadable" ELSE IF kind = "list" THEN "list" ELSE "absent"
          /\ UNCHANGED aliases

\* a forced generation of c killed right after open(<registry>, "w") / open(<exception_aliases.py>, "w")
Interrupted(c, codes, at) ==
  /\ ~Embedded /\ nenv < MaxEnv /\ at \in EnvKinds /\ SharedDetected(c) /\ RegistryLoads
  /\ nenv' = nenv + 1 /\ envkind' = at
  /\ UNCHANGED <<layout, priv, n>>
  /\ generated' = generated \cup {c}
  /\ needs' = [needs EXCEPT ![c] = {}]            \* its package was removed and re-created empty
  /\ IF at = "int-registry"
     THEN registry' = NoRegistry /\ regstate' = "unreadable" /\ UNCHANGED aliases   \* 0-byte registry
     ELSE registry' = Merged(c, codes) /\ regstate' = "file" /\ aliases' = {}       \* 0-byte exception_aliases.py

GenNext == \E c \in Clients, codes \in CodeSets, force \in BOOLEAN, l \in Layouts : Generate(c, codes, force, l.id)
EnvNext == \/ \E k \in CorruptKinds : Corrupt(k)
           \/ \E c \in Clients, codes \in CodeSets, at \in {"int-registry", "int-aliases"} : Interrupted(c, codes, at)
Next == GenNext \/ EnvNext

Spec == Init /\ [][Next]_vars

----------------------------------------------------------------------------
TypeOK ==
  /\ layout \in Layouts
  /\ DOMAIN registry \subseteq Clients
  /\ \A c \in DOMAIN registry : registry[c] \subseteq Codes
  /\ aliases \subseteq Codes
  /\ needs \in [Clients -> SUBSET Codes]
  /\ priv \in [Clients -> SUBSET Codes]
  /\ generated \subseteq Clients
  /\ n \in 0..MaxLen
  /\ regstate \in {"absent", "file", "unreadable", "list"}
  /\ nenv \in 0..MaxEnv
  /\ regstate # "file" => registry = NoRegistry

\* the layouts of this model: all clients are told to use the same core, and it is outside every client package
\* (or every client has its own embedded core)
LayoutOK == Embedded \/ \A c \in Clients : ~Inside(layout.core, layout.pkg[c])

\* the alias classes a client can import from the core package it uses
Visible(c) == IF Embedded THEN priv[c] ELSE aliases

(* C11: every client generated so far still finds every alias class it imports (as long as the world kept its hands off). *)
ServedC(c) == needs[c] \subseteq Visible(c)
Served == nenv = 0 => \A c \in generated : ServedC(c)

(* C11 as a step property: a generation never removes an alias that a client whose code did not change uses. *)
NeverShrinksNeededStep ==
  \A c \in generated : needs'[c] = needs[c] => (needs[c] \cap Visible(c)) \subseteq Visible(c)'
IsGenStep == n' = n + 1
NeverShrinksNeeded == [][(IsGenStep /\ nenv' = 0) => NeverShrinksNeededStep]_vars

(* ... and the same for the generator steps that follow an environment step: whether the step succeeds or fails *)
(* visibly, every client that worked before it (and was not the one being generated) still works after it.      *)
KeepsWorkingStep == \A c \in generated : (needs'[c] = needs[c] /\ ServedC(c)) => ServedC(c)'
KeepsWorking == [][IsGenStep => KeepsWorkingStep]_vars

(* the mechanism (without interference): whenever the core is shared the registry knows every generated client *)
RegistryKeepsClients ==
  (~Embedded /\ nenv = 0) => \A c \in generated : SharedDetected(c) => (c \in DOMAIN registry /\ needs[c] \subseteq registry[c])

(* with a registry the aliases are exactly the union over the registered clients *)
AliasesAreUnion == (~Embedded /\ nenv = 0 /\ \A c \in Clients : SharedDetected(c)) => aliases = UNION Range(registry)
=============================================================================
