--------------------------- MODULE Trace_Surface ---------------------------
(***************************************************************************)
(* C07 / C13 monitor (total): one recorded surface per document            *)
(*   [id, status, strategy, rendering, ops, apiattrs, apiprops, mockok,    *)
(*    mockprops, clients : Seq(client record)]                             *)
(* built by harness/surfacepipe.py from the observations `surface`,        *)
(* `wire` (which (method, path) every client method REQUESTS - methods are *)
(* never identified with operations by name), `mockcall` and `surfacex`.   *)
(* Every trace yields exactly one VERDICT line carrying the failing        *)
(* clauses of Surface!JudgeC07 / Surface!JudgeC13 and how often each       *)
(* clause's antecedent was true.  status "rejected" (generation raised: a  *)
(* visible failure) and "noimport" (C01's domain) are consumed and not     *)
(* judged by C07; C13 still compares the emitted text of a package whose   *)
(* client module does not import.                                          *)
(***************************************************************************)
EXTENDS Surface, Json, IOUtils

CONSTANT Prop     \* "C07" | "C13"

Traces == ndJsonDeserialize(IOEnv.TRACE_FILE)
VARIABLES tid, done

Init == tid \in 1..Len(Traces) /\ done = FALSE
Judge ==
  /\ ~done /\ done' = TRUE /\ UNCHANGED tid
  /\ LET t == Traces[tid] IN
       IF Prop = "C07"
         THEN PrintT("VERDICT " \o ToJson([id |-> t.id, status |-> t.status, fails |-> SetToSeq(JudgeC07(t)), ante |-> AnteC07(t)]))
         ELSE PrintT("VERDICT " \o ToJson([id |-> t.id, status |-> t.status, fails |-> SetToSeq(JudgeC13(t)), ante |-> AnteC13(t)]))
Spec == Init /\ [][Judge]_<<tid, done>>
=============================================================================
