----------------------------- MODULE Gen_Alloc -----------------------------
(* Scenario generator for C20 (ii): every allocation order (sequence without repetition) of length 1..MaxLen
   drawn from one colliding family, placed into each namespace kind.  One line "SCEN {...}" per scenario. *)
EXTENDS Naturals, Sequences, FiniteSets, TLC, Json
CONSTANTS MaxLen, NsKinds, TagLen, EnumLen, EnumBig
VARIABLES sc, done

Families == [ collide  |-> {"a-b", "a_b", "aB", "a b", "A_B"},
              digits   |-> {"1", "_1", "01"},
              symbols  |-> {"$", "%", ""},
              keywords |-> {"class", "Class", "class_"},
              suffix   |-> {"v", "V", "v_2", "V2", "v_1", "v_2_2"},
              \* "{FB01}" stands for the code point U+FB01 (the harness decodes it): names that are different strings
              \* but ONE identifier after the interpreter's NFKC normalisation (ligature fi, full-width f)
              nfkc     |-> {"file", "{FB01}le", "{FF46}ile"} ]

InjSeqs(S, k) == {q \in [1..k -> S] : \A i, j \in 1..k : i # j => q[i] # q[j]}
\* the operation de-duplication runs twice on the generation path, so an operationId clash needs one more name
Bound(f, n) == IF f = "suffix" /\ n = "ops" THEN MaxLen + 1 ELSE MaxLen
Orders(f, n) == UNION {InjSeqs(Families[f], k) : k \in 1..Bound(f, n)}

Plain == UNION {UNION {{[ns |-> n, family |-> f, names |-> q, tags |-> <<>>] : q \in Orders(f, n)} : n \in NsKinds}
                  : f \in DOMAIN Families}

\* "tagops": an operation is emitted into the client class of EVERY one of its tags, so the namespace is "all operations
\* emitted into one client class".  Colliding operationIds reach the client of tag T through different tag positions
\* (first tag, second tag, shared second tag); at least one operation is multi-tagged (all-[T] is the "ops" kind).
TagShapes(k)  == IF k = 2 THEN {<<"T">>, <<"U", "T">>, <<"T", "U">>, <<"V", "T">>}
                 ELSE {<<"T">>, <<"U", "T">>, <<"T", "U">>}
TagFamilies   == {"collide", "keywords"}
TagAssign(k)  == {tg \in [1..k -> TagShapes(k)] : \E i \in 1..k : Len(tg[i]) > 1}
TagOps == UNION {UNION {{[ns |-> "tagops", family |-> f, names |-> q, tags |-> SubSeq(tg, 1, k)]
                            : q \in InjSeqs(Families[f], k), tg \in TagAssign(k)} : k \in 2..TagLen}
                   : f \in TagFamilies}

\* the {a, a', s} triple (two names deriving one identifier + the name that derives the suffixed identifier) reaches one
\* client through different tag positions at EVERY tier (the other tagops triples only when TagLen >= 3)
SuffixCore == {"v", "V", "v_2"}
TagOpsCore == {[ns |-> "tagops", family |-> "suffix", names |-> q, tags |-> SubSeq(tg, 1, 3)]
                 : q \in InjSeqs(SuffixCore, 3), tg \in TagAssign(3)}

\* "tags": the names are TAGS (one operation each); the namespace is the set of client classes / endpoint modules /
\* APIClient attributes.  Tags that differ only in case / separators share one client BY DESIGN (normalize_tag_key), so
\* only totality is judged: the operation of every tag must end up in some client class.
TagNames == UNION {{[ns |-> "tags", family |-> f, names |-> q, tags |-> <<>>]
                      : q \in UNION {InjSeqs(Families[f], k) : k \in 1..2}} : f \in DOMAIN Families}
            \cup {[ns |-> "tags", family |-> "suffix", names |-> q, tags |-> <<>>] : q \in InjSeqs(SuffixCore, 3)}

\* "enumvals": the members of one enum are fed by JSON VALUES, not only by strings.  A value is written "<type>:<text>"
\* (b bool, i integer, n number, s string, z null; the harness decodes it).  The lists mix JSON types whose host-language
\* values compare equal or hash alike (true / 1 / 1.0 / "1" / "true" / "True", false / 0 / 0.0 / -0.0 / "0" / "" / null,
\* a large integer and the float of the same magnitude) and contain repeated values; distinctness is judged on type AND value.
EnumStrVals == {"b:true", "b:false", "i:1", "i:0", "n:1.0", "n:0.0", "n:-0.0", "s:1", "s:0", "s:true", "s:True", "s:", "z:null"}
                 \cup (IF EnumBig THEN {"i:9007199254740992", "n:9007199254740992.0"} ELSE {})
EnumIntVals == {"b:true", "b:false", "i:1", "i:0", "i:2", "n:1.0", "s:1"}
Lists(S, m) == UNION {[1..k -> S] : k \in 1..m}
EnumVals == {[ns |-> "enumvals", family |-> "string", names |-> q, tags |-> <<>>] : q \in Lists(EnumStrVals, EnumLen)}
            \cup {[ns |-> "enumvals", family |-> "integer", names |-> q, tags |-> <<>>] : q \in Lists(EnumIntVals, EnumLen)}

Init == /\ sc \in Plain \cup TagOps \cup TagOpsCore \cup TagNames \cup EnumVals
        /\ done = FALSE
Emit == /\ ~done
        /\ done' = TRUE
        /\ UNCHANGED sc
        /\ PrintT("SCEN " \o ToJson([ns |-> sc.ns, family |-> sc.family,
                                     names |-> SubSeq(sc.names, 1, Len(sc.names)), tags |-> sc.tags]))
Spec == Init /\ [][Emit]_<<sc, done>>
=============================================================================
