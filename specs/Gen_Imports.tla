----------------------------- MODULE Gen_Imports -----------------------------
(* Scenario generator of X03: for every context of every tree (ImportsCore!ContextsOf - the family the design check  *)
(* spans) every single call of the pool, NPairs random pairs and NTriples random triples of calls, with every      *)
(* renderer of the API, and EVERY pair that asks for one name twice (from two modules / through two methods).    *)
(* One TREE line per tree (the modules the worker materialises), one SCEN line per scenario. *)
EXTENDS ImportsCore, Json, Randomization
CONSTANTS OutPkgs, NPairs, NTriples
VARIABLES sc, done

Contexts == UNION {ContextsOf(o, BOOLEAN) : o \in OutPkgs}
Pick(n, S) == RandomSubset(Min2(n, Cardinality(S)), S)
\* pairs that ask for the same name from two modules, or for the same (module, name) through two different methods
Interact(cx, a, b) == \E ra \in Intent(cx, a), rb \in Intent(cx, b) : ra.n = rb.n /\ ra.n # "" /\ (ra.t # rb.t \/ a.op # b.op)
CallSets(cx) == LET P2 == kSubset(2, Pool(cx)) IN
                {{c} : c \in Pool(cx)} \cup {p \in P2 : \E a \in p, b \in p : a # b /\ Interact(cx, a, b)}
                \cup Pick(NPairs, P2) \cup Pick(NTriples, kSubset(3, Pool(cx)))
Scen(cx, cs, r) == [out |-> cx.tree.out, kind |-> cx.tree.kind, api |-> cx.api, where |-> cx.where, cur |-> cx.cur,
                    curpkg |-> cx.curpkg, mat |-> cx.mat, calls |-> SetToSeq(cs), render |-> r]
Scenarios == UNION {{Scen(cx, cs, r) : cs \in CallSets(cx), r \in Renders(cx)} : cx \in Contexts}

ASSUME \A o \in OutPkgs : \A k \in CoreKinds(o) :
         PrintT("TREE " \o ToJson([out |-> o, kind |-> k, core |-> CoreOf(o, k), mods |-> SetToSeq(MkTree(o, k).mods)]))

\* what the spec takes for Python's typing names among the names the type strings mention (the harness compares it with
\* typing.__all__ of the interpreter, and the free names with Python's own parse of the text)
ASSUME PrintT("CONST " \o ToJson([pytyping |-> SetToSeq(PyTyping \cap UNION {ty[2] : ty \in Types}),
                                  types |-> SetToSeq({[text |-> ty[1], ids |-> SetToSeq(ty[2]), quals |-> SetToSeq(ty[3])] : ty \in Types})]))

Init == sc \in Scenarios /\ done = FALSE
Emit == ~done /\ done' = TRUE /\ UNCHANGED sc /\ PrintT("SCEN " \o ToJson(sc))
Spec == Init /\ [][Emit]_<<sc, done>>
=============================================================================
