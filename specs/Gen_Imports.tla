----------------------------- MODULE Gen_Imports -----------------------------
(* Scenario generator of X03: for every context of every tree (ImportsCore!ContextsOf - the family the design check  *)
(* spans) every single call of the pool, NPairs random pairs and NTriples random triples of calls, with every      *)
(* renderer of the API.  One TREE line per tree (the modules the worker materialises), one SCEN line per scenario. *)
EXTENDS ImportsCore, Json, Randomization
CONSTANTS OutPkgs, NPairs, NTriples
VARIABLES sc, done

Contexts == UNION {ContextsOf(o) : o \in OutPkgs}
Pick(n, S) == RandomSubset(Min2(n, Cardinality(S)), S)
CallSets(cx) == {{c} : c \in Pool(cx)} \cup Pick(NPairs, kSubset(2, Pool(cx))) \cup Pick(NTriples, kSubset(3, Pool(cx)))
Scen(cx, cs, r) == [out |-> cx.tree.out, kind |-> cx.tree.kind, api |-> cx.api, where |-> cx.where, cur |-> cx.cur,
                    curpkg |-> cx.curpkg, mat |-> cx.mat, calls |-> SetToSeq(cs), render |-> r]
Scenarios == UNION {{Scen(cx, cs, r) : cs \in CallSets(cx), r \in Renders(cx)} : cx \in Contexts}

ASSUME \A o \in OutPkgs : \A k \in CoreKinds(o) :
         PrintT("TREE " \o ToJson([out |-> o, kind |-> k, core |-> CoreOf(o, k), mods |-> SetToSeq(MkTree(o, k).mods)]))

Init == sc \in Scenarios /\ done = FALSE
Emit == ~done /\ done' = TRUE /\ UNCHANGED sc /\ PrintT("SCEN " \o ToJson(sc))
Spec == Init /\ [][Emit]_<<sc, done>>
=============================================================================
