--------------------------- MODULE Trace_RenderAst ---------------------------
(* X02, second layer, monitor: one record [id, in, out] per rendered construct (out = the facts Python's parser
   found, harness/w_render.py); one VERDICT per record naming the first statement of RenderAst.tla that fails. *)
EXTENDS RenderAst, Json, IOUtils
Traces == ndJsonDeserialize(IOEnv.TRACE_FILE)
VARIABLES tid, done
Init == tid \in 1..Len(Traces) /\ done = FALSE
Fin == /\ ~done /\ done' = TRUE /\ UNCHANGED tid
       /\ LET x == Traces[tid] IN
          \A v \in {Judge(x)} :
            PrintT("VERDICT " \o ToJson([id |-> x.id, clause |-> v, locus |-> [construct |-> x.in.kind, at |-> IF v = "X02.render_trailing_blanks" THEN x.out.trailing ELSE x.out.at]]))
Spec == Init /\ [][Fin]_<<tid, done>>
=============================================================================
