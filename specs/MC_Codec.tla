------------------------------ MODULE MC_Codec ------------------------------
(***************************************************************************)
(* Design model of the hook REGISTRY: every interleaving of <= MaxLen      *)
(* structure_from_dict / unstructure_to_dict calls over types that share   *)
(* the nested class D:                                                     *)
(*   A { inner : D }   B { items : Optional[List[D]], count : int }   D    *)
(*   (+ list[D] as a structure target, + one non-conforming argument)      *)
(* Invariants: HistoryIndependent (a call's result never depends on the    *)
(* calls before it), LawsInEveryState.  Design = "top_only" (hooks for the *)
(* top class only) and Design = "by_name" (structure function cached under *)
(* the class NAME, Extra "twin" adds a distinct class sharing D's name) are*)
(* defective designs: TLC must refute HistoryIndependent for both (the     *)
(* harness insists on that).                                               *)
(* Each maximal history is printed (HIST) with the results the design       *)
(* predicts; the harness runs it against the real module-global converter. *)
(***************************************************************************)
EXTENDS Codec, Json
CONSTANTS DStyle, AStyle, MaxLen, Design, Extra   \* Design: "ok" | "top_only" | "by_name"; Extra: subset of {"list", "bad", "second", "twin", "hier", "nobase"}
VARIABLES results
mvars == <<hooks, hist, last, results>>

DCls == [meta |-> StyleMeta[DStyle], extends |-> "", pyname |-> "", where |-> "module",
         fields |-> <<Fld(PyName("D", DStyle, 1), WireName("D", DStyle, 1), LeafT("int"), TRUE),
                      Fld(PyName("D", DStyle, 2), WireName("D", DStyle, 2), LeafT("str"), FALSE)>>]
ACls == [meta |-> StyleMeta[AStyle], extends |-> "", pyname |-> "", where |-> "module",
         fields |-> <<Fld(PyName("A", AStyle, 1), WireName("A", AStyle, 1), ClsT("D"), TRUE)>>]
BCls == [meta |-> StyleMeta[AStyle], extends |-> "", pyname |-> "", where |-> "module",
         fields |-> <<Fld(PyName("A", AStyle, 2), WireName("A", AStyle, 2), ListT(ClsT("D")), FALSE),
                      Fld(PyName("A", AStyle, 3), WireName("A", AStyle, 3), LeafT("int"), TRUE)>>]
\* "twin": Dx is a DIFFERENT class that shares D's python name (other keys, other field set)
TwinStyle == IF DStyle = "kw" THEN "camel" ELSE "kw"
DxCls == [meta |-> StyleMeta[TwinStyle], extends |-> "", pyname |-> "D", where |-> "module",
          fields |-> <<Fld(PyName("D", TwinStyle, 1), WireName("D", TwinStyle, 1), LeafT("int"), TRUE),
                       Fld(PyName("D", TwinStyle, 3), WireName("D", TwinStyle, 3), LeafT("date"), FALSE)>>]
\* "hier": a class hierarchy H <- Hs (extended Meta, one more mapped field), H <- Ht (sibling: own Meta, overrides
\* H's second field); calls on the base, the subclass and the sibling in every order.  "nobase": leave out A/B/D calls
HCls  == [meta |-> StyleMeta[AStyle], extends |-> "", pyname |-> "", where |-> "module",
          fields |-> <<Fld(PyName("A", AStyle, 1), WireName("A", AStyle, 1), LeafT("str"), TRUE),
                       Fld(PyName("A", AStyle, 2), WireName("A", AStyle, 2), LeafT("int"), FALSE)>>]
HsCls == [meta |-> "extend", extends |-> "H", pyname |-> "", where |-> "module", mixin |-> FALSE,
          fields |-> <<Fld(PyName("E", "camel", 1), WireName("E", "camel", 1), LeafT("date"), FALSE)>>]
HtCls == [meta |-> "own", extends |-> "H", pyname |-> "", where |-> "module", mixin |-> TRUE,
          fields |-> <<Fld(PyName("E", "kw", 1), WireName("E", "kw", 1), LeafT("bool"), FALSE),
                       Fld(PyName("A", AStyle, 2), WireName("A", AStyle, 2), LeafT("str"), FALSE)>>]
MCcl == [n \in {"A", "B", "D"} \cup (IF "twin" \in Extra THEN {"Dx"} ELSE {}) \cup (IF "hier" \in Extra THEN {"H", "Hs", "Ht"} ELSE {}) |->
           IF n = "A" THEN ACls ELSE IF n = "B" THEN BCls ELSE IF n = "D" THEN DCls ELSE IF n = "Dx" THEN DxCls
           ELSE IF n = "H" THEN HCls ELSE IF n = "Hs" THEN HsCls ELSE HtCls]
RegisterNested == Design # "top_only"

MCflat == Flat(MCcl)   \* hierarchies resolved once (constant)

Types == <<ClsT("A"), ClsT("B"), ClsT("D")>>
S(T, m) == [op |-> "S", ty |-> T, arg |-> Rep(MCflat, T, m)]
U(T, m) == [op |-> "U", ty |-> T, arg |-> Decode(MCflat, T, Rep(MCflat, T, m))]
BadArg == LET ms == {m \in Mutants(MCflat, ClsT("A")) : m.what = "missing" /\ Len(FieldSteps(m.steps)) = 2}
          IN (CHOOSE m \in ms : TRUE).j
Calls0 == (IF "nobase" \in Extra THEN <<>>
           ELSE <<S(Types[1], 1), U(Types[1], 1), S(Types[2], 1), U(Types[2], 1), S(Types[3], 1), U(Types[3], 1)>>)
          \o (IF "hier" \in Extra THEN <<S(ClsT("H"), 1), U(ClsT("H"), 1), S(ClsT("Hs"), 1), U(ClsT("Hs"), 1),
                                          S(ClsT("Ht"), 1), U(ClsT("Ht"), 1)>> ELSE <<>>)
          \o (IF "list" \in Extra THEN <<S(ListT(ClsT("D")), 1)>> ELSE <<>>)
          \o (IF "bad" \in Extra THEN <<[op |-> "S", ty |-> ClsT("A"), arg |-> BadArg]>> ELSE <<>>)
          \o (IF "second" \in Extra THEN <<S(Types[2], 2), U(Types[1], 2)>> ELSE <<>>)
          \o (IF "twin" \in Extra THEN <<S(ClsT("Dx"), 1), U(ClsT("Dx"), 1)>> ELSE <<>>)
MCCalls == [i \in 1..Len(Calls0) |-> [id |-> i, op |-> Calls0[i].op, ty |-> Calls0[i].ty, arg |-> Calls0[i].arg]]
CallSet == {MCCalls[i] : i \in 1..Len(MCCalls)}

ASSUME PrintT("SCEN " \o ToJson([classes |-> WithBuild(MCcl), calls |-> MCCalls]))

Init == RegInit /\ results = <<>>
EmitWhenComplete == Len(hist') = MaxLen => PrintT("HIST " \o ToJson([h |-> hist', exp |-> results']))
DoStructure ==
  /\ Len(hist) < MaxLen
  /\ \E i \in 1..Len(MCCalls) :
        /\ (IF Design = "by_name" THEN StructureByName(MCflat, CallSet, MCCalls[i]) ELSE Structure(MCflat, MCCalls[i], RegisterNested))
        /\ results' = Append(results, last'.res)
  /\ EmitWhenComplete
DoUnstructure ==
  /\ Len(hist) < MaxLen
  /\ \E i \in 1..Len(MCCalls) : Unstructure(MCflat, MCCalls[i], RegisterNested) /\ results' = Append(results, last'.res)
  /\ EmitWhenComplete
Next == DoStructure \/ DoUnstructure
Spec == Init /\ [][Next]_mvars

InvHistoryIndependent == HistoryIndependent(MCflat, CallSet)

\* the round-trip law for every conforming structure call, in the registry state that call would find
LawsInEveryState ==
  \A c \in {x \in CallSet : x.op = "S" /\ x.ty.k = "cls" /\ Conforms(MCflat, x.arg, x.ty)} :
     LET hs == hooks \cup {<<"s", n>> : n \in Targets(MCflat, c.ty, RegisterNested)}
         hu == hs \cup {<<"u", n>> : n \in Targets(MCflat, c.ty, RegisterNested)}
         v  == Dec(MCflat, Registered(MCflat, "s", hs), c.ty, c.arg)
     IN ~IsErr(v) /\ RoundTripOK(MCflat, c.ty, c.arg, Enc(MCflat, Registered(MCflat, "u", hu), c.ty, v))

PropHooksOnlyGrow == [][hooks \subseteq hooks']_mvars
=============================================================================
