----------------------------- MODULE Gen_Wire -----------------------------
(***************************************************************************)
(* C04 - the operation family.  Running Wire's machine with Ops <- Family  *)
(* is at once the design check over the family (DESIGN lines: what the     *)
(* modelled code path gets wrong) and the scenario generator (one SCEN     *)
(* line per operation, with the signature the model expects).              *)
(*                                                                         *)
(* One operation per scenario.  Dimensions: method {GET,POST,PUT,PATCH,    *)
(* DELETE}; parameters drawn from (location x required) = {path,           *)
(* query R/O, header R/O, cookie R/O} x type {str,int,bool,enum,date,      *)
(* datetime,array-of-str} x name shape {plain `limit`, kebab `page-size`,  *)
(* camel `pageSize`, keyword `class`, `url`, `params`, `headers`, `body`,  *)
(* `id`} x declared at path level / operation level; body in {none, JSON   *)
(* model, JSON primitive (str/int/bool), JSON array of models, JSON        *)
(* free-form object, form, multipart, octet, two content types}; the JSON  *)
(* bodies of stratum B are optional for (a+b+r) % 4 = 0.  The full product is far too large, so the family is a          *)
(* deterministic STRATIFIED selection (no randomness):                     *)
(*                                                                         *)
(*  A  one parameter, no body: (loc/req, shape, type, level) with          *)
(*     (a+b+c) % 3 = 0 - every (loc/req, shape), (loc/req, type) and       *)
(*     (shape, type) pair occurs, at both levels; method rotates           *)
(*  B  one parameter x every body kind: all (loc/req, shape, body kind);   *)
(*     type / level / method(POST,PUT,PATCH) / body-required rotate        *)
(*  C  two parameters: unordered pairs of (loc/req, shape) - no two with   *)
(*     the same location and shape - with (a1+b1+a2+b2) % 4 = 0; types,    *)
(*     levels, body kind and method rotate                                 *)
(*  D  three parameters: three different (loc/req) kinds, shapes (b1, b2)  *)
(*     free and b3 = (b1 + 2 b2 + a1) % 9 + 1 (an orthogonal array over    *)
(*     the shapes), names that fold to three different identifiers, with   *)
(*     (b1+b2+a1+a2+a3) % 6 = 0                                            *)
(*  E  one parameter declared at path level AND repeated at operation      *)
(*     level (the override case): all (loc/req, shape)                     *)
(*                                                                         *)
(* thorough: A complete, B x 6 type rotations, C all pairs x 3 rotations,  *)
(* D all (b1, b2) x 4 rotations, E x every type, and                       *)
(*  F  four parameters: four different (loc/req) kinds, shapes (b1, b2)    *)
(*     free, b3 / b4 derived, four different folded names, 8 rotations.    *)
(*  G  (both tiers) path items SHARED by 2-3 operations (one path, several  *)
(*     methods, two path-level parameters): quick (a+b) % 3 = 0, thorough  *)
(*     all x 3 rotations.  In every stratum the rendering of path-level    *)
(*     parameters rotates: inline / $ref, before / after the method keys.  *)
(* mini (design checks with real invariants): thin slices of A, B, C, E.   *)
(*                                                                         *)
(* Excluded (stated): array-typed path parameters (the property gives      *)
(* their substitution no single meaning), bodies on GET / DELETE.          *)
(***************************************************************************)
EXTENDS Wire

CONSTANT Tier     \* "mini" | "quick" | "thorough"

LocReq == << [in |-> "path", req |-> TRUE], [in |-> "query", req |-> TRUE], [in |-> "query", req |-> FALSE],
             [in |-> "header", req |-> TRUE], [in |-> "header", req |-> FALSE], [in |-> "cookie", req |-> TRUE], [in |-> "cookie", req |-> FALSE] >>
ShapeSeq == <<"plain", "kebab", "camel", "keyword", "url", "params", "headers", "body", "id">>
TypeSeq == <<"str", "int", "bool", "enum", "date", "datetime", "array">>
LevelSeq == <<"op", "path">>
MethodSeq == <<"GET", "POST", "PUT", "PATCH", "DELETE">>
BodyMethods == <<"POST", "PUT", "PATCH">>
BodySeq == <<"none", "json_model", "json_prim", "json_array", "json_map", "form", "multipart", "octet", "other", "two">>
PrimSeq == <<"str", "int", "bool">>
MediaSeq == <<"text/csv", "application/xml", "image/png", "application/pdf", "text/plain", "application/vnd.x+json">>
NA == 7   NB == 9   NC == 7   NK == 10

Valid(a, c) == ~(LocReq[a].in = "path" /\ TypeSeq[c] = "array")
TypeFor(a, c) == IF Valid(a, c) THEN TypeSeq[c] ELSE "str"
P(a, b, c, lv) == MkParam(LocReq[a].in, LocReq[a].req, TypeFor(a, c), ShapeSeq[b], LevelSeq[lv])
\* the merged order of the loader: path-level declarations first
Ord(ps) == SelectSeq(ps, LAMBDA p : p.level = "path") \o SelectSeq(ps, LAMBDA p : p.level = "op")
Body(k, required) == [kind |-> BodySeq[k], required |-> required, ptype |-> "", media |-> ""]
\* the JSON primitive body rotates over string / integer / boolean, the "other" body over six media types
WithPrim(b, n) == IF b.kind = "json_prim" THEN [b EXCEPT !.ptype = PrimSeq[(n % 3) + 1]]
                  ELSE IF b.kind = "other" THEN [b EXCEPT !.media = MediaSeq[(n % 6) + 1]] ELSE b
\* how the document renders path-level parameters rotates as well (inline / $ref, before / after the method keys)
Rend(o, n) == [o EXCEPT !.pref = (n % 2 = 1), !.pafter = ((n \div 2) % 2 = 1)]
MethodFor(k, n) == IF k = 1 THEN MethodSeq[(n % 5) + 1] ELSE BodyMethods[(n % 3) + 1]
S(n) == ToString(n)
SameSpot(a1, b1, a2, b2) == LocReq[a1].in = LocReq[a2].in /\ b1 = b2
\* `page-size` and `pageSize` fold to the same identifier; in the strata D and F all names fold differently (operations whose
\* arguments collide do not compile - C01's finding; the pair stratum C and E keep those cases)
FoldIdx(b) == IF ShapeSeq[b] = "camel" THEN 2 ELSE b
Apart(bs) == \A i, j \in DOMAIN bs : i < j => FoldIdx(bs[i]) # FoldIdx(bs[j])

FamA(full) ==
  {Rend(MkOp("a" \o S(a) \o "x" \o S(b) \o "x" \o S(c) \o "x" \o S(lv), MethodSeq[((a + b + c + lv) % 5) + 1], <<P(a, b, c, lv)>>, Body(1, FALSE)), a + c) :
     <<a, b, c, lv>> \in {t \in (1..NA) \X (1..NB) \X (1..NC) \X (1..2) : Valid(t[1], t[3]) /\ (full \/ (t[1] + t[2] + t[3]) % 3 = 0)}}

FamB(rots) ==
  {LET a == t[1]  b == t[2]  k == t[3]  r == t[4]  c == ((a + b + k + 2 * r) % NC) + 1  lv == ((a + k + r) % 2) + 1 IN
   Rend(MkOp("b" \o S(a) \o "x" \o S(b) \o "x" \o S(k) \o "x" \o S(r), MethodFor(k, a + b + k + r), <<P(a, b, c, lv)>>,
             WithPrim(Body(k, ~(k \in 2..5 /\ (a + b + r) % 4 = 0)), a + r)), b + k) :
     t \in (1..NA) \X (1..NB) \X (2..NK) \X (0..(rots - 1))}

PairIdx(a, b) == (a - 1) * NB + b
FamC(mod, rots) ==
  {LET a1 == t[1]  b1 == t[2]  a2 == t[3]  b2 == t[4]  r == t[5]
       c1 == ((a1 + b2 + 3 * r) % NC) + 1  c2 == ((a2 + b1 + 3 + 5 * r) % NC) + 1
       l1 == ((a1 + b1 + r) % 2) + 1  l2 == ((a2 + b2 + a1) % 2) + 1
       k == ((((a1 + a2 + b1 + b2) \div 4) + 3 * r) % NK) + 1 IN
   MkOp("c" \o S(a1) \o "x" \o S(b1) \o "x" \o S(a2) \o "x" \o S(b2) \o "x" \o S(r), MethodFor(k, a1 + b2 + r),
        Ord(<<P(a1, b1, c1, l1), P(a2, b2, c2, l2)>>), WithPrim(Body(k, TRUE), a1 + b2)) :
     t \in {u \in (1..NA) \X (1..NB) \X (1..NA) \X (1..NB) \X (0..(rots - 1)) :
              /\ PairIdx(u[1], u[2]) < PairIdx(u[3], u[4])
              /\ ~SameSpot(u[1], u[2], u[3], u[4])
              /\ (u[1] + u[2] + u[3] + u[4]) % mod = 0}}

Triples == {u \in (1..NA) \X (1..NA) \X (1..NA) : u[1] < u[2] /\ u[2] < u[3]}
FamD(mod, rots) ==
  {LET a1 == t[1][1]  a2 == t[1][2]  a3 == t[1][3]  b1 == t[2]  b2 == t[3]  r == t[4]
       b3 == ((b1 + 2 * b2 + a1) % NB) + 1
       c(a, b, i) == ((a + b + i + 3 * r) % NC) + 1
       l(a, b) == ((a + b + r) % 2) + 1
       k == ((a1 + b1 + b2 + 5 * r) % NK) + 1 IN
   MkOp("d" \o S(a1) \o S(a2) \o S(a3) \o "x" \o S(b1) \o "x" \o S(b2) \o "x" \o S(r), MethodFor(k, a2 + b1 + r),
        Ord(<<P(a1, b1, c(a1, b1, 1), l(a1, b1)), P(a2, b2, c(a2, b2, 2), l(a2, b2)), P(a3, b3, c(a3, b3, 3), l(a3, b3))>>), WithPrim(Body(k, TRUE), a2 + b1)) :
     t \in {u \in Triples \X (1..NB) \X (1..NB) \X (0..(rots - 1)) :
              LET b3 == ((u[2] + 2 * u[3] + u[1][1]) % NB) + 1 IN
              /\ Apart(<<u[2], u[3], b3>>)
              /\ (u[2] + u[3] + u[1][1] + u[1][2] + u[1][3]) % mod = 0}}

FamE(types) ==
  {LET a == t[1]  b == t[2]  c == IF types = 1 THEN ((a + b) % NC) + 1 ELSE t[3] IN
   Rend(MkOp("e" \o S(a) \o "x" \o S(b) \o "x" \o S(c), MethodSeq[((a + b) % 5) + 1], <<P(a, b, c, 2), P(a, b, c, 1)>>, Body(1, FALSE)), a + b) :
     t \in {u \in (1..NA) \X (1..NB) \X (1..types) : types = 1 \/ Valid(u[1], u[3])}}

Quads == {u \in (1..NA) \X (1..NA) \X (1..NA) \X (1..NA) : u[1] < u[2] /\ u[2] < u[3] /\ u[3] < u[4]}
FamF(rots) ==
  {LET a == t[1]  b1 == t[2]  b2 == t[3]  r == t[4]
       b3 == ((b1 + 2 * b2 + a[1]) % NB) + 1  b4 == ((2 * b1 + b2 + a[2] + r) % NB) + 1
       bb == <<b1, b2, b3, b4>>
       c(i) == ((a[i] + bb[i] + i + 3 * r) % NC) + 1
       l(i) == ((a[i] + bb[i] + r) % 2) + 1
       k == ((a[1] + b1 + b2 + 3 * r) % NK) + 1 IN
   MkOp("f" \o S(a[1]) \o S(a[2]) \o S(a[3]) \o S(a[4]) \o "x" \o S(b1) \o "x" \o S(b2) \o "x" \o S(r), MethodFor(k, a[3] + b2 + r),
        Ord([i \in 1..4 |-> P(a[i], bb[i], c(i), l(i))]), WithPrim(Body(k, TRUE), a[2] + b1)) :
     t \in {u \in Quads \X (1..NB) \X (1..NB) \X (0..(rots - 1)) :
              LET b3 == ((u[2] + 2 * u[3] + u[1][1]) % NB) + 1  b4 == ((2 * u[2] + u[3] + u[1][2] + u[4]) % NB) + 1
                  bb == <<u[2], u[3], b3, b4>> IN
              Apart(bb)}}

\* the family as a sequence of strata (identifiers are unique across strata by their first letter)
\* G  path items shared by 2-3 operations: two path-level parameters (P(a, b), P(a+2, b+4)), siblings with different methods,
\*    each with an operation-level parameter of its own (shape b+7: the three names fold differently) and a rotating body
FamG(mod, rots) ==
  UNION {LET a == t[1]  b == t[2]  r == t[3]
             a2 == ((a + 1) % NA) + 1  b2 == ((b + 3) % NB) + 1  b3 == ((b + 6) % NB) + 1
             item == "g" \o S(a) \o "x" \o S(b) \o "x" \o S(r)
             shared == <<P(a, b, ((a + b + r) % NC) + 1, 2), P(a2, b2, ((a + 2 * b + r) % NC) + 1, 2)>>
             n == 2 + ((a + b + r) % 2) IN
         {LET a3 == ((a + 2 + j) % NA) + 1
              k == IF j = 1 THEN 1 ELSE ((a + b + j + 4 * r) % (NK - 1)) + 2
              m == IF j = 1 THEN (IF (a + r) % 2 = 0 THEN "GET" ELSE "DELETE") ELSE BodyMethods[((a + j) % 3) + 1] IN
          Rend(MkOpIn(item \o "m" \o S(j), item, m,
                      Ord(shared \o <<P(a3, b3, ((a3 + b3 + j) % NC) + 1, 1)>>), WithPrim(Body(k, TRUE), a + j)), a + b + r) : j \in 1..n}
         : t \in {u \in (1..NA) \X (1..NB) \X (0..(rots - 1)) : (u[1] + u[2]) % mod = 0}}

FamMini ==
  << {o \in FamA(FALSE) : o.params[1].level = "op"},
     {o \in FamB(1) : o.params[1].shape \in {"plain", "url", "body"}},
     FamC(16, 1),
     {o \in FamE(1) : o.params[1].shape \in {"plain", "kebab"}} >>

Family == CASE Tier = "mini"     -> FamMini
            [] Tier = "quick"    -> <<FamA(FALSE), FamB(1), FamC(4, 1), FamD(6, 1), FamE(1), FamG(3, 1)>>
            [] Tier = "thorough" -> <<FamA(TRUE), FamB(6), FamC(1, 3), FamD(1, 4), FamE(NC), FamF(8), FamG(1, 3)>>
=============================================================================
