----------------------------- MODULE RenderAst -----------------------------
(***************************************************************************)
(* X02, second layer: what PythonConstructRenderer (core/writers/          *)
(* python_construct_renderer.py) must have written, stated on what Python's *)
(* own parser (ast / tokenize, run by harness/w_render.py) finds in the    *)
(* rendered text - not on the text.                                        *)
(*   dataclass  [name, fields: <<[name, type, default, desc]>>, desc, mapping: <<<<api, py>>>>]  *)
(*   enum       [name, base, members: <<[name, value]>>, desc]             *)
(*   alias      [name, target, desc]                                       *)
(*   class      [name, bases, doc, body: <<line>>]                         *)
(* "NONE" stands for None.  The facts record is described in w_render.py.  *)
(***************************************************************************)
EXTENDS WriterOps

None == "NONE"
RWS == {" ", "\n", "\t"}
Squeeze(s) == SelectSeq(T(s), LAMBDA c : c \notin RWS)           \* the non-blank characters of a string
SqueezeAll(q) == Cat([i \in 1..Len(q) |-> Squeeze(q[i])])
\* the blank-separated words of a string (no recursion: TLC's stack is shallow)
WordsT(t) ==
  LET starts == {i \in 1..Len(t) : t[i] \notin RWS /\ (i = 1 \/ t[i - 1] \in RWS)}
      order == SetToSortSeq(starts, LAMBDA a, b : a < b)
      stop(i) == CHOOSE j \in i..Len(t) : (j = Len(t) \/ t[j + 1] \in RWS) /\ \A k \in i..j : t[k] \notin RWS
  IN [n \in 1..Len(order) |-> SubSeq(t, order[n], stop(order[n]))]
Words(s) == WordsT(T(s))
IsPrefixOf(p, q) == Len(p) <= Len(q) /\ SubSeq(q, 1, Len(p)) = p

\* ---- dataclass
Required(fs) == SelectSeq(fs, LAMBDA f : f.default = None)
Optional(fs) == SelectSeq(fs, LAMBDA f : f.default # None)
\* fields without default first (a dataclass cannot be declared otherwise), each group in the order given
FieldOrder(fs) == Required(fs) \o Optional(fs)
Summary(in, suffix) == IF in.desc = None \/ in.desc = "" THEN in.name \o suffix ELSE in.desc
\* the docstring spells: summary, then "Args:" and one "name (type) : description" entry per field, in the order given
DocSpelling(summary, entries) ==
  Squeeze(summary) \o (IF entries = <<>> THEN <<>> ELSE Squeeze("Args:") \o
     Cat([i \in 1..Len(entries) |-> Squeeze(entries[i][1] \o "(" \o entries[i][2] \o "):" \o entries[i][3])]))
DataclassEntries(in) == [i \in 1..Len(in.fields) |-> <<in.fields[i].name, in.fields[i].type, in.fields[i].desc>>]
EnumEntries(in) == [i \in 1..Len(in.members) |-> <<in.members[i].value, in.base, "Value for " \o in.members[i].name>>]
\* a description is a comment on the field's line, on ONE line
OneLine(t) == [i \in 1..Len(t) |-> IF t[i] = "\n" THEN " " ELSE t[i]]
Comments(in) == LET fs == SelectSeq(FieldOrder(in.fields), LAMBDA f : f.desc # "")
                IN [i \in 1..Len(fs) |-> [name |-> fs[i].name, text |-> T("# ") \o OneLine(T(fs[i].desc))]]
SeenComments(f) == [i \in 1..Len(f.comments) |-> [name |-> f.comments[i].name, text |-> T(f.comments[i].text)]]
Swapped(m) == [i \in 1..Len(m) |-> <<m[i][2], m[i][1]>>]
AsSet(q) == {q[i] : i \in 1..Len(q)}
\* every word of the summary arrives unbroken (when it can fit on a docstring line at all)
SummaryWordsOk(summary, doc) ==
  \A ws \in {Words(summary)} : (\A i \in 1..Len(ws) : Len(ws[i]) <= 80) => IsPrefixOf(ws, Words(doc))

JudgeDataclass(in, f) ==
  IF f.all # <<in.name>> THEN "X02.render_exports"
  ELSE IF f.classes # (IF in.mapping = <<>> THEN <<in.name>> ELSE <<in.name, "Meta">>) \/ f.decorators # <<"dataclass">> \/ f.bases # <<>>
    THEN "X02.render_header"
  ELSE IF f.fields # [i \in 1..Len(in.fields) |-> [name |-> FieldOrder(in.fields)[i].name, ann |-> FieldOrder(in.fields)[i].type,
                                                  default |-> FieldOrder(in.fields)[i].default]]
    THEN "X02.render_fields"
  ELSE IF f.doc = None \/ Squeeze(f.doc) # DocSpelling(Summary(in, " dataclass"), DataclassEntries(in)) THEN "X02.render_docstring"
  ELSE IF ~SummaryWordsOk(Summary(in, " dataclass"), f.doc) THEN "X02.render_doc_words"
  ELSE IF SeenComments(f) # Comments(in) THEN "X02.render_comments"
  ELSE IF AsSet(f.meta_load) # AsSet(in.mapping) \/ AsSet(f.meta_dump) # AsSet(Swapped(in.mapping))
          \/ Len(f.meta_load) # Len(in.mapping) \/ Len(f.meta_dump) # Len(in.mapping) THEN "X02.render_meta"
  ELSE IF in.fields = <<>> /\ ~f.has_pass THEN "X02.render_body"
  ELSE "ok"

JudgeEnum(in, f) ==
  IF f.all # <<in.name>> THEN "X02.render_exports"
  ELSE IF f.classes # <<in.name>> \/ f.decorators # <<"unique">> \/ f.bases # <<in.base, "Enum">> THEN "X02.render_header"
  ELSE IF f.members # [i \in 1..Len(in.members) |-> [name |-> in.members[i].name, value |-> in.members[i].value,
                                                    vkind |-> IF in.base = "str" THEN "str" ELSE "int"]] THEN "X02.render_members"
  ELSE IF f.doc = None \/ Squeeze(f.doc) # DocSpelling(Summary(in, " Enum"), EnumEntries(in)) THEN "X02.render_docstring"
  ELSE IF ~SummaryWordsOk(Summary(in, " Enum"), f.doc) THEN "X02.render_doc_words"
  ELSE "ok"

JudgeAlias(in, f) ==
  IF f.all # <<in.name>> THEN "X02.render_exports"
  ELSE IF f.alias_name # in.name \/ f.alias_ann # "TypeAlias" \/ f.alias_value # in.target \/ f.classes # <<>> THEN "X02.render_alias"
  ELSE IF f.alias_doc # (IF in.desc = None \/ in.desc = "" THEN None ELSE "Alias for " \o in.desc) THEN "X02.render_docstring"
  ELSE "ok"

JudgeClass(in, f) ==
  IF f.classes # <<in.name>> \/ f.bases # in.bases \/ f.decorators # <<>> THEN "X02.render_header"
  ELSE IF f.rawdoc # (IF in.doc = "" THEN None ELSE in.doc) THEN "X02.render_docstring"
  ELSE IF f.body # f.want_body THEN "X02.render_body"        \* both sides come from Python's parser (w_render.py)
  ELSE IF (in.doc \in {None, ""} /\ in.body = <<>>) # f.has_pass THEN "X02.render_body"
  ELSE "ok"

\* no emitted line ends in blanks (checked when everything else holds)
Tidy(x, v) == IF v = "ok" /\ x.out.trailing # "none" THEN "X02.render_trailing_blanks" ELSE v
Judge(x) ==
  IF ~x.out.parses THEN "X02.render_parses"
  ELSE Tidy(x, CASE x.in.kind = "dataclass" -> JudgeDataclass(x.in, x.out)
         [] x.in.kind = "enum" -> JudgeEnum(x.in, x.out)
         [] x.in.kind = "alias" -> JudgeAlias(x.in, x.out)
         [] x.in.kind = "class" -> JudgeClass(x.in, x.out))
=============================================================================
