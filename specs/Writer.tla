------------------------------- MODULE Writer -------------------------------
(***************************************************************************)
(* X02: the code-writing layer (LineWriter + CodeWriter) as a state        *)
(* machine: one action per public method, the meaning of every action is   *)
(* the operator of WriterOps.tla.  TLC checks the statements a user of the *)
(* writers relies on at every reachable state (for every call of the       *)
(* bounded alphabets, whether or not the call is taken there) and prints   *)
(* one EDGE line per (state, call): the harness puts a real writer into    *)
(* the state, makes the call and hands pre-state, call and real post-state *)
(* to Trace_Writer.tla.                                                    *)
(***************************************************************************)
EXTENDS WriterOps, Json

CONSTANTS Ops,         \* names of the methods explored in this run
          Texts,       \* arguments of append / write_line / replace_current_line
          BlockTexts,  \* arguments of write_block
          WrapTexts,   \* texts handed to the wrapping methods
          Widths,      \* widths handed to the wrapping methods
          DocPrefixes,    \* docstring-line prefixes
          Cols,        \* move_to_column / append_wrapped_at_column columns
          Sigs,        \* [name, args, rt, async] records for write_function_signature
          Levels,      \* indentation levels of the initial writers
          CurTexts,    \* partial current lines of the initial writers (a writer in the middle of a line)
          PreLines,    \* lines the initial writers have completed already (a sequence of strings)
          LawDepth,    \* the quantified statements are evaluated in states reached by fewer calls than this
          Mw0,         \* width the writer was constructed with
          MaxCalls,    \* calls per behaviour
          EmitEdges    \* print EDGE lines

VARIABLES st, n, fed
vars == <<st, n, fed>>

NoArg(op) == Call(op, <<>>, <<>>, 0, 0, <<>>)
\* the alphabets are given as strings; inside the model texts are character sequences
TTexts == {T(s) : s \in Texts}
TBlockTexts == {T(s) : s \in BlockTexts}
TWrapTexts == {T(s) : s \in WrapTexts}
TPrefixes == {T(s) : s \in DocPrefixes}
WrapCalls ==
  {Call("append_wrapped", t, <<>>, 0, 0, <<>>) : t \in TWrapTexts}
  \cup {Call("write_wrapped_line", t, <<>>, w, 0, <<>>) : t \in TWrapTexts, w \in Widths}
  \cup {Call("write_wrapped_docstring_line", t, p, w, 0, <<>>) : t \in TWrapTexts, p \in TPrefixes, w \in Widths}
SigCalls == {Call("write_function_signature", T(s.name), T(s.rt), 0, s.async, Ts(s.args)) : s \in Sigs}
BlockCalls == {Call("write_block", b, <<>>, 0, 0, <<>>) : b \in TBlockTexts}
LineCalls == {Call("write_line", t, <<>>, 0, 0, <<>>) : t \in TTexts}

Step(c) ==
  /\ n < MaxCalls
  /\ st' = Apply(c, st).st /\ n' = n + 1
  /\ fed' = IF c.op = "replace_current_line" THEN SubSeq(fed, 1, Len(fed) - Len(NS(Cur(st)))) \o NS(c.t) ELSE fed \o Fed(c)
  /\ (EmitEdges => PrintT("EDGE " \o ToJson([s |-> ExtState(st), c |-> ExtCall(c)])))

\* the initial writers: every frontier (level, partial line, just-newlined flag) behind some completed lines -
\* such a writer is reachable by indent / write_line / append / newline calls, and no method reads completed lines
Init == /\ \E l \in Levels, c \in CurTexts, j \in BOOLEAN :
             /\ st = [level |-> l, lines |-> Ts(PreLines) \o <<T(c)>>, jn |-> j, mw |-> Mw0]
        /\ n = 0 /\ fed = NS(Cat(st.lines))

\* ---- LineWriter
DoIndent == "indent" \in Ops /\ Step(NoArg("indent"))
DoDedent == "dedent" \in Ops /\ Step(NoArg("dedent"))
DoAppend == "append" \in Ops /\ \E t \in TTexts : Step(Call("append", t, <<>>, 0, 0, <<>>))
DoNewline == "newline" \in Ops /\ Step(NoArg("newline"))
DoMoveToColumn == "move_to_column" \in Ops /\ \E k \in Cols : Step(Call("move_to_column", <<>>, <<>>, 0, k, <<>>))
DoReplaceCurrentLine == "replace_current_line" \in Ops /\ \E t \in TTexts : Step(Call("replace_current_line", t, <<>>, 0, 0, <<>>))
DoAppendWrapped == "append_wrapped" \in Ops /\ \E t \in TWrapTexts : Step(Call("append_wrapped", t, <<>>, 0, 0, <<>>))
DoWrapAndAppend == "wrap_and_append" \in Ops /\ \E t \in TWrapTexts, w \in Widths, p \in TPrefixes : w > Len(p) /\ Step(Call("wrap_and_append", t, p, w, 0, <<>>))
DoAppendWrappedAtColumn == "append_wrapped_at_column" \in Ops /\ \E t \in TWrapTexts, w \in Widths, k \in Cols \cup {-1} : w > k /\ Step(Call("append_wrapped_at_column", t, <<>>, w, k, <<>>))
DoGetValue == "getvalue" \in Ops /\ Step(NoArg("getvalue"))
DoCurrentLine == "current_line" \in Ops /\ Step(NoArg("current_line"))
DoCurrentWidth == "current_width" \in Ops /\ Step(NoArg("current_width"))
\* ---- CodeWriter
DoWriteLine == "write_line" \in Ops /\ \E c \in LineCalls : Step(c)
DoWriteBlock == "write_block" \in Ops /\ \E c \in BlockCalls : Step(c)
DoWriteWrappedLine == "write_wrapped_line" \in Ops /\ \E t \in TWrapTexts, w \in Widths : Step(Call("write_wrapped_line", t, <<>>, w, 0, <<>>))
DoWriteWrappedDocstringLine == "write_wrapped_docstring_line" \in Ops /\ \E t \in TWrapTexts, p \in TPrefixes, w \in Widths : Step(Call("write_wrapped_docstring_line", t, p, w, 0, <<>>))
DoWriteFunctionSignature == "write_function_signature" \in Ops /\ \E c \in SigCalls : Step(c)
DoGetCode == "get_code" \in Ops /\ Step(NoArg("get_code"))

Next == \/ DoIndent \/ DoDedent \/ DoAppend \/ DoNewline \/ DoMoveToColumn \/ DoReplaceCurrentLine
        \/ DoAppendWrapped \/ DoWrapAndAppend \/ DoAppendWrappedAtColumn \/ DoGetValue \/ DoCurrentLine \/ DoCurrentWidth
        \/ DoWriteLine \/ DoWriteBlock \/ DoWriteWrappedLine \/ DoWriteWrappedDocstringLine
        \/ DoWriteFunctionSignature \/ DoGetCode
Spec == Init /\ [][Next]_vars

\* ================================================================== the statements
TypeOK == st.level \in Nat /\ Len(st.lines) >= 1 /\ st.jn \in BOOLEAN

\* the width given to a single wrapping call never outlives the call
WidthRestored == st.mw = Mw0

\* dedent never goes below zero: at level 0 it is the identity; elsewhere indent and dedent are inverse
DedentAtZero == st.level = 0 => Dedent(st) = st
IndentDedentInverse == Dedent(Indent(st)) = st /\ (st.level > 0 => Indent(Dedent(st)) = st)

\* a line written on a fresh line is the text behind four spaces per level - the level in force when it is written
IndentIsFourPerLevel == n < LawDepth =>
  \A t \in TTexts : (t # <<>> /\ ~HasAny(t, {"|"}) /\ Unstarted(st)) =>
      Region(st, WriteLine(st, t)) = <<Spaces(4 * st.level) \o t, <<>>>>
\* an empty line is empty at every level (no trailing blanks)
BlankLinesAreEmpty == (n < LawDepth /\ Unstarted(st)) => Region(st, WriteLine(st, <<>>)) = <<<<>>, <<>>>>

\* write_block under level k = its Python lines written one by one under level k (stated directly, not by iteration)
BlockDirect(S, b) ==
  LET q == PyLines(b)
      first == IF Unstarted(S) THEN (IF q[1] = <<>> THEN <<>> ELSE Spaces(4 * S.level) \o q[1]) ELSE Cur(S) \o q[1]
  IN IF q = <<>> THEN S
     ELSE [S EXCEPT !.jn = TRUE,
                    !.lines = Done(S) \o <<first>> \o [i \in 1..Len(q) - 1 |-> IF q[i + 1] = <<>> THEN <<>> ELSE Spaces(4 * S.level) \o q[i + 1]] \o <<<<>>>>]
BlockIsLines == n < LawDepth => \A b \in TBlockTexts : WriteBlock(st, b) = BlockDirect(st, b)
\* ... and none of its characters is lost: the block comes back from the lines it produced
BlockRoundTrip == n < LawDepth =>
  \A b \in TBlockTexts : Unstarted(st) =>
    \A reg \in {Region(st, WriteBlock(st, b))}, q \in {PyLines(b)} :
       Len(reg) = Len(q) + 1 /\ \A i \in 1..Len(q) : LStrip(reg[i]) = LStrip(q[i])

\* the multi-line signature spells exactly the one-line signature, and leaves the level where it was
SignatureSpells == n < LawDepth =>
  \A c \in SigCalls : \A R \in {Apply(c, st).st} :
     /\ R.level = st.level
     /\ NS(Cat(Region(st, R))) = NS(Cur(st)) \o SigFlat(c.t, c.a, c.p, c.k)
     /\ Len(Region(st, R)) = (IF c.a = <<>> THEN 2 ELSE Len(c.a) + 3)

\* wrapping, whenever there is room on the line (quantified over every wrapping call of the alphabet)
WrapKeepsWidth == n < LawDepth => \A c \in WrapCalls : InContract(c, st) => \A R \in {Apply(c, st).st} : WrapWidthOk(c, st, R)
WrapKeepsText == n < LawDepth => \A c \in WrapCalls : InContract(c, st) => \A R \in {Apply(c, st).st} : WrapTextOk(c, st, R)
WrapAligns == n < LawDepth => \A c \in WrapCalls : InContract(c, st) => \A R \in {Apply(c, st).st} : WrapAlignOk(c, st, R)
WrapKeepsTokens == n < LawDepth => \A c \in WrapCalls : InContract(c, st) => \A R \in {Apply(c, st).st} : WrapRejoinOk(c, st, R)
WrapKeepsLevel == n < LawDepth => \A c \in WrapCalls : \A R \in {Apply(c, st).st} : R.level = st.level /\ R.mw = st.mw

\* nothing that was passed in is lost, duplicated or reordered (blanks aside): history variable `fed`
TextPreserved == NS(Cat(st.lines)) = fed

\* get_code is the joined lines up to final newlines
GetCodeIsLines == LET g == GetCode(st) v == GetValue(st) IN
  /\ StartsWith(v, g) /\ NS(SubSeq(v, Len(g) + 1, Len(v))) = <<>> /\ (Len(g) > 0 => g[Len(g)] # "|")

\* action properties: completed lines are never touched again; the level moves by one step at most
AppendOnly == [][IsPrefix(Done(st), st'.lines)]_vars
LevelStep == [][st'.level - st.level \in {-1, 0, 1}]_vars
=============================================================================
