------------------------------- MODULE Writer -------------------------------
(***************************************************************************)
(* X02: the code-writing layer (LineWriter + CodeWriter) as a state        *)
(* machine: one action per public method, the meaning of every action is   *)
(* the operator of WriterOps.tla.  TLC checks the statements a user of the *)
(* writers relies on at every reachable state (for every call of the       *)
(* bounded alphabets, whether or not the call is taken there) and prints   *)
(* one EDGE line per (state, call): the harness puts a real writer into    *)
(* the state, makes the call and hands pre-state, call and real post-state *)
(* to Trace_Writer.tla.                                                    *)
(***************************************************************************)
EXTENDS WriterOps, Json

CONSTANTS Ops,         \* names of the methods explored in this run
          Texts,       \* arguments of append / write_line / replace_current_line
          BlockTexts,  \* arguments of write_block
          WrapTexts,   \* texts handed to the wrapping methods
          Widths,      \* widths handed to the wrapping methods
          DocPrefixes,    \* docstring-line prefixes
          Cols,        \* move_to_column / append_wrapped_at_column columns
          Sigs,        \* [name, args, rt, async] records for write_function_signature
          Levels,      \* indentation levels of the initial writers
          Mw0,         \* width the writer was constructed with
          MaxCalls,    \* calls per behaviour
          EmitEdges    \* print EDGE lines

VARIABLES st, n, fed
vars == <<st, n, fed>>

NoArg(op) == Call(op, "", "", 0, 0, <<>>)
WrapCalls ==
  {Call("append_wrapped", t, "", 0, 0, <<>>) : t \in WrapTexts}
  \cup {Call("write_wrapped_line", t, "", w, 0, <<>>) : t \in WrapTexts, w \in Widths}
  \cup {Call("write_wrapped_docstring_line", t, p, w, 0, <<>>) : t \in WrapTexts, p \in DocPrefixes, w \in Widths}
SigCalls == {Call("write_function_signature", s.name, s.rt, 0, s.async, s.args) : s \in Sigs}
BlockCalls == {Call("write_block", b, "", 0, 0, <<>>) : b \in BlockTexts}
LineCalls == {Call("write_line", t, "", 0, 0, <<>>) : t \in Texts}

Step(c) ==
  /\ c.op \in Ops /\ n < MaxCalls
  /\ st' = Apply(c, st).st /\ n' = n + 1
  /\ fed' = IF c.op = "replace_current_line" THEN Sub(fed, 1, Len(fed) - Len(NS(Cur(st)))) \o NS(c.t) ELSE fed \o Fed(c)
  /\ (EmitEdges => PrintT("EDGE " \o ToJson([s |-> st, c |-> c])))

Init == /\ \E l \in Levels : st = [New(Mw0) EXCEPT !.level = l]
        /\ n = 0 /\ fed = ""

\* ---- LineWriter
DoIndent == Step(NoArg("indent"))
DoDedent == Step(NoArg("dedent"))
DoAppend == \E t \in Texts : Step(Call("append", t, "", 0, 0, <<>>))
DoNewline == Step(NoArg("newline"))
DoMoveToColumn == \E k \in Cols : Step(Call("move_to_column", "", "", 0, k, <<>>))
DoReplaceCurrentLine == \E t \in Texts : Step(Call("replace_current_line", t, "", 0, 0, <<>>))
DoAppendWrapped == \E t \in WrapTexts : Step(Call("append_wrapped", t, "", 0, 0, <<>>))
DoWrapAndAppend == \E t \in WrapTexts, w \in Widths, p \in DocPrefixes : Step(Call("wrap_and_append", t, p, w, 0, <<>>))
DoAppendWrappedAtColumn == \E t \in WrapTexts, w \in Widths, k \in Cols \cup {-1} : w > k /\ Step(Call("append_wrapped_at_column", t, "", w, k, <<>>))
DoGetValue == Step(NoArg("getvalue"))
DoCurrentLine == Step(NoArg("current_line"))
DoCurrentWidth == Step(NoArg("current_width"))
\* ---- CodeWriter
DoWriteLine == \E c \in LineCalls : Step(c)
DoWriteBlock == \E c \in BlockCalls : Step(c)
DoWriteWrappedLine == \E t \in WrapTexts, w \in Widths : Step(Call("write_wrapped_line", t, "", w, 0, <<>>))
DoWriteWrappedDocstringLine == \E t \in WrapTexts, p \in DocPrefixes, w \in Widths : Step(Call("write_wrapped_docstring_line", t, p, w, 0, <<>>))
DoWriteFunctionSignature == \E c \in SigCalls : Step(c)
DoGetCode == Step(NoArg("get_code"))

Next == \/ DoIndent \/ DoDedent \/ DoAppend \/ DoNewline \/ DoMoveToColumn \/ DoReplaceCurrentLine
        \/ DoAppendWrapped \/ DoWrapAndAppend \/ DoAppendWrappedAtColumn \/ DoGetValue \/ DoCurrentLine \/ DoCurrentWidth
        \/ DoWriteLine \/ DoWriteBlock \/ DoWriteWrappedLine \/ DoWriteWrappedDocstringLine
        \/ DoWriteFunctionSignature \/ DoGetCode
Spec == Init /\ [][Next]_vars

\* ================================================================== the statements
TypeOK == st.level \in Nat /\ Len(st.lines) >= 1 /\ st.jn \in BOOLEAN

\* the width given to a single wrapping call never outlives the call
WidthRestored == st.mw = Mw0

\* dedent never goes below zero: at level 0 it is the identity; elsewhere indent and dedent are inverse
DedentAtZero == st.level = 0 => Dedent(st) = st
IndentDedentInverse == Dedent(Indent(st)) = st /\ (st.level > 0 => Indent(Dedent(st)) = st)

\* a line written on a fresh line is the text behind four spaces per level - the level in force when it is written
IndentIsFourPerLevel ==
  \A t \in Texts : (t # "" /\ ~HasAny(t, {"|"}) /\ Unstarted(st)) =>
      Region(st, WriteLine(st, t)) = <<Spaces(4 * st.level) \o t, "">>
\* an empty line is empty at every level (no trailing blanks)
BlankLinesAreEmpty == Unstarted(st) => Region(st, WriteLine(st, "")) = <<"", "">>

\* write_block under level k = its Python lines written one by one under level k (stated directly, not by iteration)
BlockDirect(S, b) ==
  LET q == PyLines(b)
      first == IF Unstarted(S) THEN (IF q[1] = "" THEN "" ELSE Spaces(4 * S.level) \o q[1]) ELSE Cur(S) \o q[1]
  IN IF q = <<>> THEN S
     ELSE [S EXCEPT !.jn = TRUE,
                    !.lines = Done(S) \o <<first>> \o [i \in 1..Len(q) - 1 |-> IF q[i + 1] = "" THEN "" ELSE Spaces(4 * S.level) \o q[i + 1]] \o <<"">>]
BlockIsLines == \A b \in BlockTexts : WriteBlock(st, b) = BlockDirect(st, b)
\* ... and none of its characters is lost: the block comes back from the lines it produced
BlockRoundTrip ==
  \A b \in BlockTexts : Unstarted(st) =>
    LET reg == Region(st, WriteBlock(st, b))  q == PyLines(b)
    IN Len(reg) = Len(q) + 1 /\ \A i \in 1..Len(q) : LStrip(reg[i]) = LStrip(q[i])

\* the multi-line signature spells exactly the one-line signature, and leaves the level where it was
SignatureSpells ==
  \A c \in SigCalls : LET R == Apply(c, st).st IN
     /\ R.level = st.level
     /\ NS(Cat(Region(st, R))) = NS(Cur(st)) \o SigFlat(c.t, c.a, c.p, c.k)
     /\ Len(Region(st, R)) = (IF c.a = <<>> THEN 2 ELSE Len(c.a) + 3)

\* wrapping, whenever there is room on the line (quantified over every wrapping call of the alphabet)
WrapKeepsWidth == \A c \in WrapCalls : InContract(c, st) => WrapWidthOk(c, st, Apply(c, st).st)
WrapKeepsText == \A c \in WrapCalls : InContract(c, st) => WrapTextOk(c, st, Apply(c, st).st)
WrapAligns == \A c \in WrapCalls : InContract(c, st) => WrapAlignOk(c, st, Apply(c, st).st)
WrapKeepsTokens == \A c \in WrapCalls : InContract(c, st) => WrapRejoinOk(c, st, Apply(c, st).st)
WrapKeepsLevel == \A c \in WrapCalls : Apply(c, st).st.level = st.level /\ Apply(c, st).st.mw = st.mw

\* nothing that was passed in is lost, duplicated or reordered (blanks aside): history variable `fed`
TextPreserved == NS(Cat(st.lines)) = fed

\* get_code is the joined lines up to final newlines
GetCodeIsLines == LET g == GetCode(st) v == GetValue(st) IN
  /\ StartsWith(v, g) /\ NS(Sub(v, Len(g) + 1, Len(v))) = "" /\ (Len(g) > 0 => Ch(g, Len(g)) # "|")

\* action properties: completed lines are never touched again; the level moves by one step at most
AppendOnly == [][IsPrefix(Done(st), st'.lines)]_vars
LevelStep == [][st'.level - st.level \in {-1, 0, 1}]_vars
=============================================================================
