--------------------------- MODULE Trace_Fidelity ---------------------------
(***************************************************************************)
(* C02 monitor: the models observed for a graph document (from the parsed  *)
(* IR, or from dataclasses.fields() of the imported package) are judged    *)
(* against Docs!ExpectedFields, the independent reference resolver.        *)
(*   trace == [id, doc : [order, edges], level : "ir" | "import",          *)
(*             models : [name -> [count, fields : Seq(<<key, req, kind>>)]]*)
(* One VERDICT line per trace listing every failing (schema, clause, key). *)
(***************************************************************************)
EXTENDS Docs, Json, IOUtils

Traces == ndJsonDeserialize(IOEnv.TRACE_FILE)
VARIABLES tid, done

Obs(t, n) == t.models[n]
ObsKeys(t, n) == {Obs(t, n).fields[i][1] : i \in 1..Len(Obs(t, n).fields)}
ObsField(t, n, k) == LET i == CHOOSE j \in 1..Len(Obs(t, n).fields) : Obs(t, n).fields[j][1] = k IN Obs(t, n).fields[i]

Own(doc, n) == IF IsAlias(doc, n) THEN {} ELSE OwnFields(doc, n)

Failures(t) ==
  LET doc == t.doc IN
  UNION {
    LET exp == ExpectedFields(doc, n)
        expKeys == {f.key : f \in exp}
        ownKeys == {f.key : f \in Own(doc, n)}
    IN IF n \notin DOMAIN t.models \/ Obs(t, n).count = 0
         THEN {[n |-> n, clause |-> "C02.schema_missing", key |-> ""]}
       ELSE
         (IF Obs(t, n).count > 1 THEN {[n |-> n, clause |-> "C02.not_unique", key |-> ""]} ELSE {})
         \cup {[n |-> n, clause |-> IF f.key \in ownKeys THEN "C02.field_lost" ELSE "C02.inherited_lost", key |-> f.key] :
                  f \in {g \in exp : g.key \notin ObsKeys(t, n)}}
         \cup {[n |-> n, clause |-> "C02.field_extra", key |-> k] : k \in ObsKeys(t, n) \ expKeys}
         \cup {[n |-> n, clause |-> "C02.required_flag", key |-> f.key] :
                  f \in {g \in exp : g.key \in ObsKeys(t, n) /\ ObsField(t, n, g.key)[2] # g.required}}
         \cup {[n |-> n, clause |-> "C02.kind", key |-> f.key] :
                  f \in {g \in exp : /\ g.key \in ObsKeys(t, n)
                                     /\ ObsField(t, n, g.key)[3] # "?"
                                     /\ ObsField(t, n, g.key)[3] # g.kind}}
    : n \in Range(doc.order)}

Init == tid \in 1..Len(Traces) /\ done = FALSE
Judge ==
  /\ ~done
  /\ done' = TRUE
  /\ UNCHANGED tid
  /\ LET t == Traces[tid] IN
       PrintT("VERDICT " \o ToJson([id |-> t.id, fails |-> SetToSeq(Failures(t)),
                                    nfields |-> Cardinality(UNION {ExpectedFields(t.doc, n) : n \in Range(t.doc.order)})]))
Spec == Init /\ [][Judge]_<<tid, done>>
=============================================================================
