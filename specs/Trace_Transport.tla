--------------------------- MODULE Trace_Transport ---------------------------
(***************************************************************************)
(* C17 monitor.  One trace per SESSION replayed on the REAL HttpxTransport   *)
(* (httpx.MockTransport underneath, one transport object for the whole     *)
(* session):                                                               *)
(*   [id  : STRING,                                                        *)
(*    sc  : the abstract scenario printed by Transport!Judge,              *)
(*    obs : one observation per request, in the observation shape of       *)
(*          TransportCore (header multimap with raw and lower-case names,  *)
(*          query multimap, parsed Cookie header, body, what the refresh   *)
(*          callback was shown, the default-headers dict after the         *)
(*          request, exception type or "none")]                            *)
(* The configuration is RE-DERIVED from the scenario (Concrete), the        *)
(* reference from the configuration and the request's position; the judge  *)
(* is TransportCore!SessionFailures, the same operator that judged the     *)
(* modelled wires in the design check.                                     *)
(* Total: every trace yields exactly one VERDICT line listing all failing  *)
(* clauses with their loci (incl. the request's position), whether the     *)
(* implementation-shaped model predicted the observed requests (drift,     *)
(* never a failure), what the model would have failed, and the number of   *)
(* antecedents evaluated per clause.                                       *)
(***************************************************************************)
EXTENDS TransportCore, TLC, Json, IOUtils

Traces == ndJsonDeserialize(IOEnv.TRACE_FILE)

VARIABLES tid, done

ScOf(t) == [plugs |-> t.sc.plugs, tree |-> t.sc.tree, short |-> t.sc.short, dflt |-> t.sc.dflt, reqs |-> t.sc.reqs,
            rets |-> t.sc.rets, ca |-> t.sc.ca, kn |-> t.sc.kn, hn |-> t.sc.hn, params |-> t.sc.params, cookies |-> t.sc.cookies,
            body |-> t.sc.body, sched |-> t.sc.sched]

\* tuples of the observation arrive as JSON arrays = sequences: the shapes coincide with TransportCore's
ObsOf(t) == [i \in DOMAIN t.obs |->
               [headers |-> t.obs[i].headers, query |-> t.obs[i].query, cookies |-> t.obs[i].cookies,
                body |-> t.obs[i].body, path |-> t.obs[i].path, refresh |-> t.obs[i].refresh, defaults |-> t.obs[i].defaults,
                err |-> t.obs[i].err]]

Init == tid \in 1..Len(Traces) /\ done = FALSE

Judge ==
  /\ ~done
  /\ done' = TRUE
  /\ UNCHANGED tid
  /\ LET t     == Traces[tid]
         c     == Concrete(ScOf(t))
         o     == ObsOf(t)
         model == ModelOf("as_is", c)
         fails == SessionFailures(c, o)
     IN PrintT("VERDICT " \o ToJson([id    |-> t.id,
                                     wellformed |-> ScenarioOK(ScOf(t), 4, 3),
                                     fails |-> SetToSeq(fails),
                                     model_fails |-> SetToSeq(SessionFailures(c, model)),
                                     drift |-> ProjectSession(c, o) # ProjectSession(c, model),
                                     ante  |-> Antecedents(c)]))

Spec == Init /\ [][Judge]_<<tid, done>>
=============================================================================
