--------------------------- MODULE Trace_Transport ---------------------------
(***************************************************************************)
(* C17 monitor.  One trace per configuration replayed on the REAL          *)
(* HttpxTransport (httpx.MockTransport underneath):                        *)
(*   [id  : STRING,                                                        *)
(*    sc  : the abstract scenario printed by Transport!Judge,              *)
(*    obs : the captured httpx.Request in the observation shape of         *)
(*          TransportCore (header multimap with raw and lower-case names,  *)
(*          query multimap, parsed Cookie header, body, refresh-callback   *)
(*          arguments, exception type or "none")]                          *)
(* The configuration is RE-DERIVED from the scenario (Concrete), the       *)
(* reference from the configuration; the judge is TransportCore!Failures,  *)
(* the same operator that judged the modelled wire in the design check.    *)
(* Total: every trace yields exactly one VERDICT line listing all failing  *)
(* clauses with their loci, whether the implementation-shaped model        *)
(* predicted the observed request (drift, never a failure), what the model *)
(* would have failed, and the number of antecedents evaluated per clause.  *)
(***************************************************************************)
EXTENDS TransportCore, TLC, Json, IOUtils

Traces == ndJsonDeserialize(IOEnv.TRACE_FILE)

VARIABLES tid, done

ScOf(t) == [plugs |-> t.sc.plugs, wrap |-> t.sc.wrap, short |-> t.sc.short, dflt |-> t.sc.dflt, req |-> t.sc.req,
            ca |-> t.sc.ca, kn |-> t.sc.kn, hn |-> t.sc.hn, params |-> t.sc.params, cookies |-> t.sc.cookies,
            body |-> t.sc.body]

\* tuples of the observation arrive as JSON arrays = sequences: the shapes coincide with TransportCore's
ObsOf(t) == [headers |-> t.obs.headers, query |-> t.obs.query, cookies |-> t.obs.cookies, body |-> t.obs.body,
             refresh |-> t.obs.refresh, err |-> t.obs.err]

Init == tid \in 1..Len(Traces) /\ done = FALSE

Judge ==
  /\ ~done
  /\ done' = TRUE
  /\ UNCHANGED tid
  /\ LET t     == Traces[tid]
         c     == Concrete(ScOf(t))
         o     == ObsOf(t)
         model == ModelWire("as_is", c)
         fails == Failures(c, o)
     IN PrintT("VERDICT " \o ToJson([id    |-> t.id,
                                     wellformed |-> ScenarioOK(ScOf(t), 3),
                                     fails |-> SetToSeq(fails),
                                     model_fails |-> SetToSeq(Failures(c, model)),
                                     drift |-> Project(c, o) # Project(c, model),
                                     ante  |-> Antecedents(c)]))

Spec == Init /\ [][Judge]_<<tid, done>>
=============================================================================
