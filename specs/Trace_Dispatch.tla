--------------------------- MODULE Trace_Dispatch ---------------------------
(***************************************************************************)
(* C06 monitor.  One trace per generated package (= one declaration):      *)
(*   [id   : STRING,                                                       *)
(*    decl : Seq(member)            the declaration printed by Gen_Dispatch*)
(*    first : member                the response the document lists first  *)
(*    mode : "inline"|"ref"|"shared" how the responses are written down    *)
(*                                  (DispatchCore!Modes; the model's       *)
(*                                  outcome does not depend on it)         *)
(*    core : STRING                 dotted name of the package's core      *)
(*    ev   : Seq(outcome event)]                                           *)
(* An outcome event is what the CALLER of the generated method saw for one *)
(* served status under one transport:                                      *)
(*   [status, transport : "bundled" | "pass", body : the kind of body the  *)
(*    server sent (DispatchCore!Bodies), hdr : the header set of the       *)
(*    answer (DispatchCore!HeaderSets), kind : "return" | "raise" |        *)
(*    "items", mro : Seq(class name), mods : Seq(module of that class),    *)
(*    exc : type name, status_attr : Nat (0 = no int .status_code),        *)
(*    has_response : BOOLEAN (.response is an httpx.Response),             *)
(*    response_status : Nat (its status, 0 = none)]                        *)
(* HTTPError / ClientError / ServerError count only when they are the      *)
(* package's OWN classes (<core>.exceptions / <core>.exception_aliases):   *)
(* that is what `from my_client.core.exceptions import ClientError;        *)
(* except ClientError` catches.  `.response` must be the response that     *)
(* carried the served status.                                              *)
(*                                                                         *)
(* The judge is DispatchCore!Failures - the operator that judged the       *)
(* modelled outcome in the design check.  The monitor is TOTAL: Step       *)
(* consumes one event (judges the real outcome, judges the as-is model's   *)
(* outcome for the same call, compares the two), Fin prints exactly one    *)
(* VERDICT line per trace: every failing (clause, locus) with the number   *)
(* of calls and the first status, what the as-is model fails for the same  *)
(* calls, the calls on which the real outcome differs from the model       *)
(* (drift, never a failure) and the antecedents evaluated.                 *)
(***************************************************************************)
EXTENDS DispatchCore, TLC, Json, IOUtils, SequencesExt

Traces == ndJsonDeserialize(IOEnv.TRACE_FILE)

VARIABLES tid,     \* which trace
          l,       \* next event
          fails,   \* [clause, locus] -> [n, first] : failures of the REAL outcomes so far
          mfails,  \* the same for the as-is model's outcomes
          drift,   \* [n, status, transport] : calls whose real outcome differs from the model's (first one kept)
          ante     \* antecedent counters
vars == <<tid, l, fails, mfails, drift, ante>>

OwnModules(t) == {t.core \o ".exceptions", t.core \o ".exception_aliases"}
OwnNames(t, e) == {nm \in Names : \E i \in 1..Len(e.mro) : e.mro[i] = nm /\ i <= Len(e.mods) /\ e.mods[i] \in OwnModules(t)}

Obs(t, e) ==
  IF e.kind = "raise"
    THEN [kind |-> "raise", mro |-> OwnNames(t, e), status |-> e.status_attr,
          hasResponse |-> (e.has_response /\ e.response_status = e.status), exc |-> e.exc]
    ELSE Return

Empty == [k \in {} |-> [n |-> 0, first |-> 0, fbody |-> ""]]
Add(acc, FS, s, b) ==
  [k \in (DOMAIN acc) \cup FS |->
      IF k \in FS THEN (IF k \in DOMAIN acc THEN [acc[k] EXCEPT !.n = @ + 1] ELSE [n |-> 1, first |-> s, fbody |-> b])
      ELSE acc[k]]
AsSeq(acc) == SetToSeq({[clause |-> k.clause, locus |-> k.locus, n |-> acc[k].n, first |-> acc[k].first, fbody |-> acc[k].fbody] : k \in DOMAIN acc})

B(b) == IF b THEN 1 ELSE 0

Init ==
  /\ tid \in 1..Len(Traces)
  /\ l = 1
  /\ fails = Empty /\ mfails = Empty
  /\ drift = [n |-> 0, status |-> 0, transport |-> "", body |-> ""]
  /\ ante = [calls |-> 0, non2xx |-> 0, raised |-> 0, c4xx |-> 0, c5xx |-> 0]

Step ==
  /\ l <= Len(Traces[tid].ev)
  /\ LET t  == Traces[tid]
         d  == ToSet(t.decl)
         e  == t.ev[l]
         o  == Obs(t, e)
         m  == ModelOutcome("as_is", d, t.first, e.transport, e.status, e.body)
     IN  /\ fails'  = Add(fails, Failures(d, e.transport, e.status, e.body, e.hdr, o), e.status, e.body)
         /\ mfails' = Add(mfails, Failures(d, e.transport, e.status, e.body, e.hdr, m), e.status, e.body)
         /\ drift'  = IF Project(o) = Project(m) THEN drift
                      ELSE IF drift.n = 0 THEN [n |-> 1, status |-> e.status, transport |-> e.transport, body |-> e.body]
                      ELSE [drift EXCEPT !.n = @ + 1]
         /\ ante'   = [calls  |-> ante.calls + 1,
                       non2xx |-> ante.non2xx + B(~Is2xx(e.status)),
                       raised |-> ante.raised + B(~Is2xx(e.status) /\ e.kind = "raise"),
                       c4xx   |-> ante.c4xx + B(Is4xx(e.status) /\ e.kind = "raise"),
                       c5xx   |-> ante.c5xx + B(Is5xx(e.status) /\ e.kind = "raise")]
  /\ l' = l + 1
  /\ UNCHANGED tid

Fin ==
  /\ l = Len(Traces[tid].ev) + 1
  /\ l' = l + 1
  /\ UNCHANGED <<tid, fails, mfails, drift, ante>>
  /\ LET t == Traces[tid]
         d == ToSet(t.decl)
     IN PrintT("VERDICT " \o ToJson([
            id         |-> t.id,
            wellformed |-> WellFormed(d) /\ t.first \in d /\ t.mode \in ToSet(Modes)
                           /\ \A i \in 1..Len(t.ev) : t.ev[i].status \in 100..599 /\ t.ev[i].transport \in {"bundled", "pass"} /\ t.ev[i].body \in Bodies /\ t.ev[i].hdr \in HeaderSets,
            importable_model |-> Importable("as_is", d),
            primary_model    |-> Primary(d, t.first),
            fails       |-> AsSeq(fails),
            model_fails |-> AsSeq(mfails),
            ndrift      |-> drift.n,
            drift_first |-> [status |-> drift.status, transport |-> drift.transport, body |-> drift.body],
            ante        |-> ante]))

Spec == Init /\ [][Step \/ Fin]_vars
=============================================================================
