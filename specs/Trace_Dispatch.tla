--------------------------- MODULE Trace_Dispatch ---------------------------
(***************************************************************************)
(* C06 monitor.  One trace per generated package (= one declaration):      *)
(*   [id   : STRING,                                                       *)
(*    decl : Seq(member)            the declaration printed by Gen_Dispatch*)
(*    core : STRING                 dotted name of the package's core      *)
(*    ev   : Seq(outcome event)]                                           *)
(* An outcome event is what the CALLER of the generated method saw for one *)
(* served status under one transport:                                      *)
(*   [status, transport : "bundled" | "pass", kind : "return" | "raise" |  *)
(*    "items", mro : Seq(class name), mods : Seq(module of that class),    *)
(*    exc : type name, status_attr : Nat (0 = no int .status_code),        *)
(*    has_response : BOOLEAN (.response is an httpx.Response),             *)
(*    response_status : Nat (its status, 0 = none)]                        *)
(* HTTPError / ClientError / ServerError count only when they are the      *)
(* package's OWN classes (<core>.exceptions / <core>.exception_aliases):   *)
(* that is what `from my_client.core.exceptions import ClientError;        *)
(* except ClientError` catches.  `.response` must be the response that     *)
(* carried the served status.                                              *)
(* The judge is DispatchCore!Failures - the operator that judged the       *)
(* modelled outcome in the design check.  Total: every trace yields one    *)
(* VERDICT line with every failing (clause, locus) (count + smallest       *)
(* status), what the as-is model fails for the same events, the events on  *)
(* which the real outcome differs from the model (drift, never a failure)  *)
(* and the number of antecedents evaluated.                                *)
(***************************************************************************)
EXTENDS DispatchCore, TLC, Json, IOUtils, SequencesExt

Traces == ndJsonDeserialize(IOEnv.TRACE_FILE)

VARIABLES tid, done

OwnModules(t) == {t.core \o ".exceptions", t.core \o ".exception_aliases"}
OwnNames(t, e) == {nm \in Names : \E i \in 1..Len(e.mro) : e.mro[i] = nm /\ i <= Len(e.mods) /\ e.mods[i] \in OwnModules(t)}

Obs(t, e) ==
  IF e.kind = "raise"
    THEN [kind |-> "raise", mro |-> OwnNames(t, e), status |-> e.status_attr,
          hasResponse |-> (e.has_response /\ e.response_status = e.status), exc |-> e.exc]
    ELSE Return

Init == tid \in 1..Len(Traces) /\ done = FALSE

Judge ==
  /\ ~done
  /\ done' = TRUE
  /\ UNCHANGED tid
  /\ LET t   == Traces[tid]
         d   == ToSet(t.decl)
         n   == Len(t.ev)
         E(i) == t.ev[i]
         FA  == [i \in 1..n |-> Failures(d, E(i).transport, E(i).status, Obs(t, E(i)))]
         MO  == [i \in 1..n |-> ModelOutcome("as_is", d, E(i).transport, E(i).status)]
         MF  == [i \in 1..n |-> Failures(d, E(i).transport, E(i).status, MO[i])]
         Agg(FS, f) == LET idx == {i \in 1..n : f \in FS[i]}
                       IN  [clause |-> f.clause, locus |-> f.locus, n |-> Cardinality(idx),
                            first |-> Min({E(i).status : i \in idx})]
         AggAll(FS) == LET all == UNION {FS[i] : i \in 1..n} IN SetToSeq({Agg(FS, f) : f \in all})
         drift == {i \in 1..n : Project(Obs(t, E(i))) # Project(MO[i])}
         cnt(P(_)) == Cardinality({i \in 1..n : P(E(i))})
     IN PrintT("VERDICT " \o ToJson([
            id         |-> t.id,
            wellformed |-> WellFormed(d) /\ \A i \in 1..n : E(i).status \in 100..599 /\ E(i).transport \in {"bundled", "pass"},
            importable_model |-> Importable("as_is", d),
            fails       |-> AggAll(FA),
            model_fails |-> AggAll(MF),
            ndrift      |-> Cardinality(drift),
            drift_first |-> IF drift = {} THEN [status |-> 0, transport |-> ""]
                            ELSE [status |-> E(Min(drift)).status, transport |-> E(Min(drift)).transport],
            ante |-> [calls  |-> n,
                      non2xx |-> cnt(LAMBDA e : ~Is2xx(e.status)),
                      raised |-> cnt(LAMBDA e : ~Is2xx(e.status) /\ e.kind = "raise"),
                      c4xx   |-> cnt(LAMBDA e : Is4xx(e.status) /\ e.kind = "raise"),
                      c5xx   |-> cnt(LAMBDA e : Is5xx(e.status) /\ e.kind = "raise")]]))

Spec == Init /\ [][Judge]_<<tid, done>>
=============================================================================
